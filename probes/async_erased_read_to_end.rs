use vstd::prelude::*;
verus! {
pub uninterp spec fn stream_of<R: ?Sized>(r: &R) -> Seq<u8>;
pub mod tokio_shim {
    pub trait AsyncRead { }
}
pub mod tio {
    use super::*;
    #[verifier::external_body]
    pub fn read_to_end<R: super::tokio_shim::AsyncRead>(r: &mut R, buf: &mut Vec<u8>) -> (res: Result<usize, ()>)
        ensures res is Ok ==> final(buf)@ == old(buf)@ + stream_of(&*old(r))
    { unimplemented!() }
}
use tokio_shim::*;
pub fn delta<R: AsyncRead + Unpin>(mut source: R) -> (res: Result<Vec<u8>, ()>)
    ensures res is Ok ==> res->Ok_0@ == stream_of(&source)
{
    let mut source_data = Vec::new();
    tio::read_to_end(&mut source, &mut source_data)?;
    Ok(source_data)
}
}
fn main() {}
