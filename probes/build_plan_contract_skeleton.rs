use vstd::prelude::*;
use vstd::std_specs::btree::*;
use std::collections::BTreeMap;
use std::path::{Path, PathBuf};
verus! {
global size_of usize == 8;
#[verifier::external_type_specification] #[verifier::external_body] pub struct ExPathBuf(PathBuf);
#[verifier::external_type_specification] #[verifier::external_body] pub struct ExPath(Path);
pub type PathV = Seq<u8>;
pub uninterp spec fn pv(p: &Path) -> PathV;
pub uninterp spec fn pbv(p: &PathBuf) -> PathV;
pub assume_specification [<PathBuf as core::ops::Deref>::deref] (a: &PathBuf) -> (r: &Path) ensures pv(r) == pbv(a);
pub assume_specification [<PathBuf as Clone>::clone] (a: &PathBuf) -> (r: PathBuf) ensures r == *a;
pub broadcast axiom fn ax_pathbuf_keys()
    ensures #[trigger] borrowed_key_ordering_matches::<PathBuf, PathBuf>(), key_obeys_cmp_spec::<PathBuf>();

// total order on paths (std: component-wise byte order) — only its order laws are used
pub uninterp spec fn ord_le<T>(a: T, b: T) -> bool;     // T's `Ord` (assumed total order)
pub open spec fn sorted<T>(v: Seq<T>) -> bool { forall|i: int, j: int| 0 <= i <= j < v.len() ==> ord_le(v[i], v[j]) }
pub assume_specification<T: Ord> [<[T]>::sort] (v: &mut [T])
    ensures sorted(final(v)@), final(v)@.to_multiset() == old(v)@.to_multiset();
pub assume_specification<T: Copy> [Option::<&T>::copied] (o: Option<&T>) -> (r: Option<T>)
    ensures r == (match o { Some(x) => Some(*x), None => None });
pub assume_specification<T, U, F: FnOnce(T) -> U> [Option::<T>::map_or] (o: Option<T>, default: U, f: F) -> (r: U)
    requires o is Some ==> f.requires((o->Some_0,)),
    ensures o is None ==> r == default, o is Some ==> f.ensures((o->Some_0,), r);

#[derive(Clone, Copy, PartialEq, Eq)]
pub struct FileMeta { pub size: u64, pub mtime: i64 }
pub type MetaMap = BTreeMap<PathBuf, FileMeta>;
pub struct SyncPlan { pub transfer: Vec<PathBuf>, pub skipped: usize, pub delete: Vec<PathBuf> }

pub uninterp spec fn ex(rel: PathV, excludes: Seq<String>) -> bool;
#[verifier::external_body]
pub fn is_excluded(rel: &Path, excludes: &[String]) -> (r: bool) ensures r == ex(pv(rel), excludes@) { unimplemented!() }

pub open spec fn needs(src: FileMeta, dst: Option<FileMeta>) -> bool {
    dst is None || src.size != dst->Some_0.size || src.mtime != dst->Some_0.mtime
}
pub fn needs_transfer(src: FileMeta, dst: Option<FileMeta>) -> (r: bool)
    ensures r == needs(src, dst)
{
    dst.map_or(true, |d: FileMeta| -> (b: bool) ensures b == (src.size != d.size || src.mtime != d.mtime) { src.size != d.size || src.mtime != d.mtime })
}

pub open spec fn want_transfer(src: Map<PathBuf, FileMeta>, dst: Map<PathBuf, FileMeta>, excludes: Seq<String>, p: PathBuf) -> bool {
    src.contains_key(p) && !ex(pbv(&p), excludes) && needs(src[p], if dst.contains_key(p) { Some(dst[p]) } else { None })
}
pub open spec fn want_delete(src: Map<PathBuf, FileMeta>, dst: Map<PathBuf, FileMeta>, excludes: Seq<String>, p: PathBuf) -> bool {
    dst.contains_key(p) && !src.contains_key(p) && !ex(pbv(&p), excludes)
}

pub fn build_plan(
    src: &MetaMap,
    dst: &MetaMap,
    excludes: &[String],
    with_delete: bool,
) -> (plan: SyncPlan)
    requires src@.len() < usize::MAX,
    ensures
        forall|p: PathBuf| plan.transfer@.contains(p) <==> want_transfer(src@, dst@, excludes@, p),
        plan.transfer@.no_duplicates(), sorted(plan.transfer@),
        plan.skipped + plan.transfer@.len() == src@.dom().filter(|p: PathBuf| !ex(pbv(&p), excludes@)).len(),
        !with_delete ==> plan.delete@.len() == 0,
        with_delete ==> (forall|p: PathBuf| plan.delete@.contains(p) <==> want_delete(src@, dst@, excludes@, p)),
        plan.delete@.no_duplicates(), sorted(plan.delete@),
{
    broadcast use group_btree_axioms, ax_pathbuf_keys;
    let mut plan = SyncPlan { transfer: Vec::new(), skipped: 0, delete: Vec::new() };
    for (path, smeta) in src.iter() {
        if is_excluded(path, excludes) {
        } else {
        if needs_transfer(*smeta, dst.get(path).copied()) {
            plan.transfer.push(path.clone());
        } else {
            plan.skipped += 1;
        }
        }
    }
    if with_delete {
        for path in dst.keys() {
            if !src.contains_key(path) && !is_excluded(path, excludes) {
                plan.delete.push(path.clone());
            }
        }
    }
    plan.transfer.sort();
    plan.delete.sort();
    plan
}
}
fn main() {}
