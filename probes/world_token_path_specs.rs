use vstd::prelude::*;
use std::path::{Path, PathBuf};
use std::ffi::{OsStr, OsString};
verus! {

#[verifier::external_type_specification]
#[verifier::external_body]
pub struct ExIoError(std::io::Error);
#[verifier::external_type_specification]
#[verifier::external_body]
pub struct ExPathBuf(PathBuf);
#[verifier::external_type_specification]
#[verifier::external_body]
pub struct ExPath(Path);
#[verifier::external_type_specification]
#[verifier::external_body]
pub struct ExOsString(OsString);
#[verifier::external_type_specification]
#[verifier::external_body]
pub struct ExOsStr(OsStr);

pub uninterp spec fn pview(p: &Path) -> Seq<u8>;
pub uninterp spec fn osview(p: &OsStr) -> Seq<u8>;
pub uninterp spec fn pbview(p: &PathBuf) -> Seq<u8>;
pub uninterp spec fn osbview(p: &OsString) -> Seq<u8>;

pub assume_specification [Path::parent] (p: &Path) -> (r: Option<&Path>);
pub assume_specification [Path::as_os_str] (p: &Path) -> (r: &OsStr) ensures osview(r) == pview(p);
pub assume_specification [OsStr::to_owned] (p: &OsStr) -> (r: OsString) ensures osbview(&r) == osview(p);

pub struct World { pub files: Map<Seq<u8>, Seq<u8>> }

pub fn copy_atomic(src: &Path, dst: &Path, Tracked(w): Tracked<&mut World>) -> std::io::Result<()> {
    if let Some(p) = dst.parent() {
        vfs_create_dir_all(p, Tracked(w))?;
    }
    let mut tmp = dst.as_os_str().to_owned();
    Ok(())
}
#[verifier::external_body]
pub fn vfs_create_dir_all(p: &Path, Tracked(w): Tracked<&mut World>) -> (r: std::io::Result<()>)
    ensures final(w).files == old(w).files
{ unimplemented!() }
}
fn main() {}
