use vstd::prelude::*;
use std::collections::BTreeMap;
verus! {
global size_of usize == 8;
// learn: what is known after a for loop over map.iter()
pub fn count_even(m: &BTreeMap<u64, u8>) -> (r: usize)
    requires m@.len() < 1000
    ensures r == m@.dom().filter(|k: u64| k % 2 == 0).len()
{
    broadcast use vstd::std_specs::btree::group_btree_axioms;
    let mut c: usize = 0;
    let ghost mut seen: Set<u64> = Set::empty();
    proof { assert(seen.filter(|k: u64| k % 2 == 0) =~= Set::<u64>::empty()); }
    for (k, v) in it: m.iter()
        invariant
            forall|x: u64| seen.contains(x) <==> (exists|i: int| 0 <= i < it.index() && *(#[trigger] it.seq()[i]).0 == x),
            c == seen.filter(|k: u64| k % 2 == 0).len(),
            c <= it.index(),
            it.seq().len() == m@.len(), m@.len() < 1000,
            it.seq().no_duplicates(),
            forall|i: int| 0 <= i < it.seq().len() ==> m@.contains_key(*(#[trigger] it.seq()[i]).0) && m@[*it.seq()[i].0] == *it.seq()[i].1,
            forall|k: u64| m@.contains_key(k) ==> exists|i: int| 0 <= i < it.seq().len() && *(#[trigger] it.seq()[i]).0 == k,
            (it.index() == it.seq().len()) ==> seen =~= m@.dom(),
    {
        proof {
            let i0 = it.index() as int;
            assert(!seen.contains(*k)) by {
                if seen.contains(*k) {
                    let j = choose|j: int| 0 <= j < i0 && *(#[trigger] it.seq()[j]).0 == *k;
                    assert(*it.seq()[j].0 == *it.seq()[i0].0);
                    assert(*it.seq()[j].1 == *it.seq()[i0].1);
                    assert(it.seq()[j] == it.seq()[i0]);
                }
            }
            let f = |k: u64| k % 2 == 0;
            let s2 = seen.insert(*k);
            assert(s2.filter(f) =~= if f(*k) { seen.filter(f).insert(*k) } else { seen.filter(f) });
            seen = s2;
        }
        if *k % 2 == 0 {
            c += 1;
        }
    }
    c
}
}
fn main() {}
