use vstd::prelude::*;
verus! {
#[verifier::external_type_specification] #[verifier::external_body] pub struct ExIoError(std::io::Error);
// R11: opaque error channel standing for Box<dyn std::error::Error>
#[verifier::external_body] pub struct VErr { _p: () }
impl From<std::io::Error> for VErr { #[verifier::external_body] fn from(e: std::io::Error) -> Self { unimplemented!() } }
impl From<String> for VErr { #[verifier::external_body] fn from(e: String) -> Self { unimplemented!() } }
#[verifier::external_body]
fn rd() -> (r: std::io::Result<usize>) { unimplemented!() }
fn with_block_size(bs: usize) -> (r: usize) requires bs >= 512 { bs }
fn validate_block_size(size: usize) -> (r: Result<(), String>) ensures r is Ok ==> size >= 512 {
    if size < 512 { return Err(String::new()); }
    Ok(())
}
fn run_fixed() -> Result<(), VErr> {
    let n = rd()?;
    validate_block_size(n)?;
    let s = with_block_size(n);
    Ok(())
}
fn run_repo() -> Result<(), VErr> {
    let n = rd()?;
    let s = with_block_size(n);
    Ok(())
}
}
fn main() {}
