use vstd::prelude::*;
use std::path::{Path, PathBuf};
use std::io::Write;
verus! {
global size_of usize == 8;
#[verifier::external_type_specification] #[verifier::external_body] pub struct ExIoError(std::io::Error);
#[verifier::external_type_specification] #[verifier::external_body] pub struct ExPathBuf(PathBuf);
#[verifier::external_type_specification] #[verifier::external_body] pub struct ExPath(Path);
pub type PathV = Seq<u8>;
pub uninterp spec fn pv(p: &Path) -> PathV;
pub uninterp spec fn pbv(p: &PathBuf) -> PathV;
pub uninterp spec fn strv(s: Seq<char>) -> PathV;
pub uninterp spec fn asp<P>(p: P) -> PathV;
pub open spec fn joinv(a: PathV, b: PathV) -> PathV { a + seq![47u8] + b }
pub broadcast axiom fn asp_path(p: &Path) ensures #[trigger] asp::<&Path>(p) == pv(p);
pub broadcast axiom fn asp_pathbuf(p: &PathBuf) ensures #[trigger] asp::<&PathBuf>(p) == pbv(p);
pub broadcast axiom fn asp_pathbuf_owned(p: PathBuf) ensures #[trigger] asp::<PathBuf>(p) == pbv(&p);
pub broadcast axiom fn asp_str(p: &str) ensures #[trigger] asp::<&str>(p) == strv(p@);
pub assume_specification<P: AsRef<Path>> [Path::join] (a: &Path, b: P) -> (r: PathBuf) ensures pbv(&r) == joinv(pv(a), asp(b));

pub uninterp spec fn H(s: Seq<u8>) -> [u8; 32];
pub type Hash = [u8; 32];

// ---------- world with lock + ownership ----------
pub struct FileS { pub bytes: Seq<u8>, pub complete: bool }
pub struct World {
    pub files: Map<PathV, FileS>,
    pub root: PathV,
    pub lock: bool,
    pub private: Set<PathV>,
    pub reliable: bool,      // no injected FS faults (C03/C10 do not quantify over them)
}
pub open spec fn under(root: PathV, p: PathV) -> bool { exists|r: PathV| p == #[trigger] joinv(root, r) }   // refined by safe_join's contract
// rely/guarantee invariant every server process maintains at every primitive boundary
pub open spec fn inv(w: World) -> bool { forall|p: PathV| #[trigger] w.files.contains_key(p) && !w.private.contains(p) ==> w.files[p].complete }

pub struct LockFile { _p: () }
#[verifier::external_body]
pub fn vfs_open_lock<P: AsRef<Path>>(p: P, Tracked(w): Tracked<&mut World>) -> (r: std::io::Result<LockFile>)
    requires under(old(w).root, asp(p))
    ensures *final(w) == *old(w)
{ unimplemented!() }
#[verifier::external_body]
pub fn vfs_lock_exclusive(l: &LockFile, Tracked(w): Tracked<&mut World>) -> (r: std::io::Result<()>)
    requires !old(w).lock, inv(*old(w)),
    ensures
        final(w).root == old(w).root, final(w).private == old(w).private, final(w).reliable == old(w).reliable,
        r is Ok ==> final(w).lock && inv(*final(w))
            // other processes ran: every non-private path may have changed; private ones did not
            && (forall|p: PathV| old(w).private.contains(p) ==> final(w).files.contains_key(p) == old(w).files.contains_key(p)
                    && (final(w).files.contains_key(p) ==> final(w).files[p] == old(w).files[p])),
        r is Err ==> *final(w) == *old(w),
{ unimplemented!() }
#[verifier::external_body]
pub fn vfs_unlock(l: &LockFile, Tracked(w): Tracked<&mut World>) -> (r: std::io::Result<()>)
    requires old(w).lock, inv(*old(w)),
    ensures final(w).files == old(w).files, final(w).root == old(w).root, final(w).private == old(w).private, !final(w).lock, final(w).reliable == old(w).reliable,
{ unimplemented!() }
// stable read: only under the lock does the answer describe the file that later operations will see
#[verifier::external_body]
pub fn current_hash(dst: &Path, Tracked(w): Tracked<&mut World>) -> (r: Option<Hash>)
    requires under(old(w).root, pv(dst)),
    ensures *final(w) == *old(w),
        old(w).lock ==> (match r { Some(h) => old(w).files.contains_key(pv(dst)) && h == H(old(w).files[pv(dst)].bytes), None => !old(w).files.contains_key(pv(dst)) }),
{ unimplemented!() }
#[verifier::external_body]
pub fn vfs_remove_file<P: AsRef<Path>>(p: P, Tracked(w): Tracked<&mut World>) -> (r: std::io::Result<()>)
    requires under(old(w).root, asp(p)), old(w).lock || old(w).private.contains(asp(p)),   // live paths only under the lock
    ensures final(w).root == old(w).root, final(w).lock == old(w).lock, final(w).private == old(w).private, final(w).reliable == old(w).reliable,
        r is Ok ==> final(w).files == old(w).files.remove(asp(p)),
        r is Err ==> final(w).files == old(w).files,
        (old(w).reliable && old(w).files.contains_key(asp(p))) ==> r is Ok,
{ unimplemented!() }

#[derive(Clone, Copy, PartialEq, Eq)]
pub enum Cas { Commit, Conflict }
pub fn cas_decide(current: Option<Hash>, expected: Option<Hash>) -> (r: Cas)
    ensures (r == Cas::Commit) <==> (current == expected)     // proved by Kani on the real function
{
    if current == expected {
        Cas::Commit
    } else {
        Cas::Conflict
    }
}
pub enum Response { DeleteResult { deleted: bool, current: Option<Hash> }, Error(String) }
pub struct Sink { pub frames: Seq<Response> }
#[verifier::external_body]
pub fn write_frame<W: Write>(w: &mut W, msg: &Response, Tracked(snk): Tracked<&mut Sink>) -> (r: std::io::Result<()>)
    ensures r is Ok ==> final(snk).frames == old(snk).frames.push(*msg)
{ unimplemented!() }
#[verifier::external_body]
fn safe_join(root: &Path, rel: &str) -> (r: Option<PathBuf>)
    ensures r is Some ==> under(pv(root), pbv(&r->Some_0)) && pbv(&r->Some_0) == dstv(pv(root), rel@)
{ unimplemented!() }
#[verifier::external_body]
fn err_string() -> String { unimplemented!() }
pub assume_specification [<PathBuf as core::ops::Deref>::deref] (a: &PathBuf) -> (r: &Path) ensures pv(r) == pbv(a);

pub uninterp spec fn dstv(root: PathV, rel: Seq<char>) -> PathV;     // what safe_join returns for (root, rel)
pub open spec fn cur_of(l: World, p: PathV) -> Option<Hash> { if l.files.contains_key(p) { Some(H(l.files[p].bytes)) } else { None } }
pub open spec fn expected_v(e: Option<Hash>) -> Option<Hash> { e }
pub open spec fn current_v(e: Option<Hash>) -> Option<Hash> { e }
// serve.rs::handle_delete with R6 (with_commit_lock inlined from its own extracted body), R7, R3
fn handle_delete<W: Write>(
    root: &Path,
    lockdir: &Path,
    path: &str,
    expected: Option<Hash>,
    w: &mut W,
    Tracked(fs): Tracked<&mut World>,
    Tracked(snk): Tracked<&mut Sink>,
) -> (res: std::io::Result<()>)
    requires
        old(fs).root == pv(root), !old(fs).lock, inv(*old(fs)), old(fs).reliable, under(pv(root), joinv(pv(lockdir), strv("commit.lock"@))),
    ensures
        !final(fs).lock || res is Err,   // (lock leak on error paths is reported separately)
        res is Ok ==> ({
            let last = final(snk).frames.last();
            &&& final(snk).frames.len() == old(snk).frames.len() + 1
            &&& match last {
                Response::DeleteResult { deleted, current } => exists|l: World| {
                    &&& #[trigger] inv(l) && l.lock && l.root == old(fs).root     // the state this process saw when it got the lock
                    &&& under(l.root, dstv(pv(root), path@))
                    &&& deleted <==> (cur_of(l, dstv(pv(root), path@)) == expected_v(expected))
                    &&& deleted ==> final(fs).files == l.files.remove(dstv(pv(root), path@))
                    &&& !deleted ==> final(fs).files == l.files && current_v(current) == cur_of(l, dstv(pv(root), path@))
                },
                Response::Error(_) => final(fs).files == old(fs).files,
            }
        }),
{
    broadcast use asp_path, asp_pathbuf, asp_pathbuf_owned, asp_str;
    let Some(dst) = safe_join(root, path) else {
        return write_frame(w, &Response::Error(err_string()), Tracked(snk));
    };
    let resp = {
        // ---- body of with_commit_lock(lockdir, f), f inlined ----
        let lf = vfs_open_lock(lockdir.join("commit.lock"), Tracked(fs))?;
        vfs_lock_exclusive(&lf, Tracked(fs))?;
        let ghost locked = *fs;
        let out = {
            let current = current_hash(&dst, Tracked(fs));
            match cas_decide(current, expected) {
                Cas::Commit => {
                    let _ = vfs_remove_file(&dst, Tracked(fs));
                    Response::DeleteResult {
                        deleted: true,
                        current: None,
                    }
                }
                Cas::Conflict => Response::DeleteResult {
                    deleted: false,
                    current,
                },
            }
        };
        proof {
            let d = dstv(pv(root), path@);
            assert(inv(locked) && locked.lock);
            if !locked.files.contains_key(d) { assert(locked.files.remove(d) =~= locked.files); }
            assert(pbv(&dst) == d);
            assert(locked.root == old(fs).root);
            assert(under(locked.root, d));
            match out {
                Response::DeleteResult { deleted, current } => {
                    assert(deleted <==> (cur_of(locked, d) == expected_v(expected)));
                    assert(deleted ==> fs.files == locked.files.remove(d));
                    assert(!deleted ==> fs.files == locked.files && current_v(current) == cur_of(locked, d));
                }
                _ => {}
            }
        }
        let _ = vfs_unlock(&lf, Tracked(fs));
        out
    };
    write_frame(w, &resp, Tracked(snk))
}
}
fn main() {}
