use vstd::prelude::*;
use std::collections::BTreeMap;
use std::path::{Path, PathBuf};
verus! {

#[verifier::external_type_specification]
#[verifier::external_body]
pub struct ExPathBuf(PathBuf);
#[verifier::external_type_specification]
#[verifier::external_body]
pub struct ExPath(Path);

#[derive(Clone, Copy, Debug, PartialEq, Eq)]
pub struct FileMeta {
    pub size: u64,
    pub mtime: i64,
}
pub type MetaMap = BTreeMap<PathBuf, FileMeta>;

pub struct SyncPlan {
    pub transfer: Vec<PathBuf>,
    pub skipped: usize,
    pub delete: Vec<PathBuf>,
}

#[verifier::external_body]
pub fn is_excluded(rel: &Path, excludes: &[String]) -> bool { unimplemented!() }

pub fn needs_transfer(src: FileMeta, dst: Option<FileMeta>) -> bool {
    dst.map_or(true, |d| src.size != d.size || src.mtime != d.mtime)
}

pub fn build_plan(
    src: &MetaMap,
    dst: &MetaMap,
    excludes: &[String],
    with_delete: bool,
) -> SyncPlan {
    let mut plan = SyncPlan { transfer: Vec::new(), skipped: 0, delete: Vec::new() };
    for (path, smeta) in src {
        if is_excluded(path, excludes) {
            continue;
        }
        if needs_transfer(*smeta, dst.get(path).copied()) {
            plan.transfer.push(path.clone());
        } else {
            plan.skipped += 1;
        }
    }
    if with_delete {
        for path in dst.keys() {
            if !src.contains_key(path) && !is_excluded(path, excludes) {
                plan.delete.push(path.clone());
            }
        }
    }
    plan.transfer.sort();
    plan.delete.sort();
    plan
}
}
fn main() {}
