use vstd::prelude::*;
use std::collections::HashMap;
use std::hash::BuildHasher;
verus! {
global size_of usize == 8;
// shim for rustc_hash (not linkable): same API surface used by the repo
pub mod rustc_hash {
    #[derive(Clone, Copy, Default)]
    #[verifier::external_body]
    pub struct FxBuildHasher;
    #[verifier::external]
    impl std::hash::BuildHasher for FxBuildHasher {
        type Hasher = std::collections::hash_map::DefaultHasher;
        fn build_hasher(&self) -> Self::Hasher { unimplemented!() }
    }
    pub type FxHashMap<K, V> = std::collections::HashMap<K, V, FxBuildHasher>;
}
use rustc_hash::FxHashMap;

pub struct BlockSignature { pub index: u32, pub weak_hash: u32 }
pub struct Signature { pub block_size: usize, pub file_size: u64, pub blocks: Vec<BlockSignature> }
pub struct SignatureTable { weak_index: FxHashMap<u32, Vec<usize>>, signature: Signature }

impl SignatureTable {
    pub fn has_weak_match(&self, weak: u32) -> bool {
        self.weak_index.contains_key(&weak)
    }
    pub fn get_c(&self, weak: u32) -> Option<usize> {
        let candidates = self.weak_index.get(&weak)?;
        Some(candidates.len())
    }
}
}
fn main() {}
