use vstd::prelude::*;
verus! {
global size_of usize == 8;
pub assume_specification<T: Clone> [<[T]>::to_vec] (s: &[T]) -> (r: Vec<T>) ensures r@ == s@;

pub enum DeltaOp { Copy { offset: u64, len: u32 }, Literal(Vec<u8>) }
impl DeltaOp {
    pub const fn copy(offset: u64, len: u32) -> (r: Self) ensures r == (DeltaOp::Copy { offset, len }) { Self::Copy { offset, len } }
    pub fn literal(data: Vec<u8>) -> (r: Self) ensures r == DeltaOp::Literal(data) { Self::Literal(data) }
    pub fn literal_from_slice(data: &[u8]) -> (r: Self) ensures r is Literal, r->Literal_0@ == data@ { Self::Literal(data.to_vec()) }
}
pub struct Delta { pub block_size: u32, pub source_size: u64, pub basis_size: u64, pub ops: Vec<DeltaOp> }

pub open spec fn op_out(op: DeltaOp, basis: Seq<u8>) -> Seq<u8> {
    match op { DeltaOp::Copy { offset, len } => basis.subrange(offset as int, offset + len), DeltaOp::Literal(d) => d@ }
}
pub open spec fn op_ok(op: DeltaOp, n: int) -> bool {
    match op { DeltaOp::Copy { offset, len } => len > 0 && offset + len <= n, DeltaOp::Literal(d) => true }
}
pub open spec fn op_lit(op: DeltaOp) -> nat { match op { DeltaOp::Literal(d) => d@.len(), _ => 0nat } }
pub open spec fn out(ops: Seq<DeltaOp>, basis: Seq<u8>) -> Seq<u8> decreases ops.len() {
    if ops.len() == 0 { Seq::empty() } else { out(ops.drop_last(), basis) + op_out(ops.last(), basis) }
}
pub open spec fn lit(ops: Seq<DeltaOp>) -> nat decreases ops.len() {
    if ops.len() == 0 { 0 } else { lit(ops.drop_last()) + op_lit(ops.last()) }
}
pub open spec fn ops_ok(ops: Seq<DeltaOp>, n: int) -> bool { forall|k: int| 0 <= k < ops.len() ==> op_ok(#[trigger] ops[k], n) }
// no Copy can overflow u64 when its end is computed (what push_copy's merge test needs)
pub open spec fn ops_nooverflow(ops: Seq<DeltaOp>) -> bool {
    forall|k: int| 0 <= k < ops.len() ==> (match #[trigger] ops[k] { DeltaOp::Copy { offset, len } => offset + len <= u64::MAX, _ => true })
}

impl Delta {
    pub fn push_copy(&mut self, offset: u64, len: u32)
        requires len > 0, ops_nooverflow(old(self).ops@), offset + len <= u64::MAX,
        ensures
            final(self).block_size == old(self).block_size, final(self).source_size == old(self).source_size, final(self).basis_size == old(self).basis_size,
            ops_nooverflow(final(self).ops@),
            (ops_ok(old(self).ops@, old(self).basis_size as int) && offset + len <= old(self).basis_size) ==> ops_ok(final(self).ops@, final(self).basis_size as int),
            lit(final(self).ops@) == lit(old(self).ops@),
            forall|basis: Seq<u8>| (ops_ok(old(self).ops@, basis.len() as int) && offset + len <= basis.len()) ==>
                #[trigger] out(final(self).ops@, basis) == out(old(self).ops@, basis) + basis.subrange(offset as int, offset + len),
    {
        let ghost ops0 = self.ops@;
        // Try to merge with previous copy if contiguous
        if let Some(DeltaOp::Copy {
            offset: prev_offset,
            len: prev_len,
        }) = self.ops.last_mut()
        {
            if *prev_offset + u64::from(*prev_len) == offset {
                // Contiguous: merge
                if let Some(new_len) = prev_len.checked_add(len) {
                    *prev_len = new_len;
                    proof {
                        let n = ops0.len() as int;
                        let po = ops0[n - 1]->Copy_offset; let pl = ops0[n - 1]->Copy_len;
                        assert(self.ops@ =~= ops0.drop_last().push(DeltaOp::Copy { offset: po, len: new_len }));
                        assert(self.ops@.drop_last() =~= ops0.drop_last());
                        assert forall|basis: Seq<u8>| (ops_ok(ops0, basis.len() as int) && offset + len <= basis.len()) implies
                            #[trigger] out(self.ops@, basis) == out(ops0, basis) + basis.subrange(offset as int, offset + len) by {
                            assert(op_ok(ops0[n - 1], basis.len() as int));
                            assert(basis.subrange(po as int, po + new_len) =~= basis.subrange(po as int, po + pl) + basis.subrange(offset as int, offset + len));
                        }
                    }
                    return;
                }
            }
        }
        self.ops.push(DeltaOp::copy(offset, len));
        proof { assert(self.ops@.drop_last() =~= ops0); }
    }

    pub fn push_literal(&mut self, data: &[u8])
        ensures
            final(self).block_size == old(self).block_size, final(self).source_size == old(self).source_size, final(self).basis_size == old(self).basis_size,
            ops_nooverflow(old(self).ops@) ==> ops_nooverflow(final(self).ops@),
            ops_ok(old(self).ops@, old(self).basis_size as int) ==> ops_ok(final(self).ops@, final(self).basis_size as int),
            lit(final(self).ops@) == lit(old(self).ops@) + data@.len(),
            forall|basis: Seq<u8>| #[trigger] out(final(self).ops@, basis) == out(old(self).ops@, basis) + data@,
    {
        let ghost ops0 = self.ops@;
        if data.is_empty() {
            proof { assert forall|basis: Seq<u8>| #[trigger] out(ops0, basis) == out(ops0, basis) + data@ by { assert(out(ops0, basis) + data@ =~= out(ops0, basis)); } }
            return;
        }
        // Try to merge with previous literal
        if let Some(DeltaOp::Literal(prev_data)) = self.ops.last_mut() {
            prev_data.extend_from_slice(data);
            proof {
                let n = ops0.len() as int;
                assert(self.ops@.drop_last() =~= ops0.drop_last());
                assert forall|basis: Seq<u8>| #[trigger] out(self.ops@, basis) == out(ops0, basis) + data@ by {
                    assert(out(ops0.drop_last(), basis) + (ops0[n - 1]->Literal_0@ + data@) =~= out(ops0, basis) + data@);
                }
            }
            return;
        }
        self.ops.push(DeltaOp::literal_from_slice(data));
        proof { assert(self.ops@.drop_last() =~= ops0); }
    }

    pub fn push_literal_byte(&mut self, byte: u8)
        ensures
            final(self).block_size == old(self).block_size, final(self).source_size == old(self).source_size, final(self).basis_size == old(self).basis_size,
            ops_nooverflow(old(self).ops@) ==> ops_nooverflow(final(self).ops@),
            ops_ok(old(self).ops@, old(self).basis_size as int) ==> ops_ok(final(self).ops@, final(self).basis_size as int),
            lit(final(self).ops@) == lit(old(self).ops@) + 1,
            forall|basis: Seq<u8>| #[trigger] out(final(self).ops@, basis) == out(old(self).ops@, basis).push(byte),
    {
        let ghost ops0 = self.ops@;
        if let Some(DeltaOp::Literal(prev_data)) = self.ops.last_mut() {
            prev_data.push(byte);
            proof {
                let n = ops0.len() as int;
                assert(self.ops@.drop_last() =~= ops0.drop_last());
                assert forall|basis: Seq<u8>| #[trigger] out(self.ops@, basis) == out(ops0, basis).push(byte) by {
                    assert(out(ops0.drop_last(), basis) + ops0[n - 1]->Literal_0@.push(byte) =~= out(ops0, basis).push(byte));
                }
            }
            return;
        }
        self.ops.push(DeltaOp::literal(vec![byte]));
        proof {
            assert(self.ops@.drop_last() =~= ops0);
            assert forall|basis: Seq<u8>| #[trigger] out(self.ops@, basis) == out(ops0, basis).push(byte) by {
                assert(out(ops0, basis) + seq![byte] =~= out(ops0, basis).push(byte));
            }
        }
    }
}
}
fn main() {}
