use vstd::prelude::*;
use std::io::Read;
verus! {

#[verifier::external_type_specification]
#[verifier::external_body]
pub struct ExIoError(std::io::Error);

pub uninterp spec fn stream_of<R: ?Sized>(r: &R) -> Seq<u8>;

#[verifier::external_trait_specification]
pub trait ExRead {
    type ExternalTraitSpecificationFor: std::io::Read;

    fn read_to_end(&mut self, buf: &mut Vec<u8>) -> (res: Result<usize, std::io::Error>)
        ensures res is Ok ==> final(buf)@ == old(buf)@ + stream_of(&*old(self));
}

pub enum MyErr { Io(std::io::Error), Other }

impl vstd::std_specs::convert::FromSpecImpl<std::io::Error> for MyErr {
    open spec fn obeys_from_spec() -> bool { true }
    open spec fn from_spec(e: std::io::Error) -> Self { MyErr::Io(e) }
}
impl From<std::io::Error> for MyErr {
    fn from(e: std::io::Error) -> Self { MyErr::Io(e) }
}

pub fn f<R: Read>(mut source: R) -> (res: Result<Vec<u8>, MyErr>)
    ensures res is Ok ==> res->Ok_0@ == stream_of(&source),
{
    let ghost s0 = stream_of(&source);
    let mut v: Vec<u8> = Vec::new();
    assert(v@ == Seq::<u8>::empty());
    source.read_to_end(&mut v)?;
    Ok(v)
}
}
fn main() {}
