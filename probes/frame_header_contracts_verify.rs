use vstd::prelude::*;
verus! {
global size_of usize == 8;
pub const PROTOCOL_MAGIC: [u8; 4] = *b"COPA";
pub const PROTOCOL_VERSION: u8 = 1;
pub const MAX_PAYLOAD_SIZE: u32 = 16 * 1024 * 1024;

// R5 shims (std's *_le_bytes cannot be given an assume_specification): little-endian by arithmetic
pub open spec fn le4(b: Seq<u8>) -> int { b[0] as int + 256 * (b[1] as int) + 65536 * (b[2] as int) + 16777216 * (b[3] as int) }
pub open spec fn le2(b: Seq<u8>) -> int { b[0] as int + 256 * (b[1] as int) }
#[verifier::external_body] pub fn u32_to_le_bytes(x: u32) -> (r: [u8; 4]) ensures le4(r@) == x { x.to_le_bytes() }
#[verifier::external_body] pub fn u16_to_le_bytes(x: u16) -> (r: [u8; 2]) ensures le2(r@) == x { x.to_le_bytes() }
#[verifier::external_body] pub fn u32_from_le_bytes(b: [u8; 4]) -> (r: u32) ensures le4(b@) == r { u32::from_le_bytes(b) }
#[verifier::external_body] pub fn u16_from_le_bytes(b: [u8; 2]) -> (r: u16) ensures le2(b@) == r { u16::from_le_bytes(b) }
#[verifier::external_body] pub fn vfmt() -> String { String::new() }

#[derive(Clone, Copy, PartialEq, Eq)]
pub enum MessageType { SignatureRequest = 0x01, SignatureResponse = 0x02, DeltaData = 0x03, Ack = 0x04, Error = 0x05, Ping = 0x06, Pong = 0x07 }
pub open spec fn mt_code(m: MessageType) -> u8 {
    match m { MessageType::SignatureRequest => 1, MessageType::SignatureResponse => 2, MessageType::DeltaData => 3, MessageType::Ack => 4, MessageType::Error => 5, MessageType::Ping => 6, MessageType::Pong => 7 }
}
pub enum CopiaError { ProtocolError(String) }
pub type Result<T> = std::result::Result<T, CopiaError>;

impl MessageType {
    pub fn from_u8(value: u8) -> (r: Result<Self>)
        ensures r is Ok <==> 1 <= value <= 7, r is Ok ==> mt_code(r->Ok_0) == value
    {
        match value {
            0x01 => Ok(Self::SignatureRequest),
            0x02 => Ok(Self::SignatureResponse),
            0x03 => Ok(Self::DeltaData),
            0x04 => Ok(Self::Ack),
            0x05 => Ok(Self::Error),
            0x06 => Ok(Self::Ping),
            0x07 => Ok(Self::Pong),
            _ => Err(CopiaError::ProtocolError(vfmt())),
        }
    }
}
pub struct FrameHeader { pub magic: [u8; 4], pub length: u32, pub msg_type: MessageType, pub version: u8, pub flags: u16 }
pub open spec fn hdr_valid(h: FrameHeader) -> bool { h.magic@ == PROTOCOL_MAGIC@ && h.version == 1 && h.length <= 16 * 1024 * 1024 }

impl FrameHeader {
    pub fn validate(&self) -> (r: Result<()>)
        ensures r is Ok <==> hdr_valid(*self)
    {
        proof { assert((self.magic == PROTOCOL_MAGIC) <==> (self.magic@ =~= PROTOCOL_MAGIC@)) by { if self.magic@ =~= PROTOCOL_MAGIC@ { assert(self.magic =~= PROTOCOL_MAGIC); } } }
        if self.magic != PROTOCOL_MAGIC {
            return Err(CopiaError::ProtocolError(vfmt()));
        }
        if self.version != PROTOCOL_VERSION {
            return Err(CopiaError::ProtocolError(vfmt()));
        }
        if self.length > MAX_PAYLOAD_SIZE {
            return Err(CopiaError::ProtocolError(vfmt()));
        }
        Ok(())
    }
    pub fn encode(&self) -> (r: [u8; 12])
        ensures
            r@.subrange(0, 4) == self.magic@, le4(r@.subrange(4, 8)) == self.length, r[8] == mt_code(self.msg_type),
            r[9] == self.version, le2(r@.subrange(10, 12)) == self.flags,
    {
        let len = u32_to_le_bytes(self.length);
        let flg = u16_to_le_bytes(self.flags);
        let buf = [
            self.magic[0],
            self.magic[1],
            self.magic[2],
            self.magic[3],
            len[0],
            len[1],
            len[2],
            len[3],
            self.msg_type as u8,
            self.version,
            flg[0],
            flg[1],
        ];
        proof { assert(buf@.subrange(0, 4) =~= self.magic@); assert(buf@.subrange(4, 8) =~= len@); assert(buf@.subrange(10, 12) =~= flg@); }
        buf
    }
    pub fn decode(buf: &[u8; 12]) -> (r: Result<Self>)
        ensures
            r is Ok <==> (buf@.subrange(0, 4) == PROTOCOL_MAGIC@ && buf[9] == 1 && 1 <= buf[8] <= 7 && le4(buf@.subrange(4, 8)) <= 16 * 1024 * 1024),
            r is Ok ==> ({ let h = r->Ok_0; hdr_valid(h) && h.length == le4(buf@.subrange(4, 8)) && mt_code(h.msg_type) == buf[8] && h.flags == le2(buf@.subrange(10, 12)) }),
    {
        let magic: [u8; 4] = [buf[0], buf[1], buf[2], buf[3]];
        let length = u32_from_le_bytes([buf[4], buf[5], buf[6], buf[7]]);
        let msg_type = MessageType::from_u8(buf[8])?;
        let version = buf[9];
        let flags = u16_from_le_bytes([buf[10], buf[11]]);
        proof {
            assert(magic@ =~= buf@.subrange(0, 4));
            assert([buf[4], buf[5], buf[6], buf[7]]@ =~= buf@.subrange(4, 8));
            assert([buf[10], buf[11]]@ =~= buf@.subrange(10, 12));
        }
        let header = Self { magic, length, msg_type, version, flags };
        header.validate()?;
        Ok(header)
    }
}
}
fn main() {}
