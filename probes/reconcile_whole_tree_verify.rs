#![feature(allocator_api)]
use vstd::prelude::*;
use vstd::std_specs::btree::*;
use std::collections::BTreeMap;
use std::path::{Path, PathBuf};
verus! {
global size_of usize == 8;
#[verifier::external_type_specification] #[verifier::external_body] pub struct ExPathBuf(PathBuf);
#[verifier::external_type_specification] #[verifier::external_body] pub struct ExPath(Path);
pub assume_specification [<PathBuf as Clone>::clone] (a: &PathBuf) -> (r: PathBuf) ensures r == *a;
pub broadcast axiom fn ax_pathbuf_keys()
    ensures #[trigger] borrowed_key_ordering_matches::<PathBuf, PathBuf>(), key_obeys_cmp_spec::<PathBuf>();
pub uninterp spec fn ord_le<T>(a: T, b: T) -> bool;
pub open spec fn sorted_strict<T>(v: Seq<T>) -> bool { forall|i: int, j: int| 0 <= i < j < v.len() ==> ord_le(v[i], v[j]) && v[i] != v[j] }
pub assume_specification<T: Ord> [<[T]>::sort_unstable] (v: &mut [T])
    ensures final(v)@.to_multiset() == old(v)@.to_multiset(), forall|i: int, j: int| 0 <= i <= j < final(v)@.len() ==> ord_le(final(v)@[i], final(v)@[j]);
pub assume_specification<T: PartialEq, A: core::alloc::Allocator> [Vec::<T, A>::dedup] (v: &mut Vec<T, A>)
    ensures final(v)@.to_set() == old(v)@.to_set();    // for a sorted input: also duplicate-free and still sorted (not needed below)
pub assume_specification<T: Copy> [Option::<&T>::copied] (o: Option<&T>) -> (r: Option<T>)
    ensures r == (match o { Some(x) => Some(*x), None => None });

#[derive(Clone, Copy, PartialEq, Eq)] pub enum FileType { File, Symlink }
#[derive(Clone, Copy, PartialEq, Eq)] pub struct Fingerprint { pub blake3: [u8; 32], pub ftype: FileType }
pub type FpMap = BTreeMap<PathBuf, Fingerprint>;
#[derive(Clone, Copy, PartialEq, Eq)] pub enum ConflictKind { BothChanged, DeleteVsModify }
#[derive(Clone, Copy, PartialEq, Eq)] pub enum Action { Noop, PropagateAtoB, PropagateBtoA, ConvergeIdentical, DeleteA, DeleteB, Conflict(ConflictKind) }
impl vstd::std_specs::cmp::PartialEqSpecImpl for Action {
    open spec fn obeys_eq_spec() -> bool { true }
    open spec fn eq_spec(&self, other: &Self) -> bool { *self == *other }
}
pub uninterp spec fn table(a: Option<Fingerprint>, b: Option<Fingerprint>, z: Option<Fingerprint>) -> Action;
#[verifier::external_body]
pub fn reconcile_path(a: Option<Fingerprint>, b: Option<Fingerprint>, base: Option<Fingerprint>) -> (r: Action)
    ensures r == table(a, b, base)     // proved by Kani on the real function
{ unimplemented!() }

// R5 shim for `a.keys().chain(b.keys()).collect()`
#[verifier::external_body]
pub fn keys_chain<'a>(a: &'a FpMap, b: &'a FpMap) -> (r: Vec<&'a PathBuf>)
    ensures forall|p: PathBuf| r@.contains(&p) <==> (a@.contains_key(p) || b@.contains_key(p))
{ unimplemented!() }

pub open spec fn getv(m: Map<PathBuf, Fingerprint>, p: PathBuf) -> Option<Fingerprint> { if m.contains_key(p) { Some(m[p]) } else { None } }

pub fn reconcile(a: &FpMap, b: &FpMap, base: &FpMap, trust_base: bool) -> (out: Vec<(PathBuf, Action)>)
    ensures
        forall|i: int| 0 <= i < out@.len() ==> ({
            let (p, act) = #[trigger] out@[i];
            &&& (a@.contains_key(p) || b@.contains_key(p))
            &&& act == table(getv(a@, p), getv(b@, p), if trust_base { getv(base@, p) } else { None })
            &&& act != Action::Noop
        }),
        forall|p: PathBuf| (a@.contains_key(p) || b@.contains_key(p))
            && table(getv(a@, p), getv(b@, p), if trust_base { getv(base@, p) } else { None }) != Action::Noop
            ==> exists|i: int| 0 <= i < out@.len() && (#[trigger] out@[i]).0 == p,
{
    broadcast use group_btree_axioms, ax_pathbuf_keys;
    let mut paths: Vec<&PathBuf> = keys_chain(a, b);
    let ghost p0 = paths@;
    paths.sort_unstable();
    let ghost p1 = paths@;
    paths.dedup();
    let ghost p2 = paths@;
    proof {
        // membership is preserved by sort (multiset) and dedup (set)
        assert forall|x: &PathBuf| p2.contains(x) <==> p0.contains(x) by {
            broadcast use vstd::seq_lib::group_to_multiset_ensures;
            assert(p1.to_multiset().count(x) == p0.to_multiset().count(x));
            assert(p2.to_set().contains(x) == p1.to_set().contains(x));
        }
    }
    let mut out: Vec<(PathBuf, Action)> = Vec::new();
    for p in it: paths
        invariant
            it.seq() == p2,
            forall|x: &PathBuf| p2.contains(x) <==> (a@.contains_key(*x) || b@.contains_key(*x)),
            forall|i: int| 0 <= i < out@.len() ==> ({
                let (q, act) = #[trigger] out@[i];
                &&& (a@.contains_key(q) || b@.contains_key(q))
                &&& act == table(getv(a@, q), getv(b@, q), if trust_base { getv(base@, q) } else { None })
                &&& act != Action::Noop
            }),
            forall|j: int| 0 <= j < it.index() ==> (table(getv(a@, *(#[trigger] it.seq()[j])), getv(b@, *it.seq()[j]), if trust_base { getv(base@, *it.seq()[j]) } else { None }) != Action::Noop
                ==> exists|i: int| 0 <= i < out@.len() && (#[trigger] out@[i]).0 == *it.seq()[j]),
    {
        broadcast use group_btree_axioms, ax_pathbuf_keys;
        let z = if trust_base {
            base.get(p).copied()
        } else {
            None
        };
        let act = reconcile_path(a.get(p).copied(), b.get(p).copied(), z);
        let ghost out0 = out@;
        proof {
            assert(p == it.seq()[it.index() as int]);
            assert(p2[it.index() as int] == p);
            assert(p2.contains(p));
            assert(a@.contains_key(*p) || b@.contains_key(*p));
            assert(act == table(getv(a@, *p), getv(b@, *p), if trust_base { getv(base@, *p) } else { None }));
        }
        if act != Action::Noop {
            out.push((p.clone(), act));
        }
        proof {
            assert(p2.contains(p));
            assert forall|j: int| 0 <= j < it.index() + 1 implies (table(getv(a@, *(#[trigger] it.seq()[j])), getv(b@, *it.seq()[j]), if trust_base { getv(base@, *it.seq()[j]) } else { None }) != Action::Noop
                ==> exists|i: int| 0 <= i < out@.len() && (#[trigger] out@[i]).0 == *it.seq()[j]) by {
                if j < it.index() {
                    if table(getv(a@, *it.seq()[j]), getv(b@, *it.seq()[j]), if trust_base { getv(base@, *it.seq()[j]) } else { None }) != Action::Noop {
                        let i = choose|i: int| 0 <= i < out0.len() && (#[trigger] out0[i]).0 == *it.seq()[j];
                        assert(out@[i] == out0[i]);
                    }
                } else if act != Action::Noop {
                    assert(out@[out@.len() - 1].0 == *p);
                }
            }
        }
    }
    proof {
        assert forall|q: PathBuf| (a@.contains_key(q) || b@.contains_key(q))
            && table(getv(a@, q), getv(b@, q), if trust_base { getv(base@, q) } else { None }) != Action::Noop
            implies exists|i: int| 0 <= i < out@.len() && (#[trigger] out@[i]).0 == q by {
            assert(p2.contains(&q));
            let j = choose|j: int| 0 <= j < p2.len() && p2[j] == &q;
            assert(*p2[j] == q);
        }
    }
    out
}
}
fn main() {}
