use vstd::prelude::*;
use std::io::Read;
verus! {

global size_of usize == 8;
// ---------- assumed environment ----------
#[verifier::external_type_specification]
#[verifier::external_body]
pub struct ExIoError(std::io::Error);

pub uninterp spec fn stream_of<R: ?Sized>(r: &R) -> Seq<u8>;
#[verifier::external_trait_specification]
pub trait ExRead {
    type ExternalTraitSpecificationFor: std::io::Read;
    fn read_to_end(&mut self, buf: &mut Vec<u8>) -> (res: std::result::Result<usize, std::io::Error>)
        ensures res is Ok ==> final(buf)@ == old(buf)@ + stream_of(&*old(self));
}

pub uninterp spec fn H(s: Seq<u8>) -> Seq<u8>;
pub open spec fn collision_free() -> bool { forall|a: Seq<u8>, b: Seq<u8>| #[trigger] H(a) == #[trigger] H(b) ==> a == b }
pub uninterp spec fn dig(w: Seq<u8>) -> u32;

#[derive(Clone, Copy, PartialEq, Eq)]
pub struct StrongHash([u8; 32]);
impl StrongHash {
    pub closed spec fn bytes(self) -> Seq<u8> { self.0@ }
    #[verifier::external_body]
    pub fn compute(data: &[u8]) -> (r: Self) ensures r.bytes() == H(data@) { unimplemented!() }
}

pub enum CopiaError { Io(std::io::Error) }
impl vstd::std_specs::convert::FromSpecImpl<std::io::Error> for CopiaError {
    open spec fn obeys_from_spec() -> bool { true }
    open spec fn from_spec(e: std::io::Error) -> Self { CopiaError::Io(e) }
}
impl From<std::io::Error> for CopiaError {
    #[verifier::external_body]
    fn from(e: std::io::Error) -> Self { CopiaError::Io(e) }
}
pub type Result<T> = std::result::Result<T, CopiaError>;

// checksum (proved separately; contracts only here)
pub struct FastRollingChecksum { a: u64, b: u64, count: usize, rolls: u32 }
impl FastRollingChecksum {
    pub uninterp spec fn wf(&self, w: Seq<u8>) -> bool;
    #[verifier::external_body]
    pub fn new(data: &[u8]) -> (r: Self) requires data@.len() <= 65536 ensures r.wf(data@) { unimplemented!() }
    #[verifier::external_body]
    pub fn roll(&mut self, old_byte: u8, new_byte: u8)
        requires exists|w: Seq<u8>| #[trigger] old(self).wf(w) && 0 < w.len() <= 65536 && w[0] == old_byte,
        ensures forall|w: Seq<u8>| #[trigger] old(self).wf(w) && 0 < w.len() <= 65536 && w[0] == old_byte ==> final(self).wf(w.skip(1).push(new_byte)),
    { unimplemented!() }
    #[verifier::external_body]
    pub fn digest(&self) -> (r: u32) ensures forall|w: Seq<u8>| #[trigger] self.wf(w) ==> r == dig(w) { unimplemented!() }
}

// ---------- signature ----------
pub struct BlockSignature { pub index: u32, pub weak_hash: u32, pub strong_hash: StrongHash }
pub struct Signature { pub block_size: usize, pub file_size: u64, pub blocks: Vec<BlockSignature> }

pub open spec fn nblocks(n: int, bs: int) -> int { if bs <= 0 { 0 } else { (n + bs - 1) / bs } }
pub open spec fn block(basis: Seq<u8>, bs: int, j: int) -> Seq<u8> {
    basis.subrange(j * bs, if (j + 1) * bs <= basis.len() { (j + 1) * bs } else { basis.len() as int })
}
pub open spec fn sig_of(sig: Signature, basis: Seq<u8>) -> bool {
    let bs = sig.block_size as int;
    &&& bs > 0
    &&& sig.file_size == basis.len()
    &&& sig.blocks@.len() == nblocks(basis.len() as int, bs)
    &&& forall|j: int| 0 <= j < sig.blocks@.len() ==> {
            &&& (#[trigger] sig.blocks@[j]).index == j
            &&& sig.blocks@[j].weak_hash == dig(block(basis, bs, j))
            &&& sig.blocks@[j].strong_hash.bytes() == H(block(basis, bs, j))
            &&& 0 <= j * bs < basis.len()
        }
}

pub struct SignatureTable { signature: Signature }
impl SignatureTable {
    pub closed spec fn sig(&self) -> Signature { self.signature }
    #[verifier::external_body]
    pub fn from_signature(signature: Signature) -> (r: Self) ensures r.sig() == signature { unimplemented!() }
    #[verifier::external_body]
    pub fn is_empty(&self) -> (r: bool) ensures r == (self.sig().blocks@.len() == 0) { unimplemented!() }
    #[verifier::external_body]
    pub fn has_weak_match(&self, weak: u32) -> (r: bool)
        ensures r == (exists|j: int| 0 <= j < self.sig().blocks@.len() && (#[trigger] self.sig().blocks@[j]).weak_hash == weak)
    { unimplemented!() }
    #[verifier::external_body]
    pub fn find_match(&self, weak: u32, data: &[u8]) -> (r: Option<&BlockSignature>)
        ensures
            r is Some ==> exists|j: int| 0 <= j < self.sig().blocks@.len() && *r->Some_0 == (#[trigger] self.sig().blocks@[j])
                && self.sig().blocks@[j].weak_hash == weak && self.sig().blocks@[j].strong_hash.bytes() == H(data@),
            r is None ==> forall|j: int| 0 <= j < self.sig().blocks@.len() ==>
                !((#[trigger] self.sig().blocks@[j]).weak_hash == weak && self.sig().blocks@[j].strong_hash.bytes() == H(data@)),
    { unimplemented!() }
}
#[verifier::external_body]
pub fn clone_sig(s: &Signature) -> (r: Signature) ensures r == *s { unimplemented!() }

// ---------- delta ----------
pub enum DeltaOp { Copy { offset: u64, len: u32 }, Literal(Vec<u8>) }
pub struct Delta { pub block_size: u32, pub source_size: u64, pub basis_size: u64, pub ops: Vec<DeltaOp>, pub checksum: StrongHash }

pub open spec fn op_out(op: DeltaOp, basis: Seq<u8>) -> Seq<u8> {
    match op { DeltaOp::Copy { offset, len } => basis.subrange(offset as int, offset + len), DeltaOp::Literal(d) => d@ }
}
pub open spec fn op_ok(op: DeltaOp, n: int) -> bool {
    match op { DeltaOp::Copy { offset, len } => len > 0 && offset + len <= n, DeltaOp::Literal(d) => true }
}
pub open spec fn out(ops: Seq<DeltaOp>, basis: Seq<u8>) -> Seq<u8> decreases ops.len() {
    if ops.len() == 0 { Seq::empty() } else { out(ops.drop_last(), basis) + op_out(ops.last(), basis) }
}
pub open spec fn lit(ops: Seq<DeltaOp>) -> nat decreases ops.len() {
    if ops.len() == 0 { 0 } else { lit(ops.drop_last()) + (match ops.last() { DeltaOp::Literal(d) => d@.len(), _ => 0nat }) }
}
pub open spec fn ops_ok(ops: Seq<DeltaOp>, n: int) -> bool { forall|k: int| 0 <= k < ops.len() ==> op_ok(#[trigger] ops[k], n) }

impl Delta {
    #[verifier::external_body]
    pub fn with_checksum(block_size: u32, source_size: u64, basis_size: u64, checksum: StrongHash) -> (r: Self)
        ensures r.block_size == block_size, r.source_size == source_size, r.basis_size == basis_size, r.checksum == checksum, r.ops@.len() == 0
    { unimplemented!() }
    #[verifier::external_body]
    pub fn push_copy(&mut self, offset: u64, len: u32)
        requires len > 0, offset < 0x1_0000_0000_0000_0000 - 0x1_0000_0000,
        ensures
            final(self).block_size == old(self).block_size, final(self).source_size == old(self).source_size,
            final(self).basis_size == old(self).basis_size, final(self).checksum == old(self).checksum,
            (ops_ok(old(self).ops@, old(self).basis_size as int) && offset + len <= old(self).basis_size) ==> ops_ok(final(self).ops@, final(self).basis_size as int),
            lit(final(self).ops@) == lit(old(self).ops@),
            forall|basis: Seq<u8>| (basis.len() == old(self).basis_size && ops_ok(old(self).ops@, basis.len() as int) && offset + len <= basis.len()) ==>
                #[trigger] out(final(self).ops@, basis) == out(old(self).ops@, basis) + basis.subrange(offset as int, offset + len),
    { unimplemented!() }
    #[verifier::external_body]
    pub fn push_literal(&mut self, data: &[u8])
        ensures
            final(self).block_size == old(self).block_size, final(self).source_size == old(self).source_size,
            final(self).basis_size == old(self).basis_size, final(self).checksum == old(self).checksum,
            ops_ok(old(self).ops@, old(self).basis_size as int) ==> ops_ok(final(self).ops@, final(self).basis_size as int),
            lit(final(self).ops@) == lit(old(self).ops@) + data@.len(),
            forall|basis: Seq<u8>| #[trigger] out(final(self).ops@, basis) == out(old(self).ops@, basis) + data@,
    { unimplemented!() }
    #[verifier::external_body]
    pub fn push_literal_byte(&mut self, byte: u8)
        ensures
            final(self).block_size == old(self).block_size, final(self).source_size == old(self).source_size,
            final(self).basis_size == old(self).basis_size, final(self).checksum == old(self).checksum,
            ops_ok(old(self).ops@, old(self).basis_size as int) ==> ops_ok(final(self).ops@, final(self).basis_size as int),
            lit(final(self).ops@) == lit(old(self).ops@) + 1,
            forall|basis: Seq<u8>| #[trigger] out(final(self).ops@, basis) == out(old(self).ops@, basis).push(byte),
    { unimplemented!() }
}

// Rust guarantee: allocations never exceed isize::MAX bytes (trusted)
#[verifier::external_body]
pub proof fn axiom_vec_len(v: &Vec<u8>) ensures v@.len() <= 0x7fff_ffff_ffff_ffff { }
// ---------- textbook greedy ----------
pub open spec fn matchp(s: Seq<u8>, basis: Seq<u8>, bs: int, pos: int) -> bool {
    exists|j: int| 0 <= j && (j + 1) * bs <= basis.len() && #[trigger] basis.subrange(j * bs, (j + 1) * bs) == s.subrange(pos, pos + bs)
}
pub open spec fn g_lit(s: Seq<u8>, basis: Seq<u8>, bs: int, pos: int) -> nat
    decreases s.len() - pos
{
    if bs <= 0 || pos < 0 || pos + bs > s.len() { if 0 <= pos <= s.len() { (s.len() - pos) as nat } else { 0 } }
    else if matchp(s, basis, bs, pos) { g_lit(s, basis, bs, pos + bs) }
    else { 1 + g_lit(s, basis, bs, pos + 1) }
}

pub proof fn lemma_g_lit_nomatch(s: Seq<u8>, basis: Seq<u8>, bs: int, pos: int)
    requires bs > 0, basis.len() == 0, 0 <= pos <= s.len()
    ensures g_lit(s, basis, bs, pos) == s.len() - pos
    decreases s.len() - pos
{
    if pos + bs <= s.len() {
        assert(!matchp(s, basis, bs, pos)) by {
            assert forall|j: int| 0 <= j && (j + 1) * bs <= basis.len() implies !(#[trigger] basis.subrange(j * bs, (j + 1) * bs) == s.subrange(pos, pos + bs)) by {
                assert((j + 1) * bs >= bs) by(nonlinear_arith) requires j >= 0, bs > 0;
            }
        }
        lemma_g_lit_nomatch(s, basis, bs, pos + 1);
    }
}
pub struct SyncConfig { pub block_size: usize }
pub struct CopiaSync { config: SyncConfig }

// code's match decision == textbook predicate
pub proof fn lemma_match_iff(sig: Signature, basis: Seq<u8>, s: Seq<u8>, pos: int, weak: u32)
    requires sig_of(sig, basis), 0 <= pos, pos + sig.block_size <= s.len(), weak == dig(s.subrange(pos, pos + sig.block_size)), collision_free(),
    ensures
        matchp(s, basis, sig.block_size as int, pos) ==>
            exists|j: int| 0 <= j < sig.blocks@.len() && (#[trigger] sig.blocks@[j]).weak_hash == weak
                && sig.blocks@[j].strong_hash.bytes() == H(s.subrange(pos, pos + sig.block_size)),
        forall|j: int| 0 <= j < sig.blocks@.len() && (#[trigger] sig.blocks@[j]).strong_hash.bytes() == H(s.subrange(pos, pos + sig.block_size))
            ==> (j + 1) * sig.block_size <= basis.len() && basis.subrange(j * sig.block_size, (j + 1) * sig.block_size) == s.subrange(pos, pos + sig.block_size),
{
    let bs = sig.block_size as int;
    let win = s.subrange(pos, pos + bs);
    if matchp(s, basis, bs, pos) {
        let j = choose|j: int| 0 <= j && (j + 1) * bs <= basis.len() && #[trigger] basis.subrange(j * bs, (j + 1) * bs) == win;
        assert(j < nblocks(basis.len() as int, bs)) by(nonlinear_arith)
            requires 0 <= j, (j + 1) * bs <= basis.len(), bs > 0, nblocks(basis.len() as int, bs) == (basis.len() + bs - 1) / bs;
        assert(block(basis, bs, j) == win);
        assert(sig.blocks@[j].weak_hash == weak);
    }
    assert forall|j: int| 0 <= j < sig.blocks@.len() && (#[trigger] sig.blocks@[j]).strong_hash.bytes() == H(win)
        implies (j + 1) * bs <= basis.len() && basis.subrange(j * bs, (j + 1) * bs) == win by {
        assert(H(block(basis, bs, j)) == H(win));
        assert(block(basis, bs, j) == win);
        assert(win.len() == bs);
        assert((j + 1) * bs == j * bs + bs) by(nonlinear_arith);
        if (j + 1) * bs > basis.len() {
            assert(block(basis, bs, j).len() == basis.len() - j * bs);
            assert(false);
        }
    }
}

impl CopiaSync {
    fn delta<R: Read>(&self, mut source: R, signature: &Signature, Ghost(basis): Ghost<Seq<u8>>) -> (res: Result<Delta>)
        requires sig_of(*signature, basis), signature.block_size <= 65536, basis.len() < 0x1_0000_0000_0000,
        ensures res is Ok ==> ({
            let d = res->Ok_0; let s = stream_of(&source);
            &&& d.source_size == s.len()
            &&& d.checksum.bytes() == H(s)
            &&& d.basis_size == basis.len()
            &&& collision_free() ==> ops_ok(d.ops@, basis.len() as int)
            &&& collision_free() ==> out(d.ops@, basis) == s
            &&& collision_free() ==> lit(d.ops@) == g_lit(s, basis, signature.block_size as int, 0)
        })
    {
        let ghost s = stream_of(&source);
        let ghost bsi = signature.block_size as int;
        let table = SignatureTable::from_signature(clone_sig(signature));
        let block_size = signature.block_size;

        // Read entire source into memory
        let mut source_data = Vec::new();
        source.read_to_end(&mut source_data)?;

        let source_size = source_data.len() as u64;
        let source_hash = StrongHash::compute(&source_data);

        let mut delta = Delta::with_checksum(
            block_size as u32,
            source_size,
            signature.file_size,
            source_hash,
        );

        proof { assert(source_data@ == s); assert(out(delta.ops@, basis) =~= s.subrange(0, 0)); }
        if source_data.is_empty() {
            return Ok(delta);
        }

        // Empty signature means all data is literal
        if table.is_empty() {
            proof {
                assert(nblocks(basis.len() as int, bsi) == 0);
                assert(basis.len() == 0) by(nonlinear_arith) requires (basis.len() + bsi - 1) / bsi == 0, bsi > 0, basis.len() >= 0;
                lemma_g_lit_nomatch(s, basis, bsi, 0);
            }
            delta.push_literal(&source_data);
            proof { assert(s.subrange(0, 0) + s =~= s); }
            return Ok(delta);
        }

        let mut pos = 0usize;
        proof { axiom_vec_len(&source_data); }

        // Initialize rolling checksum with first block
        let init_len = block_size.min(source_data.len());
        let mut rolling = FastRollingChecksum::new(&source_data[..init_len]);

        proof { assert(s.subrange(0, init_len as int) =~= s.subrange(0, 0 + bsi) || init_len < bsi); }
        while pos + block_size <= source_data.len()
            invariant
                source_data@ == s, block_size == signature.block_size, bsi == block_size, 0 < bsi <= 65536,
                sig_of(*signature, basis), table.sig() == *signature, signature.blocks@.len() > 0,
                pos <= source_data.len(), basis.len() < 0x1_0000_0000_0000, s.len() <= 0x7fff_ffff_ffff_ffff,
                delta.basis_size == basis.len(), delta.source_size == s.len(), delta.checksum.bytes() == H(s),
                pos + bsi <= s.len() ==> rolling.wf(s.subrange(pos as int, pos + bsi)),
                collision_free() ==> ops_ok(delta.ops@, basis.len() as int),
                collision_free() ==> out(delta.ops@, basis) == s.subrange(0, pos as int),
                collision_free() ==> lit(delta.ops@) + g_lit(s, basis, bsi, pos as int) == g_lit(s, basis, bsi, 0),
            decreases source_data.len() - pos
        {
            let ghost win = s.subrange(pos as int, pos + bsi);
            proof {
                if collision_free() { lemma_match_iff(*signature, basis, s, pos as int, dig(win)); }
                // branch-independent sequence facts
                assert(s.subrange(0, pos as int) + win =~= s.subrange(0, pos + bsi));
                assert(s.subrange(0, pos as int).push(s[pos as int]) =~= s.subrange(0, pos + 1));
                assert(win[0] == s[pos as int]);
                if pos + bsi < s.len() { assert(win.skip(1).push(s[pos + bsi]) =~= s.subrange(pos + 1, pos + 1 + bsi)); }
                assert forall|j: int| 0 <= j < signature.blocks@.len() implies (#[trigger] signature.blocks@[j]).index == j && j * bsi < 0x1_0000_0000_0000 && (j + 1) * bsi == j * bsi + bsi by {
                    assert((j + 1) * bsi == j * bsi + bsi) by(nonlinear_arith);
                }
            }
            let weak = rolling.digest();

            // Fast path: check weak hash first before computing strong hash
            if table.has_weak_match(weak) {
                let block_data = &source_data[pos..pos + block_size];
                if let Some(sig) = table.find_match(weak, block_data) {
                    // Found a match - emit copy operation
                    {
                        let offset = u64::from(sig.index) * block_size as u64;
                        delta.push_copy(offset, block_size as u32);
                    }
                    pos += block_size;

                    if pos + block_size <= source_data.len() {
                        rolling = FastRollingChecksum::new(&source_data[pos..pos + block_size]);
                    }
                    continue;
                }
            }

            // No match - emit literal byte and roll window
            delta.push_literal_byte(source_data[pos]);

            if pos + block_size < source_data.len() {
                rolling.roll(source_data[pos], source_data[pos + block_size]);
            }
            pos += 1;
        }

        // Handle remaining bytes as literals
        proof { assert(s.subrange(0, pos as int) + s.subrange(pos as int, s.len() as int) =~= s); }
        if pos < source_data.len() {
            delta.push_literal(&source_data[pos..]);
        }

        Ok(delta)
    }
}
}
fn main() {}
