use vstd::prelude::*;
use std::collections::BTreeMap;
use std::path::{Path, PathBuf};
use std::ffi::{OsStr, OsString};
verus! {
global size_of usize == 8;

#[verifier::external_type_specification] #[verifier::external_body] pub struct ExIoError(std::io::Error);
#[verifier::external_type_specification] #[verifier::external_body] pub struct ExPathBuf(PathBuf);
#[verifier::external_type_specification] #[verifier::external_body] pub struct ExPath(Path);
#[verifier::external_type_specification] #[verifier::external_body] pub struct ExOsString(OsString);
#[verifier::external_type_specification] #[verifier::external_body] pub struct ExOsStr(OsStr);

pub type PathV = Seq<u8>;
pub uninterp spec fn pv(p: &Path) -> PathV;
pub uninterp spec fn pbv(p: &PathBuf) -> PathV;
pub uninterp spec fn osv(p: &OsStr) -> PathV;
pub uninterp spec fn osbv(p: &OsString) -> PathV;
pub uninterp spec fn joinv(a: PathV, b: PathV) -> PathV;
pub uninterp spec fn strv(s: &str) -> PathV;

pub struct FileS { pub bytes: Seq<u8>, pub synced: bool }
pub struct World { pub files: Map<PathV, FileS>, pub log: Seq<int> }

pub open spec fn is_staging(p: PathV) -> bool { exists|q: PathV| p == q + strv(".copia-tmp") }

// ---- assumed std path algebra ----
pub uninterp spec fn asref_path<P>(p: P) -> PathV;
pub uninterp spec fn asref_os<P>(p: P) -> PathV;
pub assume_specification<P: AsRef<Path>> [Path::join] (a: &Path, b: P) -> (r: PathBuf) ensures pbv(&r) == joinv(pv(a), asref_path(b));
pub assume_specification [Path::to_path_buf] (a: &Path) -> (r: PathBuf) ensures pbv(&r) == pv(a);
pub assume_specification [Path::as_os_str] (a: &Path) -> (r: &OsStr) ensures osv(r) == pv(a);
pub assume_specification [OsStr::to_owned] (a: &OsStr) -> (r: OsString) ensures osbv(&r) == osv(a);
pub assume_specification<T: AsRef<OsStr>> [OsString::push] (a: &mut OsString, s: T) ensures osbv(final(a)) == osbv(old(a)) + asref_os(s);
// ---- shims for std (assumed) ----
#[verifier::external_body]
pub fn path_join(a: &Path, b: &Path) -> (r: PathBuf) ensures pbv(&r) == joinv(pv(a), pv(b)) { a.join(b) }
#[verifier::external_body]
pub fn pb_as_path(a: &PathBuf) -> (r: &Path) ensures pv(r) == pbv(a) { a.as_path() }

#[derive(Clone, Copy, PartialEq, Eq)]
pub enum FileType { File, Symlink }
#[derive(Clone, Copy, PartialEq, Eq)]
pub struct Fingerprint { pub blake3: [u8; 32], pub ftype: FileType }
pub type FpMap = BTreeMap<PathBuf, Fingerprint>;

#[derive(Clone, Copy, PartialEq, Eq)]
pub enum ConflictKind { BothChanged, DeleteVsModify }
#[derive(Clone, Copy, PartialEq, Eq)]
pub enum Action { Noop, PropagateAtoB, PropagateBtoA, ConvergeIdentical, DeleteA, DeleteB, Conflict(ConflictKind) }

#[verifier::external_body]
fn copy_atomic(src: &Path, dst: &Path, Tracked(w): Tracked<&mut World>) -> (r: std::io::Result<()>)
    ensures r is Ok ==> final(w).files == old(w).files.insert(pv(dst), FileS { bytes: old(w).files[pv(src)].bytes, synced: false }),
{ unimplemented!() }
#[verifier::external_body]
fn vfs_remove_file(p: &PathBuf, Tracked(w): Tracked<&mut World>) -> (r: std::io::Result<()>)
{ unimplemented!() }
#[verifier::external_body]
fn short_hex(h: &[u8; 32]) -> String { unimplemented!() }
#[verifier::external_body]
fn vfmt() -> String { unimplemented!() }

fn apply(
    root_a: &Path,
    root_b: &Path,
    rel: &Path,
    act: Action,
    a: &FpMap,
    b: &FpMap,
    host: &str,
    common: &mut FpMap,
    conflicts: &mut Vec<PathBuf>,
    Tracked(w): Tracked<&mut World>,
) -> std::io::Result<()> {
    let pa = root_a.join(rel);
    let pb = root_b.join(rel);
    match act {
        Action::Noop => {}
        Action::ConvergeIdentical => {
            if let Some(fp) = a.get(rel) {
                common.insert(rel.to_path_buf(), *fp);
            }
        }
        Action::PropagateAtoB => {
            copy_atomic(&pa, &pb, Tracked(w))?;
            if let Some(fp) = a.get(rel) {
                common.insert(rel.to_path_buf(), *fp);
            }
        }
        Action::PropagateBtoA => {
            copy_atomic(&pb, &pa, Tracked(w))?;
            if let Some(fp) = b.get(rel) {
                common.insert(rel.to_path_buf(), *fp);
            }
        }
        Action::DeleteA => {
            let _ = vfs_remove_file(&pa, Tracked(w));
            common.remove(rel);
        }
        Action::DeleteB => {
            let _ = vfs_remove_file(&pb, Tracked(w));
            common.remove(rel);
        }
        Action::Conflict(ConflictKind::DeleteVsModify) => {
            if a.contains_key(rel) {
                copy_atomic(&pa, &pb, Tracked(w))?;
                if let Some(fp) = a.get(rel) {
                    common.insert(rel.to_path_buf(), *fp);
                }
            } else if b.contains_key(rel) {
                copy_atomic(&pb, &pa, Tracked(w))?;
                if let Some(fp) = b.get(rel) {
                    common.insert(rel.to_path_buf(), *fp);
                }
            }
        }
        Action::Conflict(ConflictKind::BothChanged) => {
            let (Some(fa), Some(fb)) = (a.get(rel), b.get(rel)) else {
                return Ok(());
            };
            let (win_root, win_fp, lose_root, lose_fp) = if fa.blake3 >= fb.blake3 {
                (root_a, fa, root_b, fb)
            } else {
                (root_b, fb, root_a, fa)
            };
            let loser_name = {
                let mut n = rel.as_os_str().to_owned();
                n.push(vfmt());
                PathBuf::from(n)
            };
            let win_full = win_root.join(rel); // winner content
            let lose_full = lose_root.join(rel); // loser content (about to be overwritten)
            copy_atomic(&lose_full, &lose_root.join(&loser_name), Tracked(w))?;
            copy_atomic(&lose_full, &win_root.join(&loser_name), Tracked(w))?;
            copy_atomic(&win_full, &lose_full, Tracked(w))?;
            common.insert(rel.to_path_buf(), *win_fp);
            common.insert(loser_name, *lose_fp);
            conflicts.push(rel.to_path_buf());
        }
    }
    Ok(())
}
}
fn main() {}
