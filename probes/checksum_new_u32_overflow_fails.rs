use vstd::prelude::*;
verus! {

pub open spec fn sa(s: Seq<u8>) -> nat decreases s.len() {
    if s.len() == 0 { 0 } else { sa(s.drop_last()) + s.last() as nat }
}
pub open spec fn sb(s: Seq<u8>) -> nat decreases s.len() {
    if s.len() == 0 { 0 } else { sb(s.drop_last()) + sa(s) }
}
// partial weighted sum as accumulated by `new`: sum_{j<i} (L-j)*s[j]
pub open spec fn sbw(s: Seq<u8>, l: nat, i: nat) -> nat decreases i {
    if i == 0 || i > s.len() { 0 } else { sbw(s, l, (i-1) as nat) + ((l - (i-1)) as nat) * (s[i-1] as nat) }
}

pub proof fn lemma_sa_bound(s: Seq<u8>)
    ensures sa(s) <= 255 * s.len()
    decreases s.len()
{ if s.len() > 0 { lemma_sa_bound(s.drop_last()); } }

pub proof fn lemma_sbw(s: Seq<u8>, l: nat, i: nat)
    requires i <= s.len(), i <= l
    ensures sbw(s, l, i) == sb(s.take(i as int)) + (l - i) * sa(s.take(i as int))
    decreases i
{
    if i == 0 {
        assert(s.take(0).len() == 0);
    } else {
        lemma_sbw(s, l, (i-1) as nat);
        let t = s.take(i as int);
        assert(t.drop_last() =~= s.take(i-1));
        assert(t.last() == s[i-1]);
        let p = s.take(i-1);
        let x = s[i-1] as nat;
        assert(sa(t) == sa(p) + x);
        assert(sb(t) == sb(p) + sa(t));
        assert(sbw(s,l,i) == sb(p) + (l-(i-1))*sa(p) + ((l-(i-1)) as nat)*x);
        assert(sb(p) + (l-(i-1))*sa(p) + ((l-(i-1)) as nat)*x == sb(p) + sa(p) + x + (l-i)*(sa(p)+x)) by(nonlinear_arith)
            requires i >= 1, i <= l;
    }
}

pub struct RollingChecksum { a: u32, b: u32, count: usize }

pub open spec fn MODS() -> nat { 65521 }

impl RollingChecksum {
    const MOD: u32 = 65521;

    pub closed spec fn wf(&self, w: Seq<u8>) -> bool {
        &&& self.a as nat == sa(w) % 65521
        &&& self.b as nat == sb(w) % 65521
        &&& self.count == w.len()
    }

    pub fn new(data: &[u8]) -> (r: Self)
        requires data@.len() <= 65536,
        ensures r.wf(data@),
    {
        let mut a: u32 = 0;
        let mut b: u32 = 0;
        let len = data.len();

        let mut i: usize = 0;
        while i < data.len()
            invariant
                i <= data@.len(), len == data@.len(), len <= 65536,
                a as nat == sa(data@.take(i as int)),
                b as nat == sbw(data@, len as nat, i as nat) % 0x1_0000_0000,
            decreases data@.len() - i
        {
            let byte = data[i];
            proof {
                lemma_sa_bound(data@.take(i as int));
                assert(data@.take(i+1).drop_last() =~= data@.take(i as int));
            }
            a = a.wrapping_add(u32::from(byte));
            b = b.wrapping_add((len - i) as u32 * u32::from(byte));
            i += 1;
        }
        let result = Self { a: a % Self::MOD, b: b % Self::MOD, count: len };
        proof {
            assert(data@.take(len as int) =~= data@);
            lemma_sbw(data@, len as nat, len as nat);
        }
        result
    }
}
}
fn main() {}
