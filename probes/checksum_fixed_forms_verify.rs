use vstd::prelude::*;
use vstd::arithmetic::div_mod::*;
verus! {

pub open spec fn sa(s: Seq<u8>) -> nat decreases s.len() {
    if s.len() == 0 { 0 } else { sa(s.drop_last()) + s.last() as nat }
}
pub open spec fn sb(s: Seq<u8>) -> nat decreases s.len() {
    if s.len() == 0 { 0 } else { sb(s.drop_last()) + sa(s) }
}
pub open spec fn sbw(s: Seq<u8>, l: nat, i: nat) -> nat decreases i {
    if i == 0 || i > s.len() { 0 } else { sbw(s, l, (i - 1) as nat) + ((l - (i - 1)) as nat) * (s[i - 1] as nat) }
}
pub proof fn lemma_push(w: Seq<u8>, x: u8)
    ensures sa(w.push(x)) == sa(w) + x as nat, sb(w.push(x)) == sb(w) + sa(w) + x as nat
{ assert(w.push(x).drop_last() =~= w); }

pub proof fn lemma_front(w: Seq<u8>)
    requires w.len() > 0
    ensures sa(w) == w[0] as nat + sa(w.skip(1)), sb(w) == w.len() * (w[0] as nat) + sb(w.skip(1))
    decreases w.len()
{
    let d = w.drop_last();
    let x = w[0] as nat;
    if d.len() == 0 {
        assert(w.skip(1).len() == 0);
        assert(sa(d) == 0 && sb(d) == 0);
        assert(sa(w) == x);
        assert(sb(w) == x);
        assert(w.len() * x == x) by(nonlinear_arith) requires w.len() == 1;
    } else {
        lemma_front(d);
        let t = w.skip(1); let dt = d.skip(1); let last = w.last();
        assert(t =~= dt.push(last));
        lemma_push(dt, last);
        assert(d[0] == w[0]);
        assert(sa(w) == sa(d) + last as nat);
        assert(sb(w) == sb(d) + sa(w));
        let dl = d.len(); let wl = w.len();
        assert(sb(d) == dl * x + sb(dt));
        assert(sa(d) == x + sa(dt));
        assert(sa(t) == sa(dt) + last as nat);
        assert(sb(t) == sb(dt) + sa(dt) + last as nat);
        assert(dl * x + x == wl * x) by(nonlinear_arith) requires dl + 1 == wl;
    }
}
pub proof fn lemma_sbw(s: Seq<u8>, l: nat, i: nat)
    requires i <= s.len(), i <= l
    ensures sbw(s, l, i) == sb(s.take(i as int)) + (l - i) * sa(s.take(i as int))
    decreases i
{
    if i == 0 {
        assert(s.take(0).len() == 0);
        assert(sa(s.take(0)) == 0);
        assert((l - 0) * 0 == 0) by(nonlinear_arith);
    } else {
        lemma_sbw(s, l, (i - 1) as nat);
        let t = s.take(i as int); let p = s.take(i - 1);
        assert(t.drop_last() =~= p);
        assert(t.last() == s[i - 1]);
        let x = s[i - 1] as nat;
        let A = sa(p); let B = sb(p); let d = (l - i) as nat;
        assert(sa(t) == A + x);
        assert(sb(t) == B + A + x);
        let e = (l - (i - 1)) as nat;
        assert(e == d + 1);
        assert(sbw(s, l, (i - 1) as nat) == B + (l - (i - 1)) * A);
        assert((l - (i - 1)) * A == e * A);
        assert(sbw(s, l, i) == sbw(s, l, (i - 1) as nat) + e * x);
        assert(B + e * A + e * x == B + A + x + d * (A + x)) by(nonlinear_arith) requires e == d + 1;
        assert((l - i) * sa(t) == d * (A + x));
    }
}

pub proof fn lemma_mod_shift(x: int, k: int, m: int)
    requires m > 0
    ensures ((x % m) + k) % m == (x + k) % m
{
    lemma_add_mod_noop(x, k, m);
    lemma_add_mod_noop(x % m, k, m);
    lemma_mod_twice(x, m);
}
pub proof fn lemma_roll_mod(A: int, B: int, o: int, n: int, c: int, cnt: int)
    requires 0 <= o <= 255, 0 <= n <= 255, A >= 0, B >= 0, c >= 0, cnt == c % 65521,
    ensures ({
        let m = 65521int;
        let a1 = ((A % m) + m - o + n) % m;
        let b1 = ((B % m) + m - (cnt * o) % m + a1) % m;
        &&& a1 == (A - o + n) % m
        &&& b1 == (B - c * o + (A - o + n)) % m
    })
{
    let m = 65521int;
    let a1 = ((A % m) + m - o + n) % m;
    // a
    lemma_mod_shift(A, m - o + n, m);
    assert(a1 == (A + (m - o + n)) % m);
    lemma_mod_add_multiples_vanish(A - o + n, m);
    assert(A + (m - o + n) == m + (A - o + n));
    assert(a1 == (A - o + n) % m);
    // b
    let S = A - o + n;
    let co = c * o;
    lemma_mul_mod_noop_left(c, o, m);
    let x = (cnt * o) % m;
    assert(x == co % m);
    let b1 = ((B % m) + m - x + a1) % m;
    lemma_mod_shift(B, m - x + a1, m);
    assert(b1 == (B + m - x + a1) % m);
    // replace a1 by S
    lemma_add_mod_noop(B + m - x, S, m);
    lemma_add_mod_noop(B + m - x, a1, m);
    lemma_mod_twice(S, m);
    assert(b1 == (B + m - x + S) % m);
    lemma_mod_add_multiples_vanish(B - x + S, m);
    assert(B + m - x + S == m + (B - x + S));
    assert(b1 == (B - x + S) % m);
    // replace x = co % m by co
    lemma_sub_mod_noop(B + S, co, m);
    lemma_sub_mod_noop(B + S, x, m);
    lemma_mod_twice(co, m);
    assert((B + S - x) % m == (B + S - co) % m);
}

pub open spec fn dig(w: Seq<u8>) -> u32 { (((sb(w) % 65521) as u32) << 16) | ((sa(w) % 65521) as u32) }

pub proof fn lemma_sa_bound(s: Seq<u8>) ensures sa(s) <= 255 * s.len() decreases s.len()
{ if s.len() > 0 { lemma_sa_bound(s.drop_last()); } }

pub proof fn lemma_roll(w: Seq<u8>, y: u8)
    requires w.len() > 0
    ensures ({ let v = w.skip(1).push(y);
        &&& v.len() == w.len()
        &&& sa(v) + w[0] as nat == sa(w) + y as nat
        &&& sb(v) + w.len() * (w[0] as nat) == sb(w) + sa(v) })
{
    lemma_front(w); lemma_push(w.skip(1), y);
}

pub struct RollingChecksum { a: u32, b: u32, count: usize }

impl RollingChecksum {
    const MOD: u32 = 65521;
    pub closed spec fn wf(&self, w: Seq<u8>) -> bool {
        &&& self.a as nat == sa(w) % 65521
        &&& self.b as nat == sb(w) % 65521
        &&& self.count == w.len()
    }
    pub fn new(data: &[u8]) -> (r: Self)
        requires data@.len() <= 65536,
        ensures r.wf(data@),
    {
        let mut a: u64 = 0;
        let mut b: u64 = 0;
        let len = data.len();
        let mut k: usize = 0;
        while k < data.len()
            invariant k <= data@.len(), len == data@.len(), len <= 65536,
                a as nat == sa(data@.take(k as int)),
                b as nat == sbw(data@, len as nat, k as nat),
                b <= 255 * 65536 * k,
            decreases data@.len() - k
        {
            let i = k; let byte = data[k];
            proof {
                lemma_sa_bound(data@.take(k as int));
                assert(data@.take(k + 1).drop_last() =~= data@.take(k as int));
                assert(((len - i) as int) * (byte as int) <= 65536 * 255) by(nonlinear_arith)
                    requires len - i <= 65536, byte <= 255, len - i >= 0;
                assert(255 * 65536 * k + 65536 * 255 == 255 * 65536 * (k + 1)) by(nonlinear_arith);
                assert(255 * 65536 * (k + 1) <= 255 * 65536 * 65536) by(nonlinear_arith) requires k + 1 <= 65536;
            }
            a += u64::from(byte);
            b += (len - i) as u64 * u64::from(byte);
            k += 1;
        }
        proof {
            assert(data@.take(len as int) =~= data@);
            lemma_sbw(data@, len as nat, len as nat);
        }
        Self { a: (a % Self::MOD as u64) as u32, b: (b % Self::MOD as u64) as u32, count: len }
    }

    pub fn roll(&mut self, old_byte: u8, new_byte: u8)
        requires exists|w: Seq<u8>| #[trigger] old(self).wf(w) && 0 < w.len() && w[0] == old_byte,
        ensures forall|w: Seq<u8>| #[trigger] old(self).wf(w) && 0 < w.len() && w[0] == old_byte ==> final(self).wf(w.skip(1).push(new_byte)),
    {
        let ghost s0 = *self;
        let old = u32::from(old_byte);
        let new = u32::from(new_byte);
        self.a = (self.a + Self::MOD - old + new) % Self::MOD;
        let cnt = (self.count % Self::MOD as usize) as u32;
        assert(cnt * old <= 65520 * 255) by(nonlinear_arith) requires cnt <= 65520, old <= 255;
        self.b = (self.b + Self::MOD - (cnt * old) % Self::MOD + self.a) % Self::MOD;
        proof {
            assert forall|w: Seq<u8>| #[trigger] s0.wf(w) && 0 < w.len() && w[0] == old_byte implies self.wf(w.skip(1).push(new_byte)) by {
                lemma_roll(w, new_byte);
                lemma_roll_mod(sa(w) as int, sb(w) as int, old_byte as int, new_byte as int, w.len() as int, cnt as int);
            }
        }
    }

    pub fn push(&mut self, byte: u8)
        requires exists|w: Seq<u8>| #[trigger] old(self).wf(w) && w.len() < usize::MAX,
        ensures forall|w: Seq<u8>| #[trigger] old(self).wf(w) ==> final(self).wf(w.push(byte)),
    {
        let val = u32::from(byte);
        self.a = (self.a.wrapping_add(val)) % Self::MOD;
        self.b = (self.b.wrapping_add(self.a)) % Self::MOD;
        self.count += 1;
        proof {
            assert forall|w: Seq<u8>| #[trigger] old(self).wf(w) implies self.wf(w.push(byte)) by {
                lemma_push(w, byte);
                lemma_mod_shift(sa(w) as int, byte as int, 65521);
                lemma_mod_shift(sb(w) as int, (sa(w) + byte as nat) as int, 65521);
                lemma_add_mod_noop(sb(w) as int, (sa(w) + byte as nat) as int, 65521);
            }
        }
    }

    pub const fn digest(&self) -> (r: u32)
        ensures forall|w: Seq<u8>| #[trigger] self.wf(w) ==> r == dig(w)
    {
        (self.b << 16) | self.a
    }
}
}
fn main() {}
