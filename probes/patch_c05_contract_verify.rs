use vstd::prelude::*;
use std::io::{Read, Seek, SeekFrom, Write};
verus! {
global size_of usize == 8;

#[verifier::external_type_specification]
#[verifier::external_body]
pub struct ExIoError(std::io::Error);

#[verifier::external_type_specification]
pub struct ExSeekFrom(std::io::SeekFrom);


pub uninterp spec fn blake3_spec(s: Seq<u8>) -> Seq<u8>;
pub mod blake3 {
    use super::*;
    #[verifier::external_body]
    pub struct Hasher { _p: () }
    #[verifier::external_body]
    pub struct Hash { _p: () }
    pub uninterp spec fn hasher_view(h: &Hasher) -> Seq<u8>;
    pub uninterp spec fn hash_view(h: &Hash) -> Seq<u8>;
    impl Hasher {
        #[verifier::external_body]
        pub fn new() -> (r: Hasher) ensures hasher_view(&r) == Seq::<u8>::empty() { unimplemented!() }
        #[verifier::external_body]
        pub fn update(&mut self, input: &[u8]) -> (r: &mut Hasher)
            ensures hasher_view(final(self)) == hasher_view(old(self)) + input@ { unimplemented!() }
        #[verifier::external_body]
        pub fn finalize(&self) -> (r: Hash) ensures hash_view(&r) == blake3_spec(hasher_view(self)) { unimplemented!() }
    }
    impl Hash {
        #[verifier::external_body]
        pub fn as_bytes(&self) -> (r: &[u8; 32]) ensures r@ == hash_view(self) { unimplemented!() }
    }
}
pub uninterp spec fn r_content<R: ?Sized>(r: &R) -> Seq<u8>;
pub uninterp spec fn r_pos<R: ?Sized>(r: &R) -> nat;
pub uninterp spec fn w_written<W: ?Sized>(w: &W) -> Seq<u8>;

#[verifier::external_trait_specification]
pub trait ExRead {
    type ExternalTraitSpecificationFor: std::io::Read;
    fn read_exact(&mut self, buf: &mut [u8]) -> (res: std::result::Result<(), std::io::Error>)
        ensures
            r_content(&*final(self)) == r_content(&*old(self)),
            final(buf)@.len() == old(buf)@.len(),
            res is Ok ==> {
                &&& r_pos(&*old(self)) + old(buf)@.len() <= r_content(&*old(self)).len()
                &&& final(buf)@ == r_content(&*old(self)).subrange(r_pos(&*old(self)) as int, (r_pos(&*old(self)) + old(buf)@.len()) as int)
                &&& r_pos(&*final(self)) == r_pos(&*old(self)) + old(buf)@.len()
            };
}
#[verifier::external_trait_specification]
pub trait ExSeek {
    type ExternalTraitSpecificationFor: std::io::Seek;
    fn seek(&mut self, pos: SeekFrom) -> (res: std::result::Result<u64, std::io::Error>)
        ensures
            r_content(&*final(self)) == r_content(&*old(self)),
            res is Ok ==> (match pos { SeekFrom::Start(o) => r_pos(&*final(self)) == o, _ => true });
}
#[verifier::external_trait_specification]
pub trait ExWrite {
    type ExternalTraitSpecificationFor: std::io::Write;
    fn write_all(&mut self, buf: &[u8]) -> (res: std::result::Result<(), std::io::Error>)
        ensures
            res is Ok ==> w_written(&*final(self)) == w_written(&*old(self)) + buf@;
}

#[derive(Clone, Copy, PartialEq, Eq)]
pub struct StrongHash([u8; 32]);
impl vstd::std_specs::cmp::PartialEqSpecImpl for StrongHash {
    open spec fn obeys_eq_spec() -> bool { true }
    open spec fn eq_spec(&self, other: &Self) -> bool { *self == *other }
}

impl StrongHash {
    pub closed spec fn bytes(self) -> Seq<u8> { self.0@ }
    pub const fn from_bytes(bytes: [u8; 32]) -> (r: Self) ensures r.bytes() == bytes@ {
        Self(bytes)
    }
    pub const fn as_bytes(&self) -> (r: &[u8; 32]) ensures r@ == self.bytes() {
        &self.0
    }
}

pub enum CopiaError {
    Io(std::io::Error),
    InvalidCopyBounds { offset: u64, len: u32, basis_size: u64 },
    ChecksumMismatch { expected: [u8; 32], actual: [u8; 32] },
}
impl vstd::std_specs::convert::FromSpecImpl<std::io::Error> for CopiaError {
    open spec fn obeys_from_spec() -> bool { true }
    open spec fn from_spec(e: std::io::Error) -> Self { CopiaError::Io(e) }
}
impl From<std::io::Error> for CopiaError {
    #[verifier::external_body]
    fn from(e: std::io::Error) -> Self { CopiaError::Io(e) }
}
pub type Result<T> = std::result::Result<T, CopiaError>;

pub enum DeltaOp {
    Copy { offset: u64, len: u32 },
    Literal(Vec<u8>),
}
pub struct Delta {
    pub block_size: u32,
    pub source_size: u64,
    pub basis_size: u64,
    pub ops: Vec<DeltaOp>,
    pub checksum: StrongHash,
}
impl Delta {
    pub fn validate(&self) -> Result<()> {
        for op in &self.ops {
            if let DeltaOp::Copy { offset, len } = op {
                let end = offset.saturating_add(u64::from(*len));
                if end > self.basis_size {
                    return Err(CopiaError::InvalidCopyBounds {
                        offset: *offset,
                        len: *len,
                        basis_size: self.basis_size,
                    });
                }
            }
        }
        Ok(())
    }
}
pub open spec fn op_len(op: DeltaOp) -> nat { match op { DeltaOp::Copy { offset, len } => len as nat, DeltaOp::Literal(d) => d@.len() } }
pub open spec fn total_len(ops: Seq<DeltaOp>) -> nat decreases ops.len() {
    if ops.len() == 0 { 0 } else { total_len(ops.drop_last()) + op_len(ops.last()) }
}
pub proof fn lemma_total_mono(ops: Seq<DeltaOp>, k: int)
    requires 0 <= k <= ops.len()
    ensures total_len(ops.take(k)) <= total_len(ops)
    decreases ops.len() - k
{
    if k < ops.len() {
        lemma_total_mono(ops, k + 1);
        assert(ops.take(k + 1).drop_last() =~= ops.take(k));
    } else { assert(ops.take(k) =~= ops); }
}
pub struct Sink { pub bytes: Seq<u8> }
#[verifier::external_body]
pub fn vio_write_all<W: Write>(w: &mut W, buf: &[u8], Tracked(sink): Tracked<&mut Sink>) -> (res: std::result::Result<(), std::io::Error>)
    ensures res is Ok ==> final(sink).bytes == old(sink).bytes + buf@,
{ w.write_all(buf) }
pub struct SyncConfig { pub verify_checksum: bool }
pub struct CopiaSync { config: SyncConfig }

impl CopiaSync {
    fn patch<R: Read + Seek, W: Write>(
        &self,
        mut basis: R,
        delta: &Delta,
        mut output: W,
        Tracked(sink): Tracked<&mut Sink>,
    ) -> (res: Result<()>)
        requires total_len(delta.ops@) <= u64::MAX, old(sink).bytes.len() == 0,
        ensures
            (res is Ok && self.config.verify_checksum) ==> blake3_spec(final(sink).bytes) == delta.checksum.bytes(),
    {
        // Validate delta first
        delta.validate()?;

        let mut hasher = blake3::Hasher::new();
        let mut bytes_written: u64 = 0;

        for op in it: &delta.ops
            invariant
                blake3::hasher_view(&hasher) == sink.bytes,
                bytes_written as nat == total_len(delta.ops@.take(it.index())),
                total_len(delta.ops@) <= u64::MAX,
        {
            proof {
                lemma_total_mono(delta.ops@, it.index() + 1);
                assert(delta.ops@.take(it.index() + 1).drop_last() =~= delta.ops@.take(it.index()));
            }
            match op {
                DeltaOp::Copy { offset, len } => {
                    basis.seek(SeekFrom::Start(*offset))?;
                    let mut buffer = vec![0u8; *len as usize];
                    basis.read_exact(&mut buffer)?;
                    vio_write_all(&mut output, &buffer, Tracked(sink))?;
                    hasher.update(&buffer);
                    bytes_written += u64::from(*len);
                }
                DeltaOp::Literal(data) => {
                    vio_write_all(&mut output, data, Tracked(sink))?;
                    hasher.update(data);
                    bytes_written += data.len() as u64;
                }
            }
        }

        // Verify checksum if enabled
        if self.config.verify_checksum {
            let computed = StrongHash::from_bytes(*hasher.finalize().as_bytes());
            if computed != delta.checksum {
                return Err(CopiaError::ChecksumMismatch {
                    expected: *delta.checksum.as_bytes(),
                    actual: *computed.as_bytes(),
                });
            }
        }

        Ok(())
    }
}
}
fn main() {}
