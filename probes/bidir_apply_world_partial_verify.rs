use vstd::prelude::*;
use vstd::std_specs::btree::*;
use std::collections::BTreeMap;
use std::path::{Path, PathBuf};
use std::ffi::{OsStr, OsString};
verus! {
global size_of usize == 8;

#[verifier::external_type_specification] #[verifier::external_body] pub struct ExIoError(std::io::Error);
#[verifier::external_type_specification] #[verifier::external_body] pub struct ExPathBuf(PathBuf);
#[verifier::external_type_specification] #[verifier::external_body] pub struct ExPath(Path);
#[verifier::external_type_specification] #[verifier::external_body] pub struct ExOsString(OsString);
#[verifier::external_type_specification] #[verifier::external_body] pub struct ExOsStr(OsStr);

// ---------- path algebra (assumed): a path is its byte string ----------
pub type PathV = Seq<u8>;
pub uninterp spec fn pv(p: &Path) -> PathV;
pub uninterp spec fn pbv(p: &PathBuf) -> PathV;
pub uninterp spec fn osv(p: &OsStr) -> PathV;
pub uninterp spec fn osbv(p: &OsString) -> PathV;
pub uninterp spec fn strv(s: Seq<char>) -> PathV;   // UTF-8 bytes of a string
pub uninterp spec fn asp<P>(p: P) -> PathV;     // AsRef<Path>/AsRef<OsStr> view
pub open spec fn SEP() -> PathV { seq![47u8] }
pub open spec fn joinv(a: PathV, b: PathV) -> PathV { a + SEP() + b }
pub open spec fn TMP() -> PathV { strv(".copia-tmp"@) }

pub broadcast axiom fn asp_path(p: &Path) ensures #[trigger] asp::<&Path>(p) == pv(p);
pub broadcast axiom fn asp_pathbuf(p: &PathBuf) ensures #[trigger] asp::<&PathBuf>(p) == pbv(p);
pub broadcast axiom fn asp_str(p: &str) ensures #[trigger] asp::<&str>(p) == strv(p@);
pub broadcast axiom fn asp_string(p: String) ensures #[trigger] asp::<String>(p) == strv(p@);

pub assume_specification<P: AsRef<Path>> [Path::join] (a: &Path, b: P) -> (r: PathBuf) ensures pbv(&r) == joinv(pv(a), asp(b));
pub assume_specification [<PathBuf as core::ops::Deref>::deref] (a: &PathBuf) -> (r: &Path) ensures pv(r) == pbv(a);
pub assume_specification [Path::to_path_buf] (a: &Path) -> (r: PathBuf) ensures pbv(&r) == pv(a);
pub assume_specification [Path::as_os_str] (a: &Path) -> (r: &OsStr) ensures osv(r) == pv(a);
pub assume_specification [Path::parent] (a: &Path) -> (r: Option<&Path>);
pub assume_specification [OsStr::to_owned] (a: &OsStr) -> (r: OsString) ensures osbv(&r) == osv(a);
pub assume_specification<T: AsRef<OsStr>> [OsString::push] (a: &mut OsString, s: T) ensures osbv(final(a)) == osbv(old(a)) + asp(s);

pub assume_specification [<PathBuf as From<OsString>>::from] (a: OsString) -> (r: PathBuf) ensures pbv(&r) == osbv(&a);

// ---------- ghost world ----------
pub struct FileS { pub bytes: Seq<u8>, pub synced: bool }
pub enum Eff { CopyTo(PathV), Rename(PathV, PathV), Unlink(PathV), Sync(PathV) }
pub struct World { pub files: Map<PathV, FileS>, pub log: Seq<Eff>, pub reliable: bool }

pub open spec fn is_staging(p: PathV) -> bool { exists|q: PathV| p == #[trigger] (q + TMP()) }

// fs primitives (assumed)
#[verifier::external_body]
pub fn vfs_create_dir_all<P: AsRef<Path>>(p: P, Tracked(w): Tracked<&mut World>) -> (r: std::io::Result<()>)
    ensures final(w).files == old(w).files, final(w).log == old(w).log, final(w).reliable == old(w).reliable,
        old(w).reliable ==> r is Ok,
{ unimplemented!() }

// non-atomic: only allowed onto a staging name; on failure the staging name may hold anything
#[verifier::external_body]
pub fn vfs_copy<P: AsRef<Path>, Q: AsRef<Path>>(from: P, to: Q, Tracked(w): Tracked<&mut World>) -> (r: std::io::Result<u64>)
    requires is_staging(asp(to)),
    ensures
        final(w).reliable == old(w).reliable,
        final(w).log == old(w).log.push(Eff::CopyTo(asp(to))),
        r is Ok ==> old(w).files.contains_key(asp(from))
            && final(w).files == old(w).files.insert(asp(to), FileS { bytes: old(w).files[asp(from)].bytes, synced: false }),
        r is Err ==> final(w).files.remove(asp(to)) == old(w).files.remove(asp(to)),
        (old(w).reliable && old(w).files.contains_key(asp(from))) ==> r is Ok,
{ unimplemented!() }

#[verifier::external_body]
pub fn vfs_rename<P: AsRef<Path>, Q: AsRef<Path>>(from: P, to: Q, Tracked(w): Tracked<&mut World>) -> (r: std::io::Result<()>)
    ensures
        final(w).reliable == old(w).reliable,
        r is Ok ==> old(w).files.contains_key(asp(from))
            && final(w).files == old(w).files.remove(asp(from)).insert(asp(to), old(w).files[asp(from)])
            && final(w).log == old(w).log.push(Eff::Rename(asp(from), asp(to))),
        r is Err ==> final(w).files == old(w).files && final(w).log == old(w).log,
        (old(w).reliable && old(w).files.contains_key(asp(from))) ==> r is Ok,
{ unimplemented!() }

#[verifier::external_body]
pub fn vfs_remove_file<P: AsRef<Path>>(p: P, Tracked(w): Tracked<&mut World>) -> (r: std::io::Result<()>)
    ensures
        final(w).reliable == old(w).reliable,
        r is Ok ==> final(w).files == old(w).files.remove(asp(p)) && final(w).log == old(w).log.push(Eff::Unlink(asp(p))),
        r is Err ==> final(w).files == old(w).files && final(w).log == old(w).log,
        (old(w).reliable && old(w).files.contains_key(asp(p))) ==> r is Ok,
{ unimplemented!() }

// ---------- bidir.rs (function text as in /repo, R7 applied) ----------
fn copy_atomic(src: &Path, dst: &Path, Tracked(w): Tracked<&mut World>) -> (r: std::io::Result<()>)
    requires pv(src) != pv(dst) + TMP(),
    ensures
        final(w).reliable == old(w).reliable,
        r is Ok ==> old(w).files.contains_key(pv(src))
            && final(w).files == old(w).files.remove(pv(dst) + TMP()).insert(pv(dst), FileS { bytes: old(w).files[pv(src)].bytes, synced: false }),
        // failure or crash: nothing but the staging sibling changed
        r is Err ==> final(w).files.remove(pv(dst) + TMP()) == old(w).files.remove(pv(dst) + TMP()),
        (old(w).reliable && old(w).files.contains_key(pv(src))) ==> r is Ok,
{
    broadcast use asp_path, asp_pathbuf, asp_str;
    if let Some(p) = dst.parent() {
        vfs_create_dir_all(p, Tracked(w))?;
    }
    let mut tmp = dst.as_os_str().to_owned();
    tmp.push(".copia-tmp");
    let tmp = PathBuf::from(tmp);
    proof { assert(is_staging(pbv(&tmp))) by { assert(pbv(&tmp) == pv(dst) + TMP()); } }
    vfs_copy(src, &tmp, Tracked(w))?;
    vfs_rename(&tmp, dst, Tracked(w))
}

pub broadcast proof fn lemma_join_suffix(a: PathV, x: PathV, t: PathV)
    ensures #[trigger] (joinv(a, x) + t) =~= joinv(a, x + t)
{ }
pub broadcast axiom fn ax_strv_len(s: Seq<char>) ensures #[trigger] strv(s).len() >= s.len();
pub proof fn lemma_tmp_nonempty() ensures TMP().len() > 0
{ broadcast use ax_strv_len; reveal_strlit(".copia-tmp"); assert(".copia-tmp"@.len() == 10); }
pub proof fn lemma_join_inj(a: PathV, x: PathV, y: PathV)
    ensures joinv(a, x) == joinv(a, y) ==> x == y
{
    if joinv(a, x) == joinv(a, y) {
        assert(joinv(a, x).subrange(a.len() as int + 1, joinv(a, x).len() as int) =~= x);
        assert(joinv(a, y).subrange(a.len() as int + 1, joinv(a, y).len() as int) =~= y);
    }
}
// ---------- BTreeMap<PathBuf,_> keyed by byte view (assumed) ----------
pub broadcast axiom fn ax_pathbuf_keys()
    ensures #[trigger] borrowed_key_ordering_matches::<PathBuf, Path>(), key_obeys_cmp_spec::<PathBuf>();
pub broadcast axiom fn ax_pbv_inj(a: PathBuf, b: PathBuf)
    ensures #[trigger] pbv(&a) == #[trigger] pbv(&b) ==> a == b;
pub open spec fn mget<V>(m: Map<PathBuf, V>, p: PathV) -> Option<V> {
    if exists|k: PathBuf| m.contains_key(k) && pbv(&k) == p {
        Some(m[choose|k: PathBuf| m.contains_key(k) && pbv(&k) == p])
    } else { None }
}
pub broadcast axiom fn ax_contains_borrowed<V>(m: Map<PathBuf, V>, q: &Path)
    ensures #[trigger] contains_borrowed_key::<PathBuf, V, Path>(m, q) == (mget(m, pv(q)) is Some);
pub broadcast axiom fn ax_maps_borrowed<V>(m: Map<PathBuf, V>, q: &Path, v: V)
    ensures #[trigger] maps_borrowed_key_to_value::<PathBuf, V, Path>(m, q, v) == (mget(m, pv(q)) == Some(v));
pub broadcast axiom fn ax_removed_borrowed<V>(m: Map<PathBuf, V>, n: Map<PathBuf, V>, q: &Path)
    ensures #[trigger] borrowed_key_removed::<PathBuf, V, Path>(m, n, q)
        == (forall|p: PathV| #[trigger] mget(n, p) == (if p == pv(q) { None } else { mget(m, p) }));

pub proof fn lemma_mget_insert<V>(m: Map<PathBuf, V>, k: PathBuf, v: V, p: PathV)
    ensures mget(m.insert(k, v), p) == (if p == pbv(&k) { Some(v) } else { mget(m, p) })
{
    broadcast use ax_pbv_inj;
    let n = m.insert(k, v);
    if p == pbv(&k) {
        assert(n.contains_key(k) && pbv(&k) == p);
        let c = choose|c: PathBuf| n.contains_key(c) && pbv(&c) == p;
        assert(c == k);
    } else {
        if exists|c: PathBuf| m.contains_key(c) && pbv(&c) == p {
            let c0 = choose|c: PathBuf| m.contains_key(c) && pbv(&c) == p;
            assert(n.contains_key(c0) && pbv(&c0) == p);
            let c1 = choose|c: PathBuf| n.contains_key(c) && pbv(&c) == p;
            assert(c1 == c0);
        } else {
            assert forall|c: PathBuf| !(n.contains_key(c) && pbv(&c) == p) by { }
        }
    }
}

#[derive(Clone, Copy, PartialEq, Eq)]
pub enum FileType { File, Symlink }
#[derive(Clone, Copy, PartialEq, Eq)]
pub struct Fingerprint { pub blake3: [u8; 32], pub ftype: FileType }
pub type FpMap = BTreeMap<PathBuf, Fingerprint>;
#[derive(Clone, Copy, PartialEq, Eq)]
pub enum ConflictKind { BothChanged, DeleteVsModify }
#[derive(Clone, Copy, PartialEq, Eq)]
pub enum Action { Noop, PropagateAtoB, PropagateBtoA, ConvergeIdentical, DeleteA, DeleteB, Conflict(ConflictKind) }

pub uninterp spec fn fp_of(bytes: Seq<u8>) -> Fingerprint;
// what the scan saw at `rel` on one side is what is on disk
pub open spec fn scanned_at(w: World, root: PathV, m: Map<PathBuf, Fingerprint>, rel: PathV) -> bool {
    match mget(m, rel) {
        Some(fp) => w.files.contains_key(joinv(root, rel)) && fp_of(w.files[joinv(root, rel)].bytes) == fp,
        None => !w.files.contains_key(joinv(root, rel)),
    }
}
#[verifier::external_body]
fn short_hex(h: &[u8; 32]) -> (r: String) { unimplemented!() }
#[verifier::external_body]
fn vfmt2(host: &str, hex: String) -> (r: String) ensures r@ == conflict_suffix(host@, hex@) { unimplemented!() }
pub uninterp spec fn conflict_suffix(host: Seq<char>, hex: Seq<char>) -> Seq<char>;

fn apply(
    root_a: &Path,
    root_b: &Path,
    rel: &Path,
    act: Action,
    a: &FpMap,
    b: &FpMap,
    host: &str,
    common: &mut FpMap,
    conflicts: &mut Vec<PathBuf>,
    Tracked(w): Tracked<&mut World>,
) -> (r: std::io::Result<()>)
    requires
        scanned_at(*old(w), pv(root_a), a@, pv(rel)),
        scanned_at(*old(w), pv(root_b), b@, pv(rel)),
        // roots do not overlap, rel is not itself a staging sibling of rel
        forall|x: PathV, y: PathV| joinv(pv(root_a), x) != joinv(pv(root_b), y),
        act == Action::PropagateAtoB ==> mget(a@, pv(rel)) is Some,
        act == Action::PropagateBtoA ==> mget(b@, pv(rel)) is Some,
    ensures
        final(w).reliable == old(w).reliable,
        r is Ok ==> ({
            let pa = joinv(pv(root_a), pv(rel)); let pb = joinv(pv(root_b), pv(rel));
            match act {
                Action::Noop => final(w).files == old(w).files && final(common)@ == old(common)@,
                Action::PropagateAtoB => {
                    &&& final(w).files.contains_key(pb) && final(w).files[pb].bytes == old(w).files[pa].bytes
                    &&& final(w).files.remove(pb).remove(pb + TMP()) == old(w).files.remove(pb).remove(pb + TMP())
                    &&& mget(final(common)@, pv(rel)) == mget(a@, pv(rel))
                    &&& forall|p: PathV| p != pv(rel) ==> #[trigger] mget(final(common)@, p) == mget(old(common)@, p)
                },
                Action::DeleteA => {
                    &&& mget(final(common)@, pv(rel)) is None
                    &&& forall|p: PathV| p != pv(rel) ==> #[trigger] mget(final(common)@, p) == mget(old(common)@, p)
                    &&& final(w).files.remove(pa) == old(w).files.remove(pa)
                    &&& old(w).reliable ==> !final(w).files.contains_key(pa)
                },
                _ => true,
            }
        }),
{
    broadcast use asp_path, asp_pathbuf, asp_str, asp_string, ax_pathbuf_keys, ax_contains_borrowed, ax_maps_borrowed, ax_removed_borrowed, lemma_join_suffix;
    proof { lemma_tmp_nonempty(); }
    let pa = root_a.join(rel);
    let pb = root_b.join(rel);
    match act {
        Action::Noop => {}
        Action::ConvergeIdentical => {
            if let Some(fp) = a.get(rel) {
                common.insert(rel.to_path_buf(), *fp);
            }
        }
        Action::PropagateAtoB => {
            copy_atomic(&pa, &pb, Tracked(w))?;
            if let Some(fp) = a.get(rel) {
                let ghost c0 = common@;
                let kk = rel.to_path_buf();
                proof { assert forall|p: PathV| true implies #[trigger] mget(c0.insert(kk, *fp), p) == (if p == pbv(&kk) { Some(*fp) } else { mget(c0, p) }) by { lemma_mget_insert(c0, kk, *fp, p); } }
                common.insert(kk, *fp);
            }
        }
        Action::PropagateBtoA => {
            copy_atomic(&pb, &pa, Tracked(w))?;
            if let Some(fp) = b.get(rel) {
                common.insert(rel.to_path_buf(), *fp);
            }
        }
        Action::DeleteA => {
            let _ = vfs_remove_file(&pa, Tracked(w));
            common.remove(rel);
        }
        Action::DeleteB => {
            let _ = vfs_remove_file(&pb, Tracked(w));
            common.remove(rel);
        }
        Action::Conflict(ConflictKind::DeleteVsModify) => {
            if a.contains_key(rel) {
                copy_atomic(&pa, &pb, Tracked(w))?;
                if let Some(fp) = a.get(rel) {
                    common.insert(rel.to_path_buf(), *fp);
                }
            } else if b.contains_key(rel) {
                copy_atomic(&pb, &pa, Tracked(w))?;
                if let Some(fp) = b.get(rel) {
                    common.insert(rel.to_path_buf(), *fp);
                }
            }
        }
        Action::Conflict(ConflictKind::BothChanged) => {
            let (Some(fa), Some(fb)) = (a.get(rel), b.get(rel)) else {
                return Ok(());
            };
            let (win_root, win_fp, lose_root, lose_fp) = if fa.blake3 >= fb.blake3 {
                (root_a, fa, root_b, fb)
            } else {
                (root_b, fb, root_a, fa)
            };
            let loser_name = {
                let mut n = rel.as_os_str().to_owned();
                n.push(vfmt2(host, short_hex(&lose_fp.blake3)));
                PathBuf::from(n)
            };
            let win_full = win_root.join(rel); // winner content
            let lose_full = lose_root.join(rel); // loser content (about to be overwritten)
            copy_atomic(&lose_full, &lose_root.join(&loser_name), Tracked(w))?;
            copy_atomic(&lose_full, &win_root.join(&loser_name), Tracked(w))?;
            copy_atomic(&win_full, &lose_full, Tracked(w))?;
            common.insert(rel.to_path_buf(), *win_fp);
            common.insert(loser_name, *lose_fp);
            conflicts.push(rel.to_path_buf());
        }
    }
    Ok(())
}
}
fn main() {}
