use vstd::prelude::*;
verus! {

pub assume_specification<T: Clone> [<[T]>::to_vec] (s: &[T]) -> (r: Vec<T>)
    ensures r@ == s@;

pub enum DeltaOp {
    Copy { offset: u64, len: u32 },
    Literal(Vec<u8>),
}
impl DeltaOp {
    pub const fn copy(offset: u64, len: u32) -> Self {
        Self::Copy { offset, len }
    }
    pub fn literal(data: Vec<u8>) -> Self {
        Self::Literal(data)
    }
    pub fn literal_from_slice(data: &[u8]) -> Self {
        Self::Literal(data.to_vec())
    }
}
pub struct Delta {
    pub block_size: u32,
    pub source_size: u64,
    pub basis_size: u64,
    pub ops: Vec<DeltaOp>,
}

impl Delta {
    pub fn push_copy(&mut self, offset: u64, len: u32) {
        // Try to merge with previous copy if contiguous
        if let Some(DeltaOp::Copy {
            offset: prev_offset,
            len: prev_len,
        }) = self.ops.last_mut()
        {
            if *prev_offset + u64::from(*prev_len) == offset {
                // Contiguous: merge
                if let Some(new_len) = prev_len.checked_add(len) {
                    *prev_len = new_len;
                    return;
                }
            }
        }
        self.ops.push(DeltaOp::copy(offset, len));
    }

    pub fn push_literal(&mut self, data: &[u8]) {
        if data.is_empty() {
            return;
        }
        if let Some(DeltaOp::Literal(prev_data)) = self.ops.last_mut() {
            prev_data.extend_from_slice(data);
            return;
        }
        self.ops.push(DeltaOp::literal_from_slice(data));
    }

    pub fn push_literal_byte(&mut self, byte: u8) {
        if let Some(DeltaOp::Literal(prev_data)) = self.ops.last_mut() {
            prev_data.push(byte);
            return;
        }
        self.ops.push(DeltaOp::literal(vec![byte]));
    }
}
}
fn main() {}
