use vstd::prelude::*;
verus! {
pub struct World { pub n: int }
#[verifier::external_body]
pub fn eff(Tracked(w): Tracked<&mut World>) ensures final(w).n == old(w).n + 1 { }

fn with_lock<T>(f: impl FnOnce() -> T) -> (r: T)
    requires f.requires(()),
    ensures f.ensures((), r)
{
    let out = f();
    out
}
pub fn user(Tracked(w): Tracked<&mut World>) -> (r: u8)
{
    let r = with_lock(|| -> (x: u8) { eff(Tracked(w)); 1u8 });
    r
}
}
fn main() {}
