use vstd::prelude::*;
use std::io::{Read, Write};
verus! {
global size_of usize == 8;
#[verifier::external_type_specification] #[verifier::external_body] pub struct ExIoError(std::io::Error);
#[verifier::external_type_specification] #[verifier::external_body] #[verifier::reject_recursive_types(T)] pub struct ExTake<T>(std::io::Take<T>);

pub uninterp spec fn r_rest<R: ?Sized>(r: &R) -> Seq<u8>;
#[verifier::external_trait_specification]
pub trait ExRead {
    type ExternalTraitSpecificationFor: std::io::Read;
    fn read(&mut self, buf: &mut [u8]) -> (res: std::result::Result<usize, std::io::Error>)
        ensures res is Ok ==> ({ let n = res->Ok_0 as int;
            &&& n <= old(buf)@.len() && n <= r_rest(&*old(self)).len()
            &&& final(buf)@.len() == old(buf)@.len()
            &&& final(buf)@.subrange(0, n) == r_rest(&*old(self)).subrange(0, n)
            &&& r_rest(&*final(self)) == r_rest(&*old(self)).skip(n)
            &&& (n == 0 ==> (old(buf)@.len() == 0 || r_rest(&*old(self)).len() == 0)) });
    fn take(self, limit: u64) -> (r: std::io::Take<Self>) where Self: Sized
        ensures r_rest(&r) == r_rest(&self).take(if limit as int <= r_rest(&self).len() { limit as int } else { r_rest(&self).len() as int });
}

fn drain<R: Read>(r: &mut R, len: u64) -> (res: std::io::Result<u64>)
{
    let mut limited = r.take(len);
    let mut buf = vec![0u8; 256 * 1024];
    let mut total: u64 = 0;
    loop
        invariant buf@.len() == 256 * 1024
        decreases 0int
    {
        let n = limited.read(&mut buf)?;
        if n == 0 {
            break;
        }
    }
    Ok(total)
}
}
fn main() {}
