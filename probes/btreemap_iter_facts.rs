use vstd::prelude::*;
use std::collections::BTreeMap;
verus! {
pub fn keys_of(m: &BTreeMap<u64, u8>) -> (r: Vec<u64>)
    ensures r@.to_set() =~= m@.dom(), r@.no_duplicates(),
{
    broadcast use vstd::std_specs::btree::group_btree_axioms;
    let mut out: Vec<u64> = Vec::new();
    for (k, v) in it: m.iter()
        invariant
            out@ =~= it.seq().take(it.index() as int).map_values(|kv: (&u64, &u8)| *kv.0),
    {
        out.push(*k);
    }
    out
}
}
fn main() {}
