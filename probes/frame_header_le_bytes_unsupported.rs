use vstd::prelude::*;
verus! {
pub const PROTOCOL_MAGIC: [u8; 4] = *b"COPA";
pub const PROTOCOL_VERSION: u8 = 1;
pub const MAX_PAYLOAD_SIZE: u32 = 16 * 1024 * 1024;

#[derive(Clone, Copy, PartialEq, Eq)]
#[repr(u8)]
pub enum MessageType {
    SignatureRequest = 0x01,
    SignatureResponse = 0x02,
    Pong = 0x07,
}
pub open spec fn le_val(b: Seq<u8>) -> nat decreases b.len() {
    if b.len() == 0 { 0 } else { b[0] as nat + 256 * le_val(b.skip(1)) }
}
pub assume_specification [u32::to_le_bytes](x: u32) -> (r: [u8; core::mem::size_of::<u32>()]) ensures le_val(r@) == x as nat;
pub assume_specification [u16::to_le_bytes](x: u16) -> (r: [u8; core::mem::size_of::<u16>()]) ensures le_val(r@) == x as nat;
pub assume_specification [u32::from_le_bytes](b: [u8; core::mem::size_of::<u32>()]) -> (r: u32) ensures le_val(b@) == r as nat;
pub assume_specification [u16::from_le_bytes](b: [u8; core::mem::size_of::<u16>()]) -> (r: u16) ensures le_val(b@) == r as nat;
#[verifier::external_body]
pub fn verif_format() -> String { String::new() }

pub enum CopiaError { ProtocolError(String) }
pub type Result<T> = std::result::Result<T, CopiaError>;

impl MessageType {
    pub fn from_u8(value: u8) -> (r: Result<Self>)
    {
        match value {
            0x01 => Ok(Self::SignatureRequest),
            0x02 => Ok(Self::SignatureResponse),
            0x07 => Ok(Self::Pong),
            _ => Err(CopiaError::ProtocolError(verif_format())),
        }
    }
}
pub struct FrameHeader {
    pub magic: [u8; 4],
    pub length: u32,
    pub msg_type: MessageType,
    pub version: u8,
    pub flags: u16,
}
impl FrameHeader {
    pub const SIZE: usize = 12;
    pub fn validate(&self) -> (r: Result<()>)
        ensures r is Ok <==> (self.magic@ == PROTOCOL_MAGIC@ && self.version == 1 && self.length <= MAX_PAYLOAD_SIZE)
    {
        if self.magic != PROTOCOL_MAGIC {
            return Err(CopiaError::ProtocolError(verif_format()));
        }
        if self.version != PROTOCOL_VERSION {
            return Err(CopiaError::ProtocolError(verif_format()));
        }
        if self.length > MAX_PAYLOAD_SIZE {
            return Err(CopiaError::ProtocolError(verif_format()));
        }
        Ok(())
    }
    pub fn encode(&self) -> (r: [u8; 12])
    {
        let len = self.length.to_le_bytes();
        let flg = self.flags.to_le_bytes();
        let buf = [
            self.magic[0],
            self.magic[1],
            self.magic[2],
            self.magic[3],
            len[0],
            len[1],
            len[2],
            len[3],
            self.msg_type as u8,
            self.version,
            flg[0],
            flg[1],
        ];
        buf
    }
    pub fn decode(buf: &[u8; 12]) -> Result<Self> {
        let magic: [u8; 4] = [buf[0], buf[1], buf[2], buf[3]];
        let length = u32::from_le_bytes([buf[4], buf[5], buf[6], buf[7]]);
        let msg_type = MessageType::from_u8(buf[8])?;
        let version = buf[9];
        let flags = u16::from_le_bytes([buf[10], buf[11]]);
        let header = Self { magic, length, msg_type, version, flags };
        header.validate()?;
        Ok(header)
    }
}
}
fn main() {}
