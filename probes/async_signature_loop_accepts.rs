use vstd::prelude::*;
verus! {
global size_of usize == 8;
pub uninterp spec fn r_rest<R: ?Sized>(r: &R) -> Seq<u8>;
pub trait AsyncRead {}
pub mod tio {
    use super::*;
    #[verifier::external_body]
    pub fn read<R: AsyncRead>(r: &mut R, buf: &mut [u8]) -> (res: Result<usize, ()>)
        ensures res is Ok ==> ({ let n = res->Ok_0 as int;
            &&& n <= old(buf)@.len() && n <= r_rest(&*old(r)).len()
            &&& final(buf)@.len() == old(buf)@.len()
            &&& final(buf)@.subrange(0, n) == r_rest(&*old(r)).subrange(0, n)
            &&& final(buf)@.subrange(n, old(buf)@.len() as int) == old(buf)@.subrange(n, old(buf)@.len() as int)
            &&& r_rest(&*final(r)) == r_rest(&*old(r)).skip(n)
            &&& (n == 0 ==> (old(buf)@.len() == 0 || r_rest(&*old(r)).len() == 0)) })
    { unimplemented!() }
}
pub struct BlockSignature { pub index: u32, pub weak_hash: u32 }
impl BlockSignature {
    #[verifier::external_body]
    pub fn compute(index: u32, data: &[u8]) -> (r: Self) ensures r.index == index { unimplemented!() }
}
pub struct Signature { pub block_size: usize, pub file_size: u64, pub blocks: Vec<BlockSignature> }

pub fn signature<R: AsyncRead>(block_size: usize, mut reader: R) -> Result<Signature, ()>
    requires 0 < block_size <= 65536
{
        let mut blocks = Vec::new();
        let mut buffer = vec![0u8; block_size];
        let mut index = 0u32;
        let mut file_size = 0u64;

        loop
            invariant buffer@.len() == block_size, 0 < block_size <= 65536,
            decreases r_rest(&reader).len()
        {
            let mut bytes_read = 0;
            while bytes_read < block_size
                invariant buffer@.len() == block_size, bytes_read <= block_size,
                decreases block_size - bytes_read
            {
                match tio::read(&mut reader, &mut buffer[bytes_read..])? {
                    0 => break,
                    n => bytes_read += n,
                }
            }

            if bytes_read == 0 {
                break;
            }

            let data = &buffer[..bytes_read];
            blocks.push(BlockSignature::compute(index, data));
            file_size += bytes_read as u64;
            index = index.saturating_add(1);
        }
        Ok(Signature { block_size, file_size, blocks })
}
}
fn main() {}
