//! Kani harnesses over the real source files (included by #[path], unedited).
//! Every harness here is loop-free over full-domain symbolic inputs => a complete proof, not a bounded run.
#![allow(dead_code, unused_imports, clippy::all)]

#[path = "../repo/src/bin/copia/reconcile.rs"]
pub mod reconcile;
#[path = "../repo/src/bin/copia/plan.rs"]
pub mod plan;
#[path = "../repo/src/bin/copia/wire.rs"]
pub mod wire;
/// private functions, extracted mechanically on every run (see kani/extracted.tmpl.rs)
#[path = "extracted.rs"]
pub mod extracted;

#[cfg(kani)]
mod harness {
    use super::plan::{needs_transfer, FileMeta};
    use super::reconcile::{reconcile_path, Action, ConflictKind, FileType, Fingerprint};

    fn any_fp() -> Fingerprint {
        Fingerprint { blake3: kani::any(), ftype: if kani::any() { FileType::File } else { FileType::Symlink } }
    }
    fn any_opt() -> Option<Fingerprint> {
        if kani::any() { Some(any_fp()) } else { None }
    }
    /// equality of (BLAKE3, entry type) pairs — the only thing the table may depend on
    fn eq(x: &Fingerprint, y: &Fingerprint) -> bool {
        x.blake3 == y.blake3 && (x.ftype == y.ftype)
    }
    fn oeq(x: &Option<Fingerprint>, y: &Option<Fingerprint>) -> bool {
        match (x, y) { (Some(p), Some(q)) => eq(p, q), _ => false }
    }

    /// The documented table (C18), written from the property statement.
    fn table(a: &Option<Fingerprint>, b: &Option<Fingerprint>, z: &Option<Fingerprint>) -> Action {
        match (a.is_some(), b.is_some()) {
            (false, false) => Action::Noop,
            (true, true) => {
                if oeq(a, b) {
                    // equal on both sides: nothing, or record-only if the base differs or is missing
                    if oeq(a, z) { Action::Noop } else { Action::ConvergeIdentical }
                } else {
                    let a_differs = !oeq(a, z); // missing base counts as "differs"
                    let b_differs = !oeq(b, z);
                    if a_differs && !b_differs { Action::PropagateAtoB }
                    else if !a_differs && b_differs { Action::PropagateBtoA }
                    else { Action::Conflict(ConflictKind::BothChanged) }
                }
            }
            (true, false) => {
                if z.is_none() { Action::PropagateAtoB }           // create on the other side
                else if oeq(a, z) { Action::DeleteA }              // survivor equals base: delete it
                else { Action::Conflict(ConflictKind::DeleteVsModify) }
            }
            (false, true) => {
                if z.is_none() { Action::PropagateBtoA }
                else if oeq(b, z) { Action::DeleteB }
                else { Action::Conflict(ConflictKind::DeleteVsModify) }
            }
        }
    }
    fn mirror(x: Action) -> Action {
        match x {
            Action::PropagateAtoB => Action::PropagateBtoA,
            Action::PropagateBtoA => Action::PropagateAtoB,
            Action::DeleteA => Action::DeleteB,
            Action::DeleteB => Action::DeleteA,
            o => o,
        }
    }

    #[kani::proof]
    fn c18_reconcile_path_is_the_table() {
        let (a, b, z) = (any_opt(), any_opt(), any_opt());
        let got = reconcile_path(a, b, z);
        let want = table(&a, &b, &z);
        assert!(got == want);
        // reachability guards (vacuity): every action is produced for some input
        kani::cover!(got == Action::Noop);
        kani::cover!(got == Action::ConvergeIdentical);
        kani::cover!(got == Action::DeleteA);
        kani::cover!(got == Action::DeleteB);
        kani::cover!(got == Action::Conflict(ConflictKind::BothChanged));
        kani::cover!(got == Action::Conflict(ConflictKind::DeleteVsModify));
    }

    #[kani::proof]
    fn c18_mirror_symmetric() {
        let (a, b, z) = (any_opt(), any_opt(), any_opt());
        assert!(reconcile_path(b, a, z) == mirror(reconcile_path(a, b, z)));
    }

    #[kani::proof]
    fn c18_depends_only_on_equality_pattern() {
        let (a, b, z) = (any_opt(), any_opt(), any_opt());
        let (a2, b2, z2) = (any_opt(), any_opt(), any_opt());
        kani::assume(a.is_some() == a2.is_some() && b.is_some() == b2.is_some() && z.is_some() == z2.is_some());
        kani::assume(oeq(&a, &b) == oeq(&a2, &b2) && oeq(&a, &z) == oeq(&a2, &z2) && oeq(&b, &z) == oeq(&b2, &z2));
        kani::cover!(a.is_some() && b.is_some() && z.is_some() && !oeq(&a, &b));
        assert!(reconcile_path(a, b, z) == reconcile_path(a2, b2, z2));
    }

    #[kani::proof]
    fn c18_no_delete_without_base() {
        let (a, b) = (any_opt(), any_opt());
        let act = reconcile_path(a, b, None);
        assert!(act != Action::DeleteA && act != Action::DeleteB);
    }

    /// C20: an encoded header begins with `COPA`, carries version 1 and the little-endian payload length, type code and flags
    /// (bit-precise on the compiled library, incl. the real PROTOCOL_MAGIC constant and the real to_le_bytes)
    #[kani::proof]
    fn c20_encode_layout() {
        use copia::{FrameHeader, MessageType};
        let code: u8 = kani::any();
        kani::assume(1 <= code && code <= 7);
        let mt = match code { 1 => MessageType::SignatureRequest, 2 => MessageType::SignatureResponse, 3 => MessageType::DeltaData,
                              4 => MessageType::Ack, 5 => MessageType::Error, 6 => MessageType::Ping, _ => MessageType::Pong };
        let len: u32 = kani::any();
        let h = FrameHeader::new(mt, len);
        let b = h.encode();
        assert!(b[0] == b'C' && b[1] == b'O' && b[2] == b'P' && b[3] == b'A');
        assert!(u32::from_le_bytes([b[4], b[5], b[6], b[7]]) == len);
        assert!(b[8] == code && b[9] == 1 && b[10] == 0 && b[11] == 0);
        kani::cover!(len > 16 * 1024 * 1024);
    }

    /// C03: the CAS gate commits exactly when the hub's current hash equals the hash the client said it last saw
    /// (None = absent), for all 2 x 2 presence patterns and arbitrary 32-byte hashes
    #[kani::proof]
    fn c03_cas_decide_is_equality() {
        use super::wire::{cas_decide, Cas};
        let cur: Option<[u8; 32]> = if kani::any() { Some(kani::any()) } else { None };
        let exp: Option<[u8; 32]> = if kani::any() { Some(kani::any()) } else { None };
        let same = match (&cur, &exp) { (None, None) => true, (Some(a), Some(b)) => a == b, _ => false };
        assert!((cas_decide(cur, exp) == Cas::Commit) == same);
        kani::cover!(same && cur.is_some());
        kani::cover!(!same && cur.is_some() && exp.is_some());
    }

    #[kani::proof]
    fn c19_needs_transfer_is_quick_check() {
        let s = FileMeta { size: kani::any(), mtime: kani::any() };
        let d = if kani::any() { Some(FileMeta { size: kani::any(), mtime: kani::any() }) } else { None };
        let want = match d { None => true, Some(x) => s.size != x.size || s.mtime != x.mtime };
        assert!(needs_transfer(s, d) == want);
        kani::cover!(d.is_some() && !want);
    }
}
