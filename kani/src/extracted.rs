// GENERATED into src/extracted.rs on every run (tool/check.py prepare_kani_crate) from kani/extracted.tmpl.rs:
// the function text below is copied byte for byte from the tree under check (no rewrite rule), because a private function of a
// binary crate module cannot be reached through #[path]. The harness is a complete proof: full-domain symbolic digest, the six
// loop iterations unwound with unwinding assertions on.
#![allow(dead_code, unused_imports, clippy::all)]
fn short_hex(h: &[u8; 32]) -> String {
    use std::fmt::Write as _;
    let mut out = String::with_capacity(12);
    for b in &h[..6] {
        let _ = write!(out, "{b:02x}");
    }
    out
}

#[cfg(kani)]
mod harness_short_hex {
    use super::short_hex;
    fn hexd(n: u8) -> u8 { if n < 10 { b'0' + n } else { b'a' + (n - 10) } }
    /// C06: the conflict-copy suffix is the first 12 lower-case hex digits of the digest - every digest, leading zeros included
    #[kani::proof]
    #[kani::unwind(9)]
    fn c06_short_hex_is_hex12() {
        let h: [u8; 32] = kani::any();
        let s = short_hex(&h);
        let b = s.as_bytes();
        assert!(b.len() == 12);
        let mut i = 0;
        while i < 6 {
            assert!(b[2 * i] == hexd(h[i] >> 4));
            assert!(b[2 * i + 1] == hexd(h[i] & 15));
            i += 1;
        }
    }
}

