//! A small ptrace supervisor (test tooling, x86_64 Linux): run a command and SIGKILL the whole process right before its
//! k-th *file-system or pipe write call* executes - counted globally over all threads, in the order the kernel enters
//! them. Writes to stdout/stderr, /dev/null and eventfds (runtime wake-ups) are not counted. Child PROCESSES (the `ssh`
//! stand-in) are detached as soon as they are created, so they run to completion after their parent died.
#![allow(unsafe_code)]
use std::collections::{BTreeMap, BTreeSet};
use std::os::unix::process::CommandExt;
use std::process::Command;

pub struct Outcome { pub killed: bool, pub calls: usize, pub exit: Option<i32>, pub last: String }

fn fd_target(pid: i32, fd: u64) -> String { std::fs::read_link(format!("/proc/{pid}/fd/{fd}")).map(|p| p.to_string_lossy().into_owned()).unwrap_or_default() }
fn read_cstr(pid: i32, addr: u64) -> String {
    use std::io::{Read, Seek, SeekFrom};
    let mut out = vec![];
    if let Ok(mut f) = std::fs::File::open(format!("/proc/{pid}/mem")) {
        if f.seek(SeekFrom::Start(addr)).is_ok() { let mut b = [0u8; 256]; if let Ok(n) = f.read(&mut b) { for &c in &b[..n] { if c == 0 { break; } out.push(c); } } }
    }
    String::from_utf8_lossy(&out).into_owned()
}

/// is this syscall entry a file-system or pipe write call? returns a short description if so
fn relevant(pid: i32, r: &libc::user_regs_struct) -> Option<String> {
    let n = r.orig_rax as i64;
    let data_fd = |fd: u64| -> Option<String> {
        if fd == 1 || fd == 2 { return None; }
        let t = fd_target(pid, fd);
        if t.is_empty() || t == "/dev/null" || t.contains("eventfd") || t.contains("eventpoll") || t.starts_with("/dev/pts") || t.starts_with("socket:") { return None; }
        Some(t)
    };
    match n {
        libc::SYS_write | libc::SYS_pwrite64 | libc::SYS_writev => data_fd(r.rdi).map(|t| format!("write({t})")),
        libc::SYS_copy_file_range => data_fd(r.rdx).map(|t| format!("copy_file_range(-> {t})")),
        libc::SYS_sendfile => data_fd(r.rdi).map(|t| format!("sendfile(-> {t})")),
        libc::SYS_ftruncate => data_fd(r.rdi).map(|t| format!("ftruncate({t})")),
        libc::SYS_openat => { let fl = r.rdx as i32; if fl & (libc::O_WRONLY | libc::O_RDWR | libc::O_CREAT | libc::O_TRUNC) != 0 { let p = read_cstr(pid, r.rsi); if p == "/dev/null" || p.starts_with("/proc") || p.starts_with("/dev/") { None } else { Some(format!("openat({p}, write/create)")) } } else { None } }
        libc::SYS_open => { let fl = r.rsi as i32; if fl & (libc::O_WRONLY | libc::O_RDWR | libc::O_CREAT | libc::O_TRUNC) != 0 { Some(format!("open({}, write/create)", read_cstr(pid, r.rdi))) } else { None } }
        libc::SYS_creat => Some(format!("creat({})", read_cstr(pid, r.rdi))),
        libc::SYS_rename => Some(format!("rename({} -> {})", read_cstr(pid, r.rdi), read_cstr(pid, r.rsi))),
        libc::SYS_renameat | libc::SYS_renameat2 => Some(format!("rename({} -> {})", read_cstr(pid, r.rsi), read_cstr(pid, r.r10))),
        libc::SYS_unlink => Some(format!("unlink({})", read_cstr(pid, r.rdi))),
        libc::SYS_unlinkat => Some(format!("unlink({})", read_cstr(pid, r.rsi))),
        libc::SYS_mkdir => Some(format!("mkdir({})", read_cstr(pid, r.rdi))),
        libc::SYS_mkdirat => Some(format!("mkdir({})", read_cstr(pid, r.rsi))),
        libc::SYS_utimensat => Some("utimensat".to_string()),
        libc::SYS_fsync | libc::SYS_fdatasync => data_fd(r.rdi).map(|t| format!("fsync({t})")),
        _ => None,
    }
}

/// run `cmd`; kill it before its k-th relevant call (k == 0: never kill, just count)
pub fn run(cmd: &mut Command, k: usize) -> Option<Outcome> {
    unsafe { cmd.pre_exec(|| { if libc::ptrace(libc::PTRACE_TRACEME, 0, 0, 0) < 0 { return Err(std::io::Error::last_os_error()); } Ok(()) }); }
    let child = cmd.spawn().ok()?;
    let main = child.id() as i32;
    let mut status = 0i32;
    unsafe {
        if libc::waitpid(main, &mut status, libc::__WALL) < 0 { return None; }
        let opts = libc::PTRACE_O_TRACESYSGOOD | libc::PTRACE_O_TRACECLONE | libc::PTRACE_O_TRACEFORK | libc::PTRACE_O_TRACEVFORK | libc::PTRACE_O_TRACEEXEC | libc::PTRACE_O_EXITKILL;
        libc::ptrace(libc::PTRACE_SETOPTIONS, main, 0, opts as libc::c_long);
        libc::ptrace(libc::PTRACE_SYSCALL, main, 0, 0);
    }
    let mut tracees: BTreeSet<i32> = [main].into_iter().collect();
    let mut detach: BTreeSet<i32> = BTreeSet::new();          // new PROCESSES: let them go at their first stop
    let mut in_sys: BTreeMap<i32, bool> = BTreeMap::new();
    let (mut calls, mut killed, mut exit, mut last) = (0usize, false, None, String::new());
    while !tracees.is_empty() {
        let pid = unsafe { libc::waitpid(-1, &mut status, libc::__WALL) };
        if pid < 0 { break; }
        if libc::WIFEXITED(status) || libc::WIFSIGNALED(status) {
            tracees.remove(&pid);
            if pid == main { exit = if libc::WIFEXITED(status) { Some(libc::WEXITSTATUS(status)) } else { Some(128 + libc::WTERMSIG(status)) }; }
            continue;
        }
        if !libc::WIFSTOPPED(status) { continue; }
        let sig = libc::WSTOPSIG(status);
        let event = (status >> 16) & 0xffff;
        if detach.remove(&pid) || (!tracees.contains(&pid) && event == 0 && sig == libc::SIGSTOP && is_process(pid)) {
            unsafe { libc::ptrace(libc::PTRACE_DETACH, pid, 0, 0); }
            tracees.remove(&pid);
            continue;
        }
        tracees.insert(pid);
        if event != 0 {
            if event == libc::PTRACE_EVENT_FORK || event == libc::PTRACE_EVENT_VFORK {
                let mut newpid: libc::c_ulong = 0;
                unsafe { libc::ptrace(libc::PTRACE_GETEVENTMSG, pid, 0, &mut newpid as *mut _ as libc::c_long); }
                detach.insert(newpid as i32);
            }
            unsafe { libc::ptrace(libc::PTRACE_SYSCALL, pid, 0, 0); }
            continue;
        }
        if sig == (libc::SIGTRAP | 0x80) {
            let entry = !in_sys.get(&pid).copied().unwrap_or(false);
            in_sys.insert(pid, entry);
            if entry && !killed {
                let mut regs: libc::user_regs_struct = unsafe { std::mem::zeroed() };
                if unsafe { libc::ptrace(libc::PTRACE_GETREGS, pid, 0, &mut regs as *mut _ as libc::c_long) } == 0 {
                    if let Some(d) = relevant(pid, &regs) {
                        calls += 1;
                        if k != 0 && calls == k { killed = true; last = d; unsafe { libc::kill(main, libc::SIGKILL); } continue; }
                        last = d;
                    }
                }
            }
            unsafe { libc::ptrace(libc::PTRACE_SYSCALL, pid, 0, 0); }
            continue;
        }
        // signal-delivery stop: pass the signal on (the initial SIGSTOP of a new thread is swallowed)
        let pass = if sig == libc::SIGSTOP || sig == libc::SIGTRAP { 0 } else { sig };
        unsafe { libc::ptrace(libc::PTRACE_SYSCALL, pid, 0, pass as libc::c_long); }
    }
    drop(child);
    Some(Outcome { killed, calls, exit, last })
}
fn is_process(pid: i32) -> bool {
    // a thread group leader has Tgid == Pid
    std::fs::read_to_string(format!("/proc/{pid}/status")).ok().and_then(|s| s.lines().find(|l| l.starts_with("Tgid:")).and_then(|l| l[5..].trim().parse::<i32>().ok())).map(|t| t == pid).unwrap_or(false)
}
