//! directed searches for the protocol codec (C20): header codec vs its definition at the boundaries;
//! hostile frames through Codec::read_message with a tracking allocator (allocation bound, no panic).
use crate::json_u64;
use copia::{Codec, FrameHeader, Message, MessageType, PROTOCOL_MAGIC};
use std::alloc::{GlobalAlloc, Layout, System};
use std::io::Cursor;
use std::sync::atomic::{AtomicBool, AtomicUsize, Ordering};

pub struct Tracking;
static ON: AtomicBool = AtomicBool::new(false);
static MAXREQ: AtomicUsize = AtomicUsize::new(0);
unsafe impl GlobalAlloc for Tracking {
    unsafe fn alloc(&self, l: Layout) -> *mut u8 {
        if ON.load(Ordering::Relaxed) { MAXREQ.fetch_max(l.size(), Ordering::Relaxed); }
        if l.size() > (1usize << 40) { return std::ptr::null_mut(); }
        unsafe { System.alloc(l) }
    }
    unsafe fn dealloc(&self, p: *mut u8, l: Layout) { unsafe { System.dealloc(p, l) } }
    unsafe fn realloc(&self, p: *mut u8, l: Layout, n: usize) -> *mut u8 {
        if ON.load(Ordering::Relaxed) { MAXREQ.fetch_max(n, Ordering::Relaxed); }
        if n > (1usize << 40) { return std::ptr::null_mut(); }
        unsafe { System.realloc(p, l, n) }
    }
}

const MAX: u32 = 16 * 1024 * 1024;
const TYPES: [MessageType; 7] = [MessageType::SignatureRequest, MessageType::SignatureResponse, MessageType::DeltaData, MessageType::Ack, MessageType::Error, MessageType::Ping, MessageType::Pong];

fn header_case(len: u32, ty: usize, version: u8, magic0: u8) -> Option<String> {
    let mut h = FrameHeader::new(TYPES[ty % 7], len);
    h.version = version;
    h.magic[0] = magic0;
    let valid = h.magic == PROTOCOL_MAGIC && version == 1 && len <= MAX;
    let r = std::panic::catch_unwind(|| {
        let v = h.validate().is_ok();
        if v != valid { return Some(format!("FrameHeader::validate on (len {len}, version {version}, magic[0] {magic0:#x}) is_ok = {v}, definition says {valid}")); }
        if h.magic == PROTOCOL_MAGIC {
            let b = h.encode();
            if &b[0..4] != b"COPA" || b[9] != version || u32::from_le_bytes([b[4], b[5], b[6], b[7]]) != len { return Some("encoded header layout is wrong".into()); }
            match FrameHeader::decode(&b) {
                Ok(d) => { if !valid { return Some(format!("decode accepted an invalid header (len {len}, version {version})")); } if d != h { return Some("decode(encode(h)) != h".into()); } }
                Err(_) => { if valid { return Some(format!("decode(encode(h)) is an error for the valid header with payload length {len}")); } }
            }
        }
        None
    });
    match r { Ok(x) => x, Err(_) => Some(format!("header codec panicked (len {len}, version {version})")) }
}

pub fn search_header() -> i32 {
    for &len in &[0u32, 1, 4096, MAX - 1, MAX, MAX + 1, u32::MAX] {
        for ty in 0..7 { for &ver in &[1u8, 0, 2] { for &m0 in &[b'C', b'X'] {
            if let Some(what) = header_case(len, ty, ver, m0) {
                println!("WITNESS {{\"kind\":\"header\",\"len\":{len},\"ty\":{ty},\"ver\":{ver},\"m0\":{m0},\"what\":\"{}\"}}", what.replace('"', "'"));
                return 1;
            }
        }}}
    }
    // unknown type codes must be errors
    for code in [0u8, 8, 0xFF] {
        let mut b = FrameHeader::new(MessageType::Ping, 0).encode();
        b[8] = code;
        if FrameHeader::decode(&b).is_ok() { println!("WITNESS {{\"kind\":\"header\",\"len\":0,\"ty\":{code},\"ver\":1,\"m0\":67,\"what\":\"decode accepted the unknown type code {code}\"}}"); return 1; }
    }
    0
}
pub fn run_header(w: &str) -> i32 {
    match header_case(json_u64(w, "len").unwrap_or(0) as u32, json_u64(w, "ty").unwrap_or(0) as usize, json_u64(w, "ver").unwrap_or(1) as u8, json_u64(w, "m0").unwrap_or(67) as u8) {
        Some(what) => { println!("REPRODUCED: {what}"); 1 }
        None => { println!("not reproduced"); 0 }
    }
}

/// hostile frame: valid header (type, declared len), payload = bincode of Error{code, message} with the string
/// length field overwritten by `slen`, padded to `declared` bytes
fn hostile_frame(declared: u32, slen: u64) -> Vec<u8> {
    let mut payload = bincode::serialize(&Message::Error { code: 7, message: "x".into() }).unwrap_or_default();
    // layout: variant u32 | code u32 | string len u64 | bytes
    if payload.len() >= 16 { payload[8..16].copy_from_slice(&slen.to_le_bytes()); }
    payload.resize(declared as usize, b'a');
    let mut f = FrameHeader::new(MessageType::Error, declared).encode().to_vec();
    f.extend_from_slice(&payload);
    f
}
fn codec_case(declared: u32, slen: u64, default_codec: bool) -> Option<String> {
    let frame = hostile_frame(declared, slen);
    MAXREQ.store(0, Ordering::Relaxed);
    ON.store(true, Ordering::Relaxed);
    let r = std::panic::catch_unwind(|| {
        let mut c = if default_codec { Codec::default() } else { Codec::new() };
        c.read_message(&mut Cursor::new(&frame)).is_ok()
    });
    ON.store(false, Ordering::Relaxed);
    let peak = MAXREQ.load(Ordering::Relaxed);
    match r {
        Err(_) => Some(format!("Codec::read_message PANICKED on a frame with declared length {declared} and embedded string length {slen}")),
        Ok(_) if peak > (MAX as usize) + (1 << 20) => Some(format!("Codec::read_message requested a single allocation of {peak} bytes (> 16 MiB bound) for a frame with declared length {declared}, embedded string length {slen}")),
        Ok(true) if slen > declared as u64 => Some("a frame whose embedded string is longer than the frame decoded successfully".into()),
        _ => None,
    }
}
/// write_message then read_message returns the message, for payload sizes at and around k * 64 KiB, and the NEXT frame on the
/// same stream is still readable (C20 round trip through the framed codec)
fn roundtrip_case(msg_len: usize) -> Option<String> {
    let m = Message::Error { code: 9, message: "e".repeat(msg_len) };
    let mut wire = vec![];
    let mut c = Codec::new();
    if c.write_message(&mut wire, &m).is_err() { return None; }
    let payload = wire.len().saturating_sub(12);
    if c.write_message(&mut wire, &Message::Ping { seq: 7 }).is_err() { return None; }
    let mut cur = Cursor::new(&wire);
    let mut rd = Codec::new();
    match rd.read_message(&mut cur) {
        Ok(Message::Error { code: 9, message }) if message.len() == msg_len => {}
        Ok(_) => return Some(format!("a frame with a {payload}-byte payload decodes to a different message")),
        Err(e) => return Some(format!("a frame that write_message produced ({payload}-byte payload) is rejected by read_message: {e}")),
    }
    match rd.read_message(&mut cur) { Ok(Message::Ping { seq: 7 }) => None, o => Some(format!("after a {payload}-byte frame the next frame on the stream is not readable: {:?}", o.map(|_| "another message").map_err(|e| e.to_string()))) }
}
pub fn search_codec() -> i32 {
    // string length such that the bincode payload (4 + 4 + 8 + n bytes) is exactly k * 65536, and its neighbours
    for k in [1usize, 2, 3, 16] { for d in [-1i64, 0, 1] {
        let n = (k * 65536) as i64 - 16 + d;
        if let Some(what) = roundtrip_case(n as usize) { println!("WITNESS {{\"kind\":\"codec-rt\",\"n\":{n},\"what\":\"{}\"}}", what.replace('"', "'")); return 1; }
    } }
    for &declared in &[32u32, 4000, 8192, 100_000, MAX] {
        for &slen in &[1u64, 64 << 20, 1 << 40, u64::MAX / 2, u64::MAX] {
            for dc in [false, true] {
                if let Some(what) = codec_case(declared, slen, dc) {
                    println!("WITNESS {{\"kind\":\"codec\",\"declared\":{declared},\"slen\":{slen},\"dc\":{},\"what\":\"{}\"}}", dc as u8, what.replace('"', "'"));
                    return 1;
                }
            }
        }
    }
    0
}
pub fn run_codec_rt(w: &str) -> i32 {
    match roundtrip_case(json_u64(w, "n").unwrap_or(0) as usize) { Some(what) => { println!("REPRODUCED: {what}"); 1 } None => { println!("not reproduced"); 0 } }
}
pub fn run_codec(w: &str) -> i32 {
    match codec_case(json_u64(w, "declared").unwrap_or(32) as u32, json_u64(w, "slen").unwrap_or(1), json_u64(w, "dc").unwrap_or(0) == 1) {
        Some(what) => { println!("REPRODUCED: {what}"); 1 }
        None => { println!("not reproduced"); 0 }
    }
}
