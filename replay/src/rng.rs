/// splitmix64 — deterministic, seedable, no dependency
pub struct Rng(pub u64);
impl Rng {
    pub fn next(&mut self) -> u64 {
        self.0 = self.0.wrapping_add(0x9E37_79B9_7F4A_7C15);
        let mut z = self.0;
        z = (z ^ (z >> 30)).wrapping_mul(0xBF58_476D_1CE4_E5B9);
        z = (z ^ (z >> 27)).wrapping_mul(0x94D0_49BB_1331_11EB);
        z ^ (z >> 31)
    }
    pub fn below(&mut self, n: u64) -> u64 {
        if n == 0 { 0 } else { self.next() % n }
    }
    pub fn byte_biased(&mut self) -> u8 {
        match self.below(6) {
            0 => 0xFF,
            1 => 0,
            2 => 0xFE,
            _ => self.next() as u8,
        }
    }
}
