//! witness search for `glob_match` (C15/C19): reference = the recursive wildcard semantics
use crate::{json_str};
use crate::cli::plan::glob_match;

pub fn gm(p: &[char], t: &[char]) -> bool {
    // dp[i][j] = p[i..] matches t[j..]
    let (n, m) = (p.len(), t.len());
    let mut dp = vec![vec![false; m + 1]; n + 1];
    dp[n][m] = true;
    for i in (0..n).rev() {
        for j in (0..=m).rev() {
            dp[i][j] = if p[i] == '*' {
                dp[i + 1][j] || (j < m && dp[i][j + 1])
            } else {
                j < m && (p[i] == '?' || p[i] == t[j]) && dp[i + 1][j + 1]
            };
        }
    }
    dp[0][0]
}

fn strings(alpha: &[char], maxlen: usize) -> Vec<String> {
    let mut out = vec![String::new()];
    let mut lo = 0;
    for _ in 0..maxlen {
        let hi = out.len();
        for i in lo..hi {
            for &c in alpha {
                let mut s = out[i].clone();
                s.push(c);
                out.push(s);
            }
        }
        lo = hi;
    }
    out
}

fn check(p: &str, t: &str) -> Option<String> {
    let pc: Vec<char> = p.chars().collect();
    let tc: Vec<char> = t.chars().collect();
    let exp = gm(&pc, &tc);
    let got = std::panic::catch_unwind(|| glob_match(p, t));
    match got {
        Err(_) => Some(format!("glob_match({p:?}, {t:?}) panicked")),
        Ok(g) if g != exp => Some(format!("glob_match({p:?}, {t:?}) = {g}, wildcard semantics say {exp}")),
        _ => None,
    }
}

pub fn search(_seed: u64, _budget: u64) -> i32 {
    let alpha = ['a', '*', '?', 'b', '.', '/'];
    let pats = strings(&alpha, 4);
    let texts = strings(&alpha, 4);
    for p in &pats {
        for t in &texts {
            if let Some(what) = check(p, t) {
                println!("WITNESS {{\"kind\":\"glob\",\"pat\":\"{}\",\"text\":\"{}\",\"what\":\"{}\"}}", p, t, what.replace('"', "'"));
                return 1;
            }
        }
    }
    // `?` is one CHARACTER: names and patterns with 2-, 3- and 4-byte characters
    let ualpha = ['a', '?', '*', '\u{e9}', '\u{6587}', '\u{1F600}'];
    let (upats, utexts) = (strings(&ualpha, 3), strings(&['a', '\u{e9}', '\u{6587}', '\u{1F600}', '?'], 3));
    for p in &upats { for t in &utexts {
        if let Some(what) = check(p, t) {
            println!("WITNESS {{\"kind\":\"glob\",\"pat\":\"{}\",\"text\":\"{}\",\"what\":\"{}\"}}", p, t, what.replace('"', "'"));
            return 1;
        }
    } }
    0
}

pub fn run(w: &str) -> i32 {
    let p = json_str(w, "pat").unwrap_or_default();
    let t = json_str(w, "text").unwrap_or_default();
    match check(&p, &t) {
        Some(what) => { println!("REPRODUCED: {what}"); 1 }
        None => { println!("not reproduced: glob_match({p:?}, {t:?}) agrees with the wildcard semantics"); 0 }
    }
}
