//! session oracle for `copia serve` on the REAL binary ($COPIA_BIN): one or several server processes on one hub root,
//! driven over their stdin/stdout with real frames. Witnesses for C03 / C10 / C11 / C12 obligations.
//! Interleavings are forced deterministically: a server is parked mid-Put by withholding the rest of its content,
//! or inside its critical section by holding the flock on <root>/.copia/commit.lock from the harness.
use crate::cli::wire::{read_frame, write_frame, Hash, Request, Response, MAGIC};
use crate::json_u64;
use fs2::FileExt;
use std::io::{BufReader, Read, Write};
use std::path::{Path, PathBuf};
use std::process::{Child, ChildStdin, ChildStdout, Command, Stdio};
use std::sync::mpsc;
use std::time::Duration;

fn h(b: &[u8]) -> Hash { *blake3::hash(b).as_bytes() }

struct Srv { child: Child, w: ChildStdin, r: BufReader<ChildStdout> }
impl Srv {
    fn start(root: &Path) -> Option<Srv> {
        let b = std::env::var("COPIA_BIN").ok()?;
        let mut child = Command::new(b).arg("serve").arg(root).stdin(Stdio::piped()).stdout(Stdio::piped()).stderr(Stdio::null()).env("RUST_BACKTRACE", "0").spawn().ok()?;
        let w = child.stdin.take()?;
        let r = BufReader::new(child.stdout.take()?);
        Some(Srv { child, w, r })
    }
    fn magic(&mut self) { let _ = self.w.write_all(MAGIC); let _ = self.w.flush(); }
    fn send(&mut self, r: &Request) -> bool { write_frame(&mut self.w, r).is_ok() }
    fn raw(&mut self, b: &[u8]) -> bool { self.w.write_all(b).is_ok() && self.w.flush().is_ok() }
    /// receive one response with a timeout (a hung server is a finding, not a hang of the harness)
    fn recv(&mut self, secs: u64) -> Option<Response> {
        // read on this thread is blocking; use the child's liveness + a helper thread over a raw fd clone
        let (tx, rx) = mpsc::channel();
        let r: *mut BufReader<ChildStdout> = &mut self.r;
        let rp = r as usize;
        std::thread::spawn(move || {
            // SAFETY-free alternative is not available for a borrowed reader; the harness joins before reuse
            let rr = unsafe_reader(rp);
            let _ = tx.send(read_frame::<_, Response>(rr).ok().flatten());
        });
        rx.recv_timeout(Duration::from_secs(secs)).ok().flatten()
    }
    fn put(&mut self, path: &str, expected: Option<Hash>, content: &[u8]) -> Option<Response> {
        self.send(&Request::Put { path: path.into(), expected, len: content.len() as u64, hash: h(content) });
        self.raw(content);
        self.recv(10)
    }
    fn get(&mut self, path: &str) -> Option<(u64, Hash, Vec<u8>)> {
        self.send(&Request::Get { path: path.into() });
        match self.recv(10)? { Response::Content { len, hash } => { let mut v = vec![0u8; len as usize]; self.r.read_exact(&mut v).ok()?; Some((len, hash, v)) } _ => None }
    }
    fn close_and_wait(mut self, secs: u64) -> Option<i32> {
        drop(self.w);
        for _ in 0..secs * 20 { if let Ok(Some(st)) = self.child.try_wait() { return st.code().or(Some(-9)); } std::thread::sleep(Duration::from_millis(50)); }
        let _ = self.child.kill();
        None
    }
}
#[allow(clippy::mut_from_ref)]
fn unsafe_reader(p: usize) -> &'static mut BufReader<ChildStdout> {
    // the replay crate is test tooling (not the verified code); the pointer is only used while `recv` waits on it
    #[allow(unsafe_code)]
    unsafe { &mut *(p as *mut BufReader<ChildStdout>) }
}

fn root(tagx: &str) -> PathBuf {
    let d = std::env::temp_dir().join(format!("copia-verif-serve-{}-{}", std::process::id(), tagx));
    let _ = std::fs::remove_dir_all(&d);
    let _ = std::fs::create_dir_all(&d);
    d
}
fn live_files(r: &Path) -> Vec<(String, Vec<u8>)> {
    fn walk(root: &Path, d: &Path, out: &mut Vec<(String, Vec<u8>)>) {
        if let Ok(rd) = std::fs::read_dir(d) { for e in rd.flatten() { let p = e.path(); let rel = p.strip_prefix(root).map(|x| x.to_string_lossy().into_owned()).unwrap_or_default();
            if Path::new(&rel).starts_with(".copia") { continue; }
            if p.is_dir() { walk(root, &p, out) } else if let Ok(b) = std::fs::read(&p) { out.push((rel, b)); } } }
    }
    let mut v = vec![]; walk(r, r, &mut v); v.sort(); v
}

pub fn scenarios() -> Vec<(&'static str, fn() -> Option<String>)> {
    vec![
        ("refused-put-keeps-stream-in-step (C11/C12)", sc_refused_put_in_step),
        ("path-escape (C11)", sc_path_escape),
        ("short-content-then-eof-terminates (C12)", sc_short_content_eof),
        ("bad-prologue-touches-nothing (C12)", sc_bad_prologue),
        ("oversize-frame-rejected (C12)", sc_oversize_frame),
        ("cas-under-lock (C03)", sc_cas_under_lock),
        ("committed-means-live (C03, H9)", sc_committed_means_live),
        ("concurrent-puts-same-path (C10, H10)", sc_concurrent_same_path),
        ("concurrent-puts-same-basename (C10)", sc_concurrent_same_basename),
        ("delete-during-put (C03)", sc_delete_during_put),
        ("leftover-staging-longer-than-rewrite (C10)", sc_leftover_staging),
        ("hash-mismatch-changes-nothing (C10)", sc_hash_mismatch),
        ("get-announces-what-it-streams (C10, H11)", sc_get_consistent),
        ("lock-file-is-not-client-addressable (C03, H14)", sc_lock_file_addressable),
        ("committed-content-is-the-streamed-content (C10)", sc_content_shapes),
        ("hostile-cbor-under-a-memory-limit (C12)", sc_hostile_cbor),
        ("one-file-two-spellings (C03)", sc_two_spellings),
        ("root-spellings-stay-inside (C11)", sc_root_spellings),
        ("long-non-ascii-names (C12)", sc_long_names),
        ("another-servers-same-length-same-second-commit-is-seen (C03)", sc_stale_view),
        ("a-put-parked-mid-body-decides-on-the-file-as-it-is-under-the-lock (C03)", sc_stale_midput),
        ("refused-path-of-600k-escapable-bytes-still-answered (C11/C12)", sc_long_refused_path),
        ("put-under-a-file-keeps-stream-in-step (C12)", sc_parent_is_a_file),
        ("every-two-step-history-on-one-path-is-the-sequential-cas (C03)", sc_exhaustive_two_steps),
        ("a-frame-cut-short-by-eof-is-not-executed (C12)", sc_torn_frame),
        ("two-stale-losers-keep-both-versions (C03/C13)", sc_two_losers),
        ("names-at-the-directory-entry-limit (C10)", sc_names_at_name_max),
        ("get-of-every-listed-path-hashes-to-what-it-announces (C10)", sc_get_every_listed),
    ]
}

fn sc_refused_put_in_step() -> Option<String> {
    for &n in &[16usize, 3000, 20_000, 100_000] {
        let r = root(&format!("step{n}")); std::fs::write(r.join("inside.txt"), b"inside").ok()?;
        let mut s = Srv::start(&r)?; s.magic();
        let body = vec![b'x'; n];
        for bad in ["../evil", "/abs/evil", "//tmp/../evil", ".copia/commit.lock", ".copia/evil", "./.copia/x"] {
            s.send(&Request::Put { path: bad.into(), expected: None, len: n as u64, hash: h(&body) }); s.raw(&body);
            match s.recv(10) { Some(Response::Error(_)) => {} o => return Some(format!("Put with path {bad:?} and a {n}-byte body: expected an Error reply, got {o:?} (C11)")) }
            match s.get("inside.txt") { Some((6, hh, v)) if v == b"inside" && hh == h(b"inside") => {}
                o => return Some(format!("after a refused Put ({bad:?}, {n}-byte body) the next request (Get inside.txt) did not get its normal reply: {:?} - the stream is out of step (C11/C12)", o.map(|x| x.0))) }
        }
        let _ = s.close_and_wait(5); let _ = std::fs::remove_dir_all(&r);
    }
    None
}
fn sc_path_escape() -> Option<String> {
    let base = root("esc"); let r = base.join("hub"); let out = base.join("outside"); std::fs::create_dir_all(&r).ok()?; std::fs::create_dir_all(&out).ok()?;
    std::fs::write(out.join("secret"), b"TOP-SECRET").ok()?;
    let o = out.to_string_lossy().into_owned();
    let mut s = Srv::start(&r)?; s.magic();
    for p in [format!("../outside/secret"), format!("{o}/secret"), format!(".//{o}/secret"), format!("././/{o}/secret"), format!("a/../../outside/secret"), format!("./..//outside/secret"), format!("x/./../..{o}/secret"),
        "..\\outside\\secret".to_string(), ".\\..\\outside\\secret".to_string(), "sub/..\\..\\outside\\secret".to_string(), "sub\\..\\..\\outside\\secret".to_string(), "..\\outside/secret".to_string()] {
        if let Some((_, _, v)) = s.get(&p) { if v == b"TOP-SECRET" { return Some(format!("Get {p:?} returned a file from OUTSIDE the served directory (C11)")); } }
        let body = b"planted";
        let _ = s.put(&p.replace("secret", "planted"), None, body);
        if out.join("planted").exists() { return Some(format!("Put {:?} created a file OUTSIDE the served directory (C11)", p.replace("secret", "planted"))); }
        s.send(&Request::Delete { path: p.clone(), expected: Some(h(b"TOP-SECRET")) }); let _ = s.recv(10);
        if !out.join("secret").exists() { return Some(format!("Delete {p:?} removed a file OUTSIDE the served directory (C11)")); }
    }
    let _ = s.close_and_wait(5); let _ = std::fs::remove_dir_all(&base);
    None
}
fn sc_short_content_eof() -> Option<String> {
    // (a) the announced hash is the hash of exactly the bytes that arrive before EOF; (b) EOF after 1, 2, 3 bytes of a length prefix
    for (ex, case) in [(None, "to a fresh path"), (Some(h(b"stale")), "with a stale expected")] {
        let r = root("eofh"); std::fs::write(r.join("other"), b"other").ok()?; let mut s = Srv::start(&r)?; s.magic();
        let part = vec![b'p'; 300];
        s.send(&Request::Put { path: "f".into(), expected: ex, len: 5000, hash: h(&part) }); s.raw(&part);
        let code = s.close_and_wait(10);
        let live: Vec<(String, Vec<u8>)> = live_files(&r).into_iter().filter(|(p, _)| !p.ends_with(".copia-tmp")).collect();
        let _ = std::fs::remove_dir_all(&r);
        if code.is_none() { return Some("input closed after 300 of 5000 declared content bytes: the server is still running 10 s later (C12)".into()); }
        if live != vec![("other".to_string(), b"other".to_vec())] { return Some(format!("a Put {case} announced 5000 bytes and the hash of the 300 that arrived before EOF: afterwards the tree holds {:?} - bytes nobody sent (padding) or an incomplete body were published (C10)", live.iter().map(|(p, c)| (p.clone(), c.len())).collect::<Vec<_>>())); }
    }
    for n in 1..=3usize {
        let r = root("eofp"); let mut s = Srv::start(&r)?; s.magic();
        s.send(&Request::List); let _ = s.recv(10);
        s.raw(&[0u8, 0, 0, 9][..n]);
        if s.close_and_wait(8).is_none() { return Some(format!("input closed after {n} of the 4 bytes of a frame's length prefix: the server is still running 8 s later (it spins on end of input) (C12)")); }
        let _ = std::fs::remove_dir_all(&r);
    }
    let r = root("eof"); let mut s = Srv::start(&r)?; s.magic();
    let body = vec![b'z'; 1000];
    s.send(&Request::Put { path: "f".into(), expected: None, len: 1000, hash: h(&body) }); s.raw(&body[..100]);
    match s.close_and_wait(10) { None => Some("input closed after 100 of 1000 declared content bytes: the server is still running 10 s later (spins after its input is closed) (C12)".into()),
        Some(_) => { if live_files(&r).iter().any(|(p, _)| p == "f") { Some("a Put whose content was cut short published the live path (C10)".into()) } else { None } } }
}
fn sc_bad_prologue() -> Option<String> {
    let r = root("magic"); std::fs::write(r.join("keep"), b"keep").ok()?;
    let mut s = Srv::start(&r)?;
    s.raw(b"Welcome to host!\nCOPIA1");
    s.send(&Request::Delete { path: "keep".into(), expected: Some(h(b"keep")) });
    let code = s.close_and_wait(10);
    if code.is_none() { return Some("bad prologue: server did not exit after its input closed (C12)".into()); }
    if code == Some(101) || code == Some(134) || code == Some(-9) { return Some(format!("bad prologue: server crashed with status {code:?} (C12)")); }
    if std::fs::read(r.join("keep")).ok().as_deref() != Some(b"keep") { return Some("a request after a bad prologue changed the served tree (C12)".into()); }
    None
}
fn sc_oversize_frame() -> Option<String> {
    for len in [(1u32 << 20) + 1, u32::MAX] {
        let r = root(&format!("big{len}")); let mut s = Srv::start(&r)?; s.magic();
        s.raw(&len.to_be_bytes()); s.raw(&[0u8; 64]);
        let code = s.close_and_wait(10);
        if code.is_none() { return Some(format!("length prefix {len}: server hangs (C12)")); }
        if code == Some(101) || code == Some(134) || code == Some(-9) { return Some(format!("length prefix {len}: server crashed / was killed (status {code:?}) instead of reporting an error (C12)")); }
    }
    None
}
fn sc_cas_under_lock() -> Option<String> {
    let r = root("cas"); std::fs::create_dir_all(r.join(".copia")).ok()?; std::fs::write(r.join("doc"), b"X").ok()?;
    let lock = std::fs::OpenOptions::new().create(true).truncate(false).write(true).open(r.join(".copia/commit.lock")).ok()?;
    lock.lock_exclusive().ok()?;
    let (mut s1, mut s2) = (Srv::start(&r)?, Srv::start(&r)?); s1.magic(); s2.magic();
    for (s, c) in [(&mut s1, b"ONE".as_slice()), (&mut s2, b"TWO".as_slice())] { s.send(&Request::Put { path: "doc".into(), expected: Some(h(b"X")), len: 3, hash: h(c) }); s.raw(c); }
    std::thread::sleep(Duration::from_millis(700));       // both are now parked on the commit lock
    let _ = fs2::FileExt::unlock(&lock);
    let (a, b) = (s1.recv(10), s2.recv(10));
    let n = [&a, &b].iter().filter(|x| matches!(x, Some(Response::PutResult { committed: true, .. }))).count();
    let _ = s1.close_and_wait(5); let _ = s2.close_and_wait(5);
    if n != 1 { return Some(format!("two servers each got Put(doc, expected = hash of the content both saw): {n} of them answered committed:true - exactly one may commit (lost update) (C03)")); }
    None
}
/// C03 across server processes on ONE connection each: server 2 looks at `doc` (a refused Delete), server 1 then commits a
/// replacement of the SAME LENGTH within the SAME wall-clock second; server 2's next compare-and-swap against the old hash
/// must be refused - its decision has to come from the file as it is under the lock, not from anything it saw earlier
fn sc_stale_view() -> Option<String> {
    for round in 0..2 {
        let r = root(&format!("stale{round}"));
        let (mut s1, mut s2) = (Srv::start(&r)?, Srv::start(&r)?); s1.magic(); s2.magic();
        // warm both servers up, then start right after a second boundary so that everything below shares one mtime second
        let _ = s1.get("nothing"); let _ = s2.get("nothing");
        let ms = std::time::SystemTime::now().duration_since(std::time::UNIX_EPOCH).ok()?.subsec_millis();
        std::thread::sleep(Duration::from_millis(u64::from(1000 - ms) + 20));
        std::fs::write(r.join("doc"), b"XXXX").ok()?;
        s2.send(&Request::Delete { path: "doc".into(), expected: Some(h(b"not-the-content")) });
        match s2.recv(10) { Some(Response::DeleteResult { deleted: false, .. }) => {} o => return Some(format!("Delete(doc, expected = a wrong hash) was not refused: {o:?} (C03)")) }
        match s1.put("doc", Some(h(b"XXXX")), b"YYYY") { Some(Response::PutResult { committed: true, .. }) => {} o => return Some(format!("Put(doc, expected = hash of the live content) did not commit: {o:?} (C03)")) }
        let took = std::time::SystemTime::now().duration_since(std::time::UNIX_EPOCH).ok()?.subsec_millis();
        if round == 0 {
            let a = s2.put("doc", Some(h(b"XXXX")), b"ZZZZ");
            let live = std::fs::read(r.join("doc")).unwrap_or_default();
            if matches!(a, Some(Response::PutResult { committed: true, .. })) || live != b"YYYY" {
                return Some(format!("server 1 committed YYYY over XXXX (same length, same second; {took} ms into the second); server 2, which had looked at the file before, then got Put(doc, expected = hash of XXXX) and answered {a:?}; the file now holds {:?} - a commit against a hash the file no longer has (lost update) (C03)", String::from_utf8_lossy(&live)));
            }
        } else {
            s2.send(&Request::Delete { path: "doc".into(), expected: Some(h(b"XXXX")) });
            let a = s2.recv(10);
            if matches!(a, Some(Response::DeleteResult { deleted: true, .. })) || !r.join("doc").exists() {
                return Some(format!("server 1 committed YYYY over XXXX (same length, same second); server 2, which had looked at the file before, then got Delete(doc, expected = hash of XXXX) and answered {a:?}; file still there: {} (C03)", r.join("doc").exists()));
            }
        }
        let _ = s1.close_and_wait(5); let _ = s2.close_and_wait(5); let _ = std::fs::remove_dir_all(&r);
    }
    None
}
/// C11/C12: a refused path is still answered, whatever it is made of: ~600 KB of bytes that a debug rendering would each
/// blow up (quotes, control characters), in a request frame that is itself within the 1 MiB limit
fn sc_long_refused_path() -> Option<String> {
    let r = root("longbad"); std::fs::write(r.join("inside.txt"), b"inside").ok()?;
    let mut s = Srv::start(&r)?; s.magic();
    for (what, p) in [("600000 double quotes after a leading slash", format!("/{}", "\"".repeat(600_000))), ("../ followed by 250000 U+0001 characters", format!("../{}", "\u{1}".repeat(250_000))), ("/ followed by 500000 backslashes", format!("/{}", "\\".repeat(500_000)))] {
        for kind in 0..3 {
            match kind {
                0 => { s.send(&Request::Get { path: p.clone() }); }
                1 => { s.send(&Request::Delete { path: p.clone(), expected: None }); }
                _ => { let body = vec![b'b'; 5000]; s.send(&Request::Put { path: p.clone(), expected: None, len: 5000, hash: h(&body) }); s.raw(&body); }
            }
            let kn = ["Get", "Delete", "Put"][kind];
            match s.recv(15) { Some(Response::Error(_)) => {} o => return Some(format!("{kn} with a refused path ({what}; the request frame is {} bytes, below the 1 MiB limit): expected an Error reply, got {} (C11)", p.len() + 64, match o { None => "NO reply (the server stopped answering)".to_string(), Some(x) => format!("{x:?}").chars().take(80).collect() })) }
            match s.get("inside.txt") { Some((6, _, v)) if v == b"inside" => {}
                o => return Some(format!("after the refused {kn} ({what}) the next request (Get inside.txt) did not get its normal reply: {:?} - the session is lost (C12)", o.map(|x| x.0))) }
        }
    }
    let _ = s.close_and_wait(5); let _ = std::fs::remove_dir_all(&r);
    None
}
/// C12: a Put whose parent directory cannot be made (a FILE is in the way). Whatever the server answers, the announced
/// content bytes are content: they are never read as requests. The body here is itself a well-formed Delete frame.
fn sc_parent_is_a_file() -> Option<String> {
    for depth in ["blocker/x.bin", "blocker/sub/dir/x.bin"] {
        let r = root("parentfile"); std::fs::write(r.join("blocker"), b"i am a file").ok()?; std::fs::write(r.join("keep.txt"), b"keep me").ok()?;
        let mut s = Srv::start(&r)?; s.magic();
        let mut body: Vec<u8> = vec![];
        write_frame(&mut body, &Request::Delete { path: "keep.txt".into(), expected: Some(h(b"keep me")) }).ok()?;
        s.send(&Request::Put { path: depth.into(), expected: None, len: body.len() as u64, hash: h(&body) }); s.raw(&body);
        let a = s.recv(10);
        if a.is_some() {
            // the server chose to answer: then the session goes on, and it must go on IN STEP
            match s.get("keep.txt") { Some((7, _, v)) if v == b"keep me" => {}
                o => return Some(format!("Put({depth:?}) under a path that is a FILE was answered {a:?}; the next request (Get keep.txt) then got {:?} instead of its content - the Put's content bytes were taken for a request (C12)", o.map(|x| x.0))) }
        }
        let _ = s.close_and_wait(5);
        if std::fs::read(r.join("keep.txt")).ok().as_deref() != Some(b"keep me") { return Some(format!("Put({depth:?}) under a path that is a FILE, with a body that spells a Delete frame: keep.txt was deleted - content bytes were executed as a request (C12)")); }
        if std::fs::read(r.join("blocker")).ok().as_deref() != Some(b"i am a file") { return Some(format!("Put({depth:?}): the file `blocker` in the way was changed (C12)")); }
        let _ = std::fs::remove_dir_all(&r);
    }
    None
}
/// C12: the input ends INSIDE a control frame whose length prefix announces more bytes than arrive (here: a complete CBOR message
/// followed by fewer padding bytes than announced). A frame that did not arrive completely is not a request.
fn sc_torn_frame() -> Option<String> {
    for (kind, pad, cut) in [("Delete", 8usize, 1usize), ("Delete", 64, 63), ("Put", 8, 1), ("Delete", 1, 1)] {
        let r = root("torn"); std::fs::write(r.join("keep.txt"), b"keep me").ok()?;
        let mut s = Srv::start(&r)?; s.magic();
        let mut msg: Vec<u8> = vec![];
        let body = b"torn-put-body";
        if kind == "Delete" { write_frame(&mut msg, &Request::Delete { path: "keep.txt".into(), expected: Some(h(b"keep me")) }).ok()?; }
        else { write_frame(&mut msg, &Request::Put { path: "created-by-a-torn-frame".into(), expected: None, len: body.len() as u64, hash: h(body) }).ok()?; }
        let cbor = msg[4..].to_vec();
        let announced = (cbor.len() + pad) as u32;
        let mut wire_bytes = announced.to_be_bytes().to_vec(); wire_bytes.extend_from_slice(&cbor); wire_bytes.extend(std::iter::repeat(0u8).take(pad - cut));
        s.raw(&wire_bytes);
        let code = s.close_and_wait(5);
        let live = live_files(&r);
        let _ = std::fs::remove_dir_all(&r);
        if !live.iter().any(|(p, c)| p == "keep.txt" && c == b"keep me") { return Some(format!("a {kind} frame announcing {announced} bytes of which {} arrived before EOF was EXECUTED: keep.txt is gone (server exit {code:?}) (C12)", announced as usize - cut)); }
        if live.iter().any(|(p, _)| p.starts_with("created-by-a-torn-frame")) { return Some(format!("a Put frame announcing {announced} bytes of which {} arrived before EOF was EXECUTED: the path was created (C12)", announced as usize - cut)); }
    }
    None
}
/// C10 at the longest legal names: 255 bytes (no room for any staging suffix) and 250 bytes (room for part of one). Whatever the
/// server answers, a live path only ever holds complete verified content, and only reserved staging names hold anything else.
fn sc_names_at_name_max() -> Option<String> {
    for n in [255usize, 250, 245, 236] {
        let name = "L".repeat(n);
        let r = root(&format!("namemax{n}")); std::fs::write(r.join(&name), b"the committed content").ok()?; std::fs::write(r.join("other"), b"other").ok()?;
        // (1) a Put whose content does not hash to what it announces changes nothing
        let mut s = Srv::start(&r)?; s.magic();
        s.send(&Request::Put { path: name.clone(), expected: Some(h(b"the committed content")), len: 10, hash: h(b"not-these-bytes") }); s.raw(b"0123456789");
        let _ = s.recv(10); let _ = s.close_and_wait(5);
        let live: Vec<(String, Vec<u8>)> = live_files(&r).into_iter().filter(|(p, _)| !p.ends_with(".copia-tmp")).collect();
        if live != vec![(name.clone(), b"the committed content".to_vec()), ("other".to_string(), b"other".to_vec())] {
            return Some(format!("a Put with a wrong content hash to a {n}-byte name changed the tree: now {:?} (C10)", live.iter().map(|(p, c)| (format!("{}..({} bytes)", &p[..p.len().min(12)], p.len()), c.len())).collect::<Vec<_>>())); }
        // (2) a Put killed half way: nothing but reserved staging names may hold the partial bytes
        let mut s = Srv::start(&r)?; s.magic();
        let body = vec![b'z'; 200_000];
        s.send(&Request::Put { path: name.clone(), expected: Some(h(b"the committed content")), len: body.len() as u64, hash: h(&body) }); s.raw(&body[..100_000]);
        std::thread::sleep(Duration::from_millis(300));
        let _ = s.child.kill(); let _ = s.child.wait();
        let live: Vec<(String, Vec<u8>)> = live_files(&r).into_iter().filter(|(p, _)| !p.ends_with(".copia-tmp")).collect();
        let _ = std::fs::remove_dir_all(&r);
        if live != vec![(name.clone(), b"the committed content".to_vec()), ("other".to_string(), b"other".to_vec())] {
            return Some(format!("a Put to a {n}-byte name killed half way left {:?} at names that are not reserved staging names (C10)", live.iter().map(|(p, c)| (format!("{}..({} bytes)", &p[..p.len().min(12)], p.len()), c.len())).collect::<Vec<_>>())); }
    }
    None
}
/// C13 / C03: two clients with the same stale listing both lose their compare-and-swap on one path against one commit by a
/// third: BOTH losing versions stay retrievable from the hub (neither conflict copy replaces the other)
pub fn sc_two_losers() -> Option<String> {
    let r = root("losers"); std::fs::write(r.join("doc"), b"the listed version").ok()?;
    let listed = h(b"the listed version");
    let mut res = None;
    for (i, c) in [b"committed by client C".as_slice(), b"client A1's edit", b"client A2's edit, a different one"].iter().enumerate() {
        let mut s = Srv::start(&r)?; s.magic();
        let a = s.put("doc", Some(listed), c);
        let _ = s.close_and_wait(5);
        if i == 0 && !matches!(a, Some(Response::PutResult { committed: true, .. })) { res = Some(format!("the first Put with the listed hash did not commit: {a:?} (C03)")); break; }
        if i > 0 && matches!(a, Some(Response::PutResult { committed: true, .. })) { res = Some("a Put with a stale expected hash was committed (C03)".to_string()); break; }
    }
    if res.is_none() {
        let live = live_files(&r);
        for want in [b"client A1's edit".as_slice(), b"client A2's edit, a different one"] {
            if !live.iter().any(|(_, c)| c == want) { res = Some(format!("two clients with the same stale listing lost on `doc` against one commit: {:?} is retrievable from the hub under no name afterwards (the later conflict copy replaced the earlier one); hub holds {:?} (C13)", String::from_utf8_lossy(want), live.iter().map(|(p, _)| p.clone()).collect::<Vec<_>>())); break; }
        }
        if !live.iter().any(|(p, c)| p == "doc" && c == b"committed by client C") { res = Some("the committed version is not at `doc` after two losing Puts (C13)".to_string()); }
    }
    let _ = std::fs::remove_dir_all(&r);
    res
}
fn sc_committed_means_live() -> Option<String> {
    let r = root("dir"); std::fs::create_dir_all(r.join("d")).ok()?;     // `d` is a directory: rename onto it fails
    let mut s = Srv::start(&r)?; s.magic();
    if let Some(Response::PutResult { committed: true, .. }) = s.put("d", None, b"payload") {
        if std::fs::read(r.join("d")).ok().as_deref() != Some(b"payload") { return Some("Put onto a path that is a directory was acknowledged committed:true, but the content is not live there (the failed rename is ignored) (C03)".into()); }
    }
    let _ = s.close_and_wait(5);
    None
}
/// C03: server 1 has received a Put's header (expected = hash of the live content) and HALF its body when server 2 commits
/// a replacement of the same length in the same wall-clock second; when the rest of server 1's body arrives its
/// compare-and-swap must lose (conflict copy, live file = server 2's) - whatever it looked at before it held the lock
fn sc_stale_midput() -> Option<String> {
    for (tagx, old, c1, c2) in [("mid4", b"AAAA".to_vec(), b"CCCC".to_vec(), b"BBBB".to_vec()), ("midbig", vec![b'a'; 70_000], vec![b'c'; 70_000], vec![b'b'; 70_000])] {
        let r = root(tagx);
        let (mut s1, mut s2) = (Srv::start(&r)?, Srv::start(&r)?); s1.magic(); s2.magic();
        let _ = s1.get("nothing"); let _ = s2.get("nothing");
        let ms = std::time::SystemTime::now().duration_since(std::time::UNIX_EPOCH).ok()?.subsec_millis();
        std::thread::sleep(Duration::from_millis(u64::from(1000 - ms) + 20));
        std::fs::write(r.join("f"), &old).ok()?;
        s1.send(&Request::Put { path: "f".into(), expected: Some(h(&old)), len: c1.len() as u64, hash: h(&c1) }); s1.raw(&c1[..c1.len() / 2]);
        std::thread::sleep(Duration::from_millis(250));       // server 1 is parked mid-body
        let r2 = s2.put("f", Some(h(&old)), &c2);
        let live2 = std::fs::read(r.join("f")).unwrap_or_default();
        s1.raw(&c1[c1.len() / 2..]);
        let r1 = s1.recv(10);
        let _ = s1.close_and_wait(5); let _ = s2.close_and_wait(5);
        let live = std::fs::read(r.join("f")).unwrap_or_default();
        let files = live_files(&r);
        let res = if !matches!(r2, Some(Response::PutResult { committed: true, .. })) { None }      // not the interleaving we wanted: nothing to say
            else if matches!(r1, Some(Response::PutResult { committed: true, .. })) || live != live2 {
                Some(format!("server 1 was parked mid-body of Put(f, expected = hash of the {}-byte content it could see); server 2 then committed a {}-byte replacement in the same second (acknowledged); the rest of server 1's body arrived and it answered {r1:?}; the live file changed from server 2's content: {} - a commit against a hash the file no longer had (lost update) (C03)", old.len(), live2.len(), live != live2))
            } else if matches!(r1, Some(Response::PutResult { committed: false, .. })) && !files.iter().any(|(p, b)| p.contains(".conflict-") && b == &c1) {
                Some("a Put that lost its compare-and-swap to a commit made while its body was still arriving left no conflict copy with its bytes (C03)".to_string())
            } else { None };
        let _ = std::fs::remove_dir_all(&r);
        if res.is_some() { return res; }
    }
    None
}
fn two_puts(p1: &str, p2: &str, tagx: &str) -> Option<String> {
    let r = root(tagx);
    let (mut s1, mut s2) = (Srv::start(&r)?, Srv::start(&r)?); s1.magic(); s2.magic();
    let (c1, c2) = (vec![b'X'; 10], vec![b'y'; 10]);
    s1.send(&Request::Put { path: p1.into(), expected: None, len: 10, hash: h(&c1) }); s1.raw(&c1[..5]);
    std::thread::sleep(Duration::from_millis(400));       // s1 is parked mid-stream
    let r2 = s2.put(p2, None, &c2);
    s1.raw(&c1[5..]);
    let r1 = s1.recv(10);
    let _ = s1.close_and_wait(5); let _ = s2.close_and_wait(5);
    for (p, b) in live_files(&r) {
        if p.ends_with(".copia-tmp") { continue; }
        if b != c1 && b != c2 { return Some(format!("after two overlapping Puts ({p1}, {p2}) the hub path `{p}` holds {:?}: bytes of no single verified write (replies: {r1:?} / {r2:?}) (C10)", String::from_utf8_lossy(&b))); }
    }
    for (resp, p, c) in [(&r1, p1, &c1), (&r2, p2, &c2)] {
        if let Some(Response::PutResult { committed: true, .. }) = resp {
            let livep = std::fs::read(r.join(p)).ok();
            let later_overwrote = p1 == p2 && livep.as_deref() == Some(if c == &c1 { &c2[..] } else { &c1[..] });
            if livep.as_deref() != Some(&c[..]) && !later_overwrote { return Some(format!("Put {p} was acknowledged committed:true but the live path holds {:?} (C03/C10)", livep.map(|b| String::from_utf8_lossy(&b).into_owned()))); }
        }
    }
    None
}
fn sc_concurrent_same_path() -> Option<String> { two_puts("f", "f", "same") }
fn sc_concurrent_same_basename() -> Option<String> { two_puts("d1/f", "d2/f", "base") }
fn sc_delete_during_put() -> Option<String> {
    let r = root("del"); std::fs::write(r.join("f"), b"X").ok()?;
    let (mut s1, mut s2) = (Srv::start(&r)?, Srv::start(&r)?); s1.magic(); s2.magic();
    let c = vec![b'N'; 10];
    s1.send(&Request::Put { path: "f".into(), expected: Some(h(b"X")), len: 10, hash: h(&c) }); s1.raw(&c[..5]);
    std::thread::sleep(Duration::from_millis(400));
    s2.send(&Request::Delete { path: "f".into(), expected: Some(h(b"X")) }); let _ = s2.recv(10);
    s1.raw(&c[5..]);
    let r1 = s1.recv(10);
    let _ = s1.close_and_wait(5); let _ = s2.close_and_wait(5);
    let files = live_files(&r);
    match r1 {
        Some(Response::PutResult { committed: true, .. }) => if std::fs::read(r.join("f")).ok().as_deref() != Some(&c[..]) { return Some("Put overlapped by a committed Delete was acknowledged committed:true but its bytes are not live (C03)".into()); },
        Some(Response::PutResult { committed: false, .. }) => if !files.iter().any(|(p, b)| p.contains(".conflict-") && b == &c) { return Some("Put overlapped by a committed Delete answered committed:false, but no conflict-copy holds its bytes: the write vanished (C03)".into()); },
        o => return Some(format!("Put overlapped by a Delete got no PutResult: {o:?} (C03)")),
    }
    None
}
fn sc_leftover_staging() -> Option<String> {
    let r = root("left"); std::fs::write(r.join("f.copia-tmp"), b"old-old-old-old-old-").ok()?;
    let mut s = Srv::start(&r)?; s.magic();
    let resp = s.put("f", None, b"ABCD");
    let _ = s.close_and_wait(5);
    if let Some(Response::PutResult { committed: true, .. }) = resp { if std::fs::read(r.join("f")).ok().as_deref() != Some(b"ABCD") {
        return Some(format!("a staging file left by a killed server was longer than the next Put: the published file is {:?}, not the 4 verified bytes (C10)", std::fs::read(r.join("f")).map(|b| String::from_utf8_lossy(&b).into_owned()))); } }
    None
}
fn sc_hash_mismatch() -> Option<String> {
    let r = root("mis"); std::fs::write(r.join("f"), b"orig").ok()?;
    let mut s = Srv::start(&r)?; s.magic();
    s.send(&Request::Put { path: "f".into(), expected: Some(h(b"orig")), len: 5, hash: h(b"other") }); s.raw(b"wrong");
    let resp = s.recv(10);
    let after = s.get("f");
    let _ = s.close_and_wait(5);
    if !matches!(resp, Some(Response::Error(_))) { return Some(format!("Put whose bytes do not match its declared hash was not refused: {resp:?} (C10)")); }
    if std::fs::read(r.join("f")).ok().as_deref() != Some(b"orig") { return Some("Put with a wrong hash changed the live path (C10)".into()); }
    if !matches!(after, Some((4, _, ref v)) if v == b"orig") { return Some("after a refused (hash mismatch) Put the next request did not get its normal reply (C12)".into()); }
    None
}
/// C10, fetch clause, for every kind of path a hub tree can list: regular files (empty, one byte, several read chunks), and a
/// symlink INSIDE the tree to a regular file. Whatever Get announces, the bytes it streams are that many and hash to it.
fn sc_get_every_listed() -> Option<String> {
    let r = root("getall");
    std::fs::create_dir_all(r.join("releases")).ok()?;
    std::fs::write(r.join("releases/v1.bin"), vec![1u8; 70_000]).ok()?; std::fs::write(r.join("releases/v2.bin"), vec![2u8; 280_000]).ok()?;
    std::fs::write(r.join("empty"), b"").ok()?; std::fs::write(r.join("one"), b"1").ok()?;
    std::os::unix::fs::symlink("releases/v2.bin", r.join("latest.bin")).ok()?;
    let mut s = Srv::start(&r)?; s.magic();
    s.send(&Request::List);
    let listed: Vec<String> = match s.recv(10) { Some(Response::Fingerprints(m)) => m.into_keys().collect(), o => return Some(format!("List on a tree with a symlink inside it: {o:?} (C10)")) };
    let mut res = None;
    for p in listed.iter().map(String::as_str).chain(["latest.bin", "releases/v2.bin", "empty"]) {
        s.send(&Request::Get { path: p.into() });
        match s.recv(10) {
            Some(Response::Content { len, hash }) => { let mut v = vec![0u8; len as usize]; if s.r.read_exact(&mut v).is_err() { res = Some(format!("Get {p:?} announced {len} bytes and streamed fewer (C10)")); break; }
                if h(&v) != hash { res = Some(format!("Get {p:?} announced {len} bytes and a hash; the {len} bytes it streamed do not hash to it{} (C10)", if p == "latest.bin" { " (the path is a symlink inside the tree to releases/v2.bin)" } else { "" })); break; } }
            Some(Response::Error(_)) => {}
            o => { res = Some(format!("Get {p:?}: unexpected reply {o:?} (C10)")); break; }
        }
    }
    let _ = s.close_and_wait(5); let _ = std::fs::remove_dir_all(&r);
    res
}
fn sc_get_consistent() -> Option<String> {
    // schedule: the Get server is delayed (strace fault injection) right before the open that STREAMS the file, i.e.
    // after it has taken the size and the hash; meanwhile another server commits a verified replacement
    let r = root("get"); let big = vec![b'a'; 300_000]; std::fs::write(r.join("f"), &big).ok()?;
    let b = std::env::var("COPIA_BIN").ok()?;
    let fpath = r.join("f");
    // which open of `f` streams the content? the last one a Get performs: count them on an undisturbed run first
    let count_opens = || -> Option<usize> {
        let tr = r.join(".trace"); let _ = std::fs::remove_file(&tr);
        let mut c = Command::new("strace").args(["-f", "-qq", "-o"]).arg(&tr).arg("-P").arg(&fpath).args(["-e", "trace=openat,open"]).arg(&b).arg("serve").arg(&r)
            .stdin(Stdio::piped()).stdout(Stdio::piped()).stderr(Stdio::null()).spawn().ok()?;
        let mut s = Srv { w: c.stdin.take()?, r: BufReader::new(c.stdout.take()?), child: c };
        s.magic(); let _ = s.get("f"); let _ = s.close_and_wait(5);
        let n = std::fs::read_to_string(&tr).ok()?.lines().filter(|l| l.contains("open")).count(); let _ = std::fs::remove_file(&tr);
        Some(n)
    };
    let k = count_opens()?;
    if k == 0 { return None; }
    let mut c = Command::new("strace").args(["-f", "-qq", "-o", "/dev/null"]).arg("-P").arg(&fpath).args(["-e", "trace=openat,open", "-e"]).arg(format!("inject=openat,open:delay_enter=1500000:when={k}"))
        .arg(&b).arg("serve").arg(&r).stdin(Stdio::piped()).stdout(Stdio::piped()).stderr(Stdio::null()).spawn().ok()?;
    let mut s1 = Srv { w: c.stdin.take()?, r: BufReader::new(c.stdout.take()?), child: c };
    let mut s2 = Srv::start(&r)?; s1.magic(); s2.magic();
    s1.send(&Request::Get { path: "f".into() });
    std::thread::sleep(Duration::from_millis(700));
    let newc = vec![b'b'; 123_456];
    let put = s2.put("f", Some(h(&big)), &newc);
    if !matches!(put, Some(Response::PutResult { committed: true, .. })) { let _ = s1.close_and_wait(3); return None; }
    let res = match s1.recv(15) {
        Some(Response::Content { len, hash }) => {
            let (tx, rx) = mpsc::channel();
            let rp = (&mut s1.r) as *mut BufReader<ChildStdout> as usize; let n = len as usize;
            std::thread::spawn(move || { let rr = unsafe_reader(rp); let mut buf = vec![0u8; n]; let ok = rr.read_exact(&mut buf).is_ok(); let _ = tx.send((ok, buf)); });
            match rx.recv_timeout(Duration::from_secs(6)) {
                Ok((true, buf)) => if h(&buf) != hash { Some(format!("Get announced len {len} and a hash, then streamed {len} bytes that do NOT hash to it: a Put committed between the server's size/hash/open steps (C10)")) } else { None },
                _ => Some(format!("Get announced {len} bytes but streamed fewer: the file was replaced by a committed Put between the server's size/hash steps and the open that streams it (C10)")),
            }
        }
        _ => None,
    };
    let _ = s1.child.kill(); let _ = s2.close_and_wait(3);
    res
}

fn sc_two_spellings() -> Option<String> {
    // `doc` and `./doc` are one file. S1 is delayed (strace) right before its rename, i.e. INSIDE its critical section; S2
    // then writes the same file under the other spelling with the same `expected`. Mutual exclusion must cover the FILE.
    let r = root("spell"); std::fs::write(r.join("doc"), b"X").ok()?;
    let b = std::env::var("COPIA_BIN").ok()?;
    let dbg = std::env::var("COPIA_VERIF_DEBUG").is_ok();
    let mut c = Command::new("strace").args(["-f", "-qq", "-tt", "-o", if dbg { "/tmp/s1.trace" } else { "/dev/null" }, "-e", if dbg { "trace=rename,renameat,renameat2,flock,openat,unlink" } else { "trace=rename,renameat,renameat2" }, "-e", "inject=rename,renameat,renameat2:delay_enter=1500000:when=1"])
        .arg(&b).arg("serve").arg(&r).stdin(Stdio::piped()).stdout(Stdio::piped()).stderr(Stdio::null()).spawn().ok()?;
    let mut s1 = Srv { w: c.stdin.take()?, r: BufReader::new(c.stdout.take()?), child: c };
    s1.magic();
    s1.send(&Request::Put { path: "doc".into(), expected: Some(h(b"X")), len: 3, hash: h(b"ONE") }); s1.raw(b"ONE");
    std::thread::sleep(Duration::from_millis(600));
    let mut s2 = if dbg { let mut c2 = Command::new("strace").args(["-f", "-qq", "-tt", "-o", "/tmp/s2.trace", "-e", "trace=rename,renameat,renameat2,flock,openat,unlink"]).arg(&b).arg("serve").arg(&r).stdin(Stdio::piped()).stdout(Stdio::piped()).stderr(Stdio::null()).spawn().ok()?; Srv { w: c2.stdin.take()?, r: BufReader::new(c2.stdout.take()?), child: c2 } } else { Srv::start(&r)? }; s2.magic();
    let sp = std::env::var("COPIA_VERIF_SPELL").unwrap_or("./doc".into());
    let r2 = s2.put(&sp, Some(h(b"X")), b"TWO");
    if std::env::var("COPIA_VERIF_DEBUG").is_ok() { eprintln!("debug two-spellings: r2 = {r2:?}"); }
    let r1 = s1.recv(10);
    if std::env::var("COPIA_VERIF_DEBUG").is_ok() { eprintln!("debug two-spellings: r1 = {r1:?}; files {:?}", live_files(&r).iter().map(|(p, b)| (p.clone(), String::from_utf8_lossy(b).into_owned())).collect::<Vec<_>>()); }
    let _ = s1.close_and_wait(5); let _ = s2.close_and_wait(5);
    let n = [&r1, &r2].iter().filter(|x| matches!(x, Some(Response::PutResult { committed: true, .. }))).count();
    if n == 2 { return Some(format!("Put(doc, expected = hash of X) and Put(./doc, expected = hash of X) - one file, two spellings - were BOTH acknowledged committed:true; live = {:?}: an acknowledged write was lost (C03)", std::fs::read(r.join("doc")).ok().map(|b| String::from_utf8_lossy(&b).into_owned()))); }
    None
}
fn sc_root_spellings() -> Option<String> {
    // request paths that normalise to the served directory itself: whatever the reply, nothing may appear OUTSIDE the root,
    // not even for the time a body is in flight
    let base = root("rootsp"); let hub = base.join("hub"); std::fs::create_dir_all(&hub).ok()?; std::fs::write(hub.join("inside.txt"), b"in").ok()?;
    let outside = |b: &Path| -> Vec<String> { std::fs::read_dir(b).map(|rd| rd.flatten().map(|e| e.file_name().to_string_lossy().into_owned()).filter(|n| n != "hub").collect()).unwrap_or_default() };
    let mut s = Srv::start(&hub)?; s.magic();
    for p in ["", ".", "./", ".//.", "plain.bin"] {
        s.send(&Request::Put { path: p.into(), expected: None, len: 10, hash: h(b"0123456789") }); s.raw(b"01234");
        std::thread::sleep(Duration::from_millis(150));
        let o = outside(&base);
        if !o.is_empty() { let _ = s.child.kill(); return Some(format!("while the body of Put(path = {p:?}) was in flight, {o:?} appeared NEXT TO the served directory, outside it (C11)")); }
        s.raw(b"56789");
        if s.recv(10).is_none() { return Some(format!("Put(path = {p:?}) got no reply: the connection is not usable any more (C11)")); }
        let o = outside(&base);
        if !o.is_empty() { return Some(format!("after Put(path = {p:?}), {o:?} exists outside the served directory (C11)")); }
        // the same path with a STALE `expected` (the compare-and-swap loses: whatever is kept of the content stays inside too)
        let _ = s.put(p, Some(h(b"a version nobody has")), b"content of a losing write");
        let o = outside(&base);
        if !o.is_empty() { return Some(format!("after a losing Put(path = {p:?}, expected = a stale hash), {o:?} exists outside the served directory (C11)")); }
    }
    if s.get("inside.txt").map(|x| x.2) != Some(b"in".to_vec()) { return Some("after Puts on spellings of the root, a following Get does not get its normal reply (C11)".into()); }
    let _ = s.close_and_wait(5);
    None
}
fn sc_long_names() -> Option<String> {
    // well-formed Puts whose last path component is long and not ASCII: answered (commit or error reply), never a dead server
    let r = root("longn"); let mut s = Srv::start(&r)?; s.magic();
    let names: Vec<String> = vec![format!("r{}", "\u{e9}".repeat(105)), "\u{6587}".repeat(70), "\u{e9}".repeat(105), format!("d/{}", "\u{1f600}".repeat(55)), "a".repeat(230)];
    for n in &names {
        let resp = s.put(n, None, b"payload");
        if resp.is_none() { let code = s.child.try_wait().ok().flatten().map(|st| format!("{st}")).unwrap_or("still running, silent".into()); return Some(format!("a well-formed Put with a {}-byte non-ASCII file name got no reply; server: {code} (C12)", n.len())); }
    }
    if s.get(&names[0]).is_none() && !matches!(s.put("after", None, b"x"), Some(Response::PutResult { .. })) { return Some("after long-name Puts the session is out of step (C12)".into()); }
    let _ = s.close_and_wait(5);
    None
}
fn sc_hostile_cbor() -> Option<String> {
    // well-framed (<= 1 MiB) control frames whose CBOR declares huge lengths or nests deeply, to a server with a 512 MiB
    // address-space limit: it must answer or exit with an error - never be killed, abort, panic or hang
    use std::os::unix::process::CommandExt;
    let mut payloads: Vec<(&str, Vec<u8>)> = vec![
        ("array of 2^64-1 items", { let mut v = vec![0x9b]; v.extend([0xff; 8]); v }),
        ("map of 2^64-1 pairs", { let mut v = vec![0xbb]; v.extend([0xff; 8]); v }),
        ("byte string of 2^63 bytes", { let mut v = vec![0x5b, 0x80]; v.extend([0u8; 7]); v }),
        ("text of 2^32-1 bytes", vec![0x7a, 0xff, 0xff, 0xff, 0xff]),
        ("1 000 000 nested arrays", vec![0x81; 1_000_000]),
        ("500 000 indefinite arrays", vec![0x9f; 500_000]),
        ("500 000 nested tags", vec![0xc1; 500_000]),
    ];
    // a Put whose path claims 2^63 bytes
    let mut v = vec![0xa1, 0x63]; v.extend(b"Put"); v.extend([0xa1, 0x64]); v.extend(b"path"); v.push(0x7b); v.push(0x7f); v.extend([0xff; 7]); payloads.push(("Put with a path of 2^63 bytes", v));
    let b = std::env::var("COPIA_BIN").ok()?;
    for (what, pl) in payloads {
        let r = root("hostile");
        let mut c = Command::new(&b);
        c.arg("serve").arg(&r).stdin(Stdio::piped()).stdout(Stdio::null()).stderr(Stdio::null()).env("RUST_BACKTRACE", "0");
        #[allow(unsafe_code)]
        unsafe { c.pre_exec(|| { let l = libc::rlimit { rlim_cur: 512 << 20, rlim_max: 512 << 20 }; libc::setrlimit(libc::RLIMIT_AS, &l); Ok(()) }); }
        let mut child = c.spawn().ok()?;
        { let mut w = child.stdin.take()?; let _ = w.write_all(MAGIC); let _ = w.write_all(&(pl.len() as u32).to_be_bytes()); let _ = w.write_all(&pl); }
        let mut code = None;
        for _ in 0..200 { if let Ok(Some(st)) = child.try_wait() { code = Some(st.code()); break; } std::thread::sleep(Duration::from_millis(50)); }
        let _ = std::fs::remove_dir_all(&r);
        match code {
            None => { let _ = child.kill(); return Some(format!("a {} byte control frame ({what}) makes the server hang after its input was closed (C12)", pl.len())); }
            Some(None) => return Some(format!("a {} byte control frame ({what}) gets the server killed by a signal (abort / out of memory) under a 512 MiB limit (C12)", pl.len())),
            Some(Some(c)) if c == 101 || c == 134 => return Some(format!("a {} byte control frame ({what}) makes the server panic (exit {c}) (C12)", pl.len())),
            _ => {}
        }
    }
    None
}
fn sc_content_shapes() -> Option<String> {
    // content shapes a writer might special-case: zero runs at the start, in the middle and at the END, sizes at and around
    // the 256 KiB chunk, empty content. Committed means: the live bytes ARE the streamed bytes, and Get says so.
    let r = root("shapes"); let mut s = Srv::start(&r)?; s.magic();
    let k = 256 * 1024;
    let mut shapes: Vec<(String, Vec<u8>)> = vec![("empty".into(), vec![]), ("one".into(), vec![7]), ("zeros-only".into(), vec![0; k + 5])];
    let mut v = vec![1u8; 4096]; v.extend(vec![0u8; 4 * k]); shapes.push(("data-then-zero-tail".into(), v));
    let mut v = vec![0u8; 2 * k]; v.extend(b"tail"); shapes.push(("zero-head-then-data".into(), v));
    let mut v = b"head".to_vec(); v.extend(vec![0u8; 3 * k]); v.extend(b"tail"); shapes.push(("zero-middle".into(), v));
    for d in [-1i64, 0, 1] { shapes.push((format!("chunk{d:+}"), (0..(k as i64 + d) as usize).map(|i| (i % 251) as u8).collect())); }
    let mut res = None;
    for (name, c) in &shapes {
        match s.put(name, None, c) {
            Some(Response::PutResult { committed: true, .. }) => {
                let live = std::fs::read(r.join(name)).ok();
                if live.as_deref() != Some(&c[..]) { res = Some(format!("Put `{name}` ({} bytes) was acknowledged committed:true with the declared hash, but the live file holds {} bytes that are not the streamed content (C10)", c.len(), live.map(|b| b.len()).unwrap_or(0))); break; }
                match s.get(name) { Some((len, hash, body)) if len as usize == c.len() && hash == h(c) && &body == c => {}, o => { res = Some(format!("Get `{name}` after a committed Put does not return the verified content: {:?} (C10)", o.map(|(l, _, b)| (l, b.len())))); break; } }
            }
            o => { res = Some(format!("a well-formed Put `{name}` ({} bytes) on a fresh path was not committed: {o:?} (C10)", c.len())); break; }
        }
    }
    let _ = s.close_and_wait(5);
    res
}
fn sc_lock_file_addressable() -> Option<String> {
    // schedule: S2 has OPENED the commit lock file and is delayed (strace) before flock(); meanwhile a client asks a third
    // server to Delete `.copia/commit.lock` (expected = hash of the empty file). S2 then locks the unlinked inode, and is
    // delayed again before its rename; S3 arrives, creates a NEW lock file, and runs its whole critical section inside S2's.
    let r = root("lockfile"); std::fs::create_dir_all(r.join(".copia")).ok()?; std::fs::write(r.join("doc"), b"X").ok()?;
    std::fs::write(r.join(".copia/commit.lock"), b"").ok()?;
    let b = std::env::var("COPIA_BIN").ok()?;
    let mut c = Command::new("strace").args(["-f", "-qq", "-o", "/dev/null", "-e", "trace=flock,rename,renameat,renameat2",
            "-e", "inject=flock:delay_enter=1500000:when=1", "-e", "inject=rename,renameat,renameat2:delay_enter=1500000:when=1"])
        .arg(&b).arg("serve").arg(&r).stdin(Stdio::piped()).stdout(Stdio::piped()).stderr(Stdio::null()).spawn().ok()?;
    let mut s2 = Srv { w: c.stdin.take()?, r: BufReader::new(c.stdout.take()?), child: c };
    s2.magic();
    s2.send(&Request::Put { path: "doc".into(), expected: Some(h(b"X")), len: 3, hash: h(b"TWO") }); s2.raw(b"TWO");
    std::thread::sleep(Duration::from_millis(600));        // S2 holds an open descriptor on the lock file, not yet the lock
    let mut sd = Srv::start(&r)?; sd.magic();
    sd.send(&Request::Delete { path: ".copia/commit.lock".into(), expected: Some(h(b"")) });
    let del = sd.recv(10);
    let _ = sd.close_and_wait(5);
    std::thread::sleep(Duration::from_millis(1400));       // S2 now holds the (unlinked) lock and sits before its rename
    let mut s3 = Srv::start(&r)?; s3.magic();
    let r3 = s3.put("doc", Some(h(b"X")), b"THREE");
    let r2 = s2.recv(10);
    let _ = s3.close_and_wait(5); let _ = s2.close_and_wait(5);
    let n = [&r2, &r3].iter().filter(|x| matches!(x, Some(Response::PutResult { committed: true, .. }))).count();
    if n == 2 {
        let live = std::fs::read(r.join("doc")).ok().map(|b| String::from_utf8_lossy(&b).into_owned());
        let kept = live_files(&r).iter().any(|(p, b)| p.contains(".conflict-") && (b == b"THREE" || b == b"TWO"));
        return Some(format!("a client Delete of `.copia/commit.lock` was served ({del:?}); afterwards two servers both committed Put(doc, expected = hash of X): both acknowledged committed:true, live = {live:?}, conflict copy kept = {kept} - an acknowledged write was lost (the commit lock file is client-addressable) (C03)"));
    }
    None
}

// ---- C10/C03 crash enumeration: one server, fed a whole session from a file, killed right before EVERY one of its
// file-system write calls (ptrace supervisor); then the tree is inspected and a fresh server is asked about it ----
fn crash_sessions() -> Vec<(&'static str, Vec<(&'static str, Vec<u8>)>, Vec<u8>, &'static str, Vec<u8>)> {
    // (name, initial files, session bytes, target path, new content)
    let big: Vec<u8> = (0..600_000usize).map(|i| (i % 249) as u8).collect();
    let mut out = vec![];
    let mk = |reqs: Vec<(Request, Vec<u8>)>| -> Vec<u8> { let mut v = MAGIC.to_vec(); for (r, body) in reqs { let _ = write_frame(&mut v, &r); v.extend(body); } let _ = write_frame(&mut v, &Request::Bye); v };
    out.push(("put-commits-over-existing", vec![("f", b"OLD-CONTENT".to_vec()), ("other", b"untouched".to_vec())],
              mk(vec![(Request::Put { path: "f".into(), expected: Some(h(b"OLD-CONTENT")), len: big.len() as u64, hash: h(&big) }, big.clone())]), "f", big.clone()));
    out.push(("put-creates-nested", vec![("other", b"untouched".to_vec())],
              mk(vec![(Request::Put { path: "d/e/new.bin".into(), expected: None, len: 5, hash: h(b"fresh") }, b"fresh".to_vec())]), "d/e/new.bin", b"fresh".to_vec()));
    out.push(("stale-put-lands-a-conflict-copy", vec![("f", b"OLD-CONTENT".to_vec())],
              mk(vec![(Request::Put { path: "f".into(), expected: Some(h(b"not what is there")), len: 9, hash: h(b"loser-put") }, b"loser-put".to_vec())]), "f", b"loser-put".to_vec()));
    out.push(("delete-then-put", vec![("f", b"OLD-CONTENT".to_vec())],
              mk(vec![(Request::Delete { path: "f".into(), expected: Some(h(b"OLD-CONTENT")) }, vec![]), (Request::Put { path: "f".into(), expected: None, len: 3, hash: h(b"new") }, b"new".to_vec())]), "f", b"new".to_vec()));
    out
}
pub fn crash_point(si: usize, k: usize) -> (Option<String>, bool, usize) {
    let all = crash_sessions();
    let (name, init, session, target, newc) = &all[si.min(all.len() - 1)];
    let r = root(&format!("crash{si}k{k}"));
    for (p, c) in init { let f = r.join(p); if let Some(d) = f.parent() { let _ = std::fs::create_dir_all(d); } let _ = std::fs::write(f, c); }
    let side = std::env::temp_dir().join(format!("copia-verif-serve-{}-crashio{si}k{k}", std::process::id()));
    let _ = std::fs::create_dir_all(&side);
    let (inp, outp) = (side.join("in"), side.join("out"));
    let _ = std::fs::write(&inp, session);
    let before: std::collections::BTreeMap<String, Vec<u8>> = live_files(&r).into_iter().collect();
    let mut c = Command::new(std::env::var("COPIA_BIN").unwrap_or_default());
    c.arg("serve").arg(&r).env("RUST_BACKTRACE", "0");
    if let (Ok(i), Ok(o)) = (std::fs::File::open(&inp), std::fs::File::create(&outp)) { c.stdin(i).stdout(o).stderr(Stdio::null()); }
    let Some(o) = crate::killer::run(&mut c, k) else { return (None, false, 0) };
    let calls = o.calls;
    let cleanup = |x: (Option<String>, bool, usize)| { let _ = std::fs::remove_dir_all(&r); let _ = std::fs::remove_dir_all(&side); x };
    if k == 0 || !o.killed { return cleanup((None, false, calls)); }
    let at = o.last.replace(&r.to_string_lossy().into_owned(), "");
    // what the client was told before the kill
    let replies: Vec<Response> = { let mut v = vec![]; if let Ok(f) = std::fs::File::open(&outp) { let mut br = BufReader::new(f); while let Ok(Some(x)) = read_frame::<_, Response>(&mut br) { v.push(x); } } v };
    let after: std::collections::BTreeMap<String, Vec<u8>> = live_files(&r).into_iter().filter(|(p, _)| !p.ends_with(".copia-tmp")).collect();
    for (p, v) in &after {
        let ok = before.get(p) == Some(v) || ((p == target || p.starts_with(&format!("{target}.conflict-"))) && v == newc);
        if !ok { return cleanup((Some(format!("[{name}] server killed right before its {k}-th file-system write call `{at}`: hub path `{p}` holds {} bytes that are neither what the hub had ({}) nor the complete verified content of the one write in flight ({} bytes) (C10)", v.len(), before.get(p).map(|b| format!("{} bytes", b.len())).unwrap_or("nothing".into()), newc.len())), true, calls)); }
    }
    for p in before.keys() { if !after.contains_key(p) && p != target { return cleanup((Some(format!("[{name}] server killed before call {k} `{at}`: `{p}` vanished (C10)")), true, calls)); } }
    if replies.iter().any(|x| matches!(x, Response::PutResult { committed: true, .. })) && after.get(*target) != Some(newc) {
        return cleanup((Some(format!("[{name}] server killed before call {k} `{at}`: the client had already been told committed:true, but `{target}` does not hold the acknowledged content (C03)")), true, calls));
    }
    if replies.iter().any(|x| matches!(x, Response::PutResult { committed: false, .. })) && !after.iter().any(|(p, v)| p.starts_with(&format!("{target}.conflict-")) && v == newc) {
        return cleanup((Some(format!("[{name}] server killed before call {k} `{at}`: the client had been told committed:false, but no conflict copy holds its bytes (C03)")), true, calls));
    }
    // a fresh server on the tree the kill left: it must serve exactly what is on disk, and accept a correct CAS write
    let res = (|| -> Option<String> {
        let mut s = Srv::start(&r)?; s.magic();
        if let Some(cur) = after.get(*target) {
            match s.get(target) { Some((len, hash, body)) if len as usize == cur.len() && hash == h(cur) && &body == cur => {}, o => return Some(format!("[{name}] after a kill before call {k} `{at}`, a fresh server's Get `{target}` does not return the file on disk: {:?} (C10)", o.map(|(l, _, b)| (l, b.len())))) }
        }
        match s.put(target, after.get(*target).map(|b| h(b)), b"after-the-crash") { Some(Response::PutResult { committed: true, .. }) => {}, o => return Some(format!("[{name}] after a kill before call {k} `{at}`, a correct compare-and-swap Put on `{target}` is not committed: {o:?} (C03/C10)")) }
        let _ = s.close_and_wait(5);
        None
    })();
    cleanup((res, true, calls))
}
pub fn crash_search(as_twin: bool, thorough: bool) -> i32 {
    if std::env::var("COPIA_BIN").unwrap_or_default().is_empty() { eprintln!("COPIA_BIN not set"); if as_twin { println!("CASES 0"); } return 0; }
    let mut cases = 0;
    for si in 0..crash_sessions().len() {
        let n = crash_point(si, 0).2;
        let mut reported = 0;
        let mut k = 1;
        while k <= n {
            let (w, killed, _) = crash_point(si, k);
            if killed { cases += 1; }
            if let Some(what) = w { if reported < 2 { println!("WITNESS {{\"kind\":\"serve-crash\",\"session\":{si},\"k\":{k},\"what\":\"{}\"}}", what.replace('"', "'").replace('\n', " ")); } reported += 1; }
            k += if thorough || k < 30 { 1 } else { 2 };
        }
        eprintln!("serve crash session {si}: {n} kill points, {reported} violating");
    }
    if as_twin { println!("CASES {cases}"); }
    0
}
pub fn run_crash(w: &str) -> i32 {
    let (si, k) = (json_u64(w, "session").unwrap_or(0) as usize, json_u64(w, "k").unwrap_or(1) as usize);
    match crash_point(si, k) { (Some(what), _, _) => { println!("REPRODUCED: {what}"); 1 } (None, killed, _) => { println!("not reproduced: session {si}, kill point {k} (killed: {killed}): only complete verified content at live paths, replies truthful, a fresh server serves the tree"); 0 } }
}

/// thorough tier: a random request program, its requests dealt alternately to two real server processes on one root (one
/// request at a time: the one-at-a-time execution IS the program order), checked reply by reply and tree against the
/// sequential compare-and-swap semantics of the property. Paths include refused ones; `expected` is right, stale or None.
pub fn random_program(rseed: u64) -> Option<String> {
    use std::collections::BTreeMap;
    let mut rng = crate::rng::Rng(rseed ^ 0x5E77_E000);
    let r = root(&format!("rand{rseed}"));
    let mut srv = [Srv::start(&r)?, Srv::start(&r)?];
    srv[0].magic(); srv[1].magic();
    const P: [&str; 6] = ["a", "d/b", "d/c.txt", "../x", ".copia/commit.lock", "/abs"];
    let contents: Vec<Vec<u8>> = vec![b"one".to_vec(), b"two-two".to_vec(), vec![], vec![7u8; 300_000], { let mut v = vec![1u8; 10]; v.extend(vec![0u8; 270_000]); v }];
    let mut model: BTreeMap<String, Vec<u8>> = BTreeMap::new();
    let refused = |p: &str| p.starts_with('/') || p.split('/').any(|c| c == "..") || p.split('/').find(|c| !c.is_empty() && *c != ".") == Some(".copia");
    let n = 6 + rng.below(14);
    let mut res = None;
    let mut trace = vec![];
    for step in 0..n {
        let s = &mut srv[(rng.below(2)) as usize];
        let np = if rng.below(4) == 0 { 6 } else { 3 };
        let p = P[rng.below(np) as usize];
        let cur = model.get(p).map(|b| h(b));
        let expected = match rng.below(3) { 0 => cur, 1 => Some(h(b"something stale")), _ => None };
        match rng.below(8) {
            0..=3 => {
                let c = &contents[rng.below(contents.len() as u64) as usize];
                trace.push(format!("Put({p}, {} B, expected {})", c.len(), if expected == cur { "current" } else { "stale" }));
                let got = s.put(p, expected, c);
                let want_ok = match (&got, refused(p)) {
                    (Some(Response::Error(_)), true) => true,
                    (Some(Response::PutResult { committed: true, current }), false) => { let ok = expected == cur && *current == Some(h(c)); if ok { model.insert(p.to_string(), c.clone()); } ok }
                    (Some(Response::PutResult { committed: false, current }), false) => { let ok = expected != cur && *current == cur; if ok { model.insert(format!("{p}.conflict-{}", crate::cli::wire::short_hash(&h(c))), c.clone()); } ok }
                    _ => false,
                };
                if !want_ok { res = Some(format!("step {step} {}: reply {got:?} is not the reply of the sequential compare-and-swap (hub hash was {})", trace.last().unwrap(), if cur.is_some() { "present" } else { "absent" })); break; }
            }
            4 | 5 => {
                trace.push(format!("Delete({p}, expected {})", if expected == cur { "current" } else { "stale" }));
                s.send(&Request::Delete { path: p.into(), expected });
                let got = s.recv(10);
                let ok = match (&got, refused(p)) {
                    (Some(Response::Error(_)), true) => true,
                    (Some(Response::DeleteResult { deleted: true, .. }), false) => { let ok = expected == cur; if ok { model.remove(p); } ok }
                    (Some(Response::DeleteResult { deleted: false, current }), false) => expected != cur && *current == cur,
                    _ => false,
                };
                if !ok { res = Some(format!("step {step} {}: reply {got:?} is not the reply of the sequential compare-and-swap", trace.last().unwrap())); break; }
            }
            6 => {
                trace.push(format!("Get({p})"));
                s.send(&Request::Get { path: p.into() });
                match (s.recv(10), model.get(p), refused(p)) {
                    (Some(Response::Error(_)), _, true) | (Some(Response::Error(_)), None, false) => {}
                    (Some(Response::Content { len, hash }), Some(c), false) => { let mut v = vec![0u8; len as usize]; let rd = s.r.read_exact(&mut v).is_ok(); if !rd || &v != c || hash != h(c) { res = Some(format!("step {step} Get({p}): announced {len} bytes, delivered content differs from the last committed write")); break; } }
                    (o, _, _) => { res = Some(format!("step {step} Get({p}): unexpected reply {o:?}")); break; }
                }
            }
            _ => {
                trace.push("List".into());
                s.send(&Request::List);
                match s.recv(10) {
                    Some(Response::Fingerprints(m)) => { let got: BTreeMap<String, Hash> = m.into_iter().map(|(k, f)| (k, f.blake3)).collect(); let want: BTreeMap<String, Hash> = model.iter().map(|(k, v)| (k.clone(), h(v))).collect(); if got != want { res = Some(format!("step {step} List: the hub lists {:?}, the sequential execution has {:?}", got.keys().collect::<Vec<_>>(), want.keys().collect::<Vec<_>>())); break; } }
                    o => { res = Some(format!("step {step} List: unexpected reply {o:?}")); break; }
                }
            }
        }
    }
    let [s0, s1] = srv; let _ = s0.close_and_wait(5); let _ = s1.close_and_wait(5);
    if res.is_none() {
        let live: BTreeMap<String, Vec<u8>> = live_files(&r).into_iter().filter(|(p, _)| !p.ends_with(".copia-tmp")).collect();
        if live != model { res = Some(format!("final hub tree {:?} differs from the sequential execution {:?}", live.keys().collect::<Vec<_>>(), model.keys().collect::<Vec<_>>())); }
    }
    let _ = std::fs::remove_dir_all(&r);
    res.map(|w| format!("[random program {rseed}: {}] {w} (C03/C10/C11/C12)", trace.join("; ")))
}
/// C03, one request at a time, EXHAUSTIVELY for short histories on one path: initial state in {absent, X, Y}, then every pair of
/// operations out of Put(expected in {None, h(X), h(Y)}, content in {X, Y}) and Delete(expected in {None, h(X), h(Y)}), each
/// sent to its own server process. Every reply and the final tree must be those of the sequential compare-and-swap - in
/// particular when the content sent equals the version named by a stale `expected`.
fn sc_exhaustive_two_steps() -> Option<String> { exhaustive_steps(2, b"version-X").or_else(|| exhaustive_steps(2, b"")) }
/// `xc` is the content called X: once an ordinary one, once the EMPTY file (a present, zero-length version is not an absent path)
pub fn exhaustive_steps(depth: usize, xc: &[u8]) -> Option<String> {
    let (x, y) = (xc.to_vec(), b"Y".to_vec());
    let exps = [None, Some(h(&x)), Some(h(&y))];
    let mut ops: Vec<COp> = vec![];
    for e in exps.iter() { for c in [&x, &y] { ops.push(COp::Put("doc".into(), *e, c.clone())); } }
    for e in exps.iter() { ops.push(COp::Del("doc".into(), *e)); }
    let name = |o: &COp| match o { COp::Put(_, e, c) => format!("Put(expected {}, content {})", match e { None => "None", Some(v) if *v == h(&x) => "h(X)", _ => "h(Y)" }, if *c == x { "X" } else { "Y" }),
                                    COp::Del(_, e) => format!("Delete(expected {})", match e { None => "None", Some(v) if *v == h(&x) => "h(X)", _ => "h(Y)" }) };
    let n = ops.len();
    let total = n.pow(depth as u32);
    for init in 0..3usize {
        for code in 0..total {
            let seq: Vec<&COp> = (0..depth).map(|k| &ops[(code / n.pow(k as u32)) % n]).collect();
            let r = root(&format!("exh{init}_{code}"));
            let mut model = Model::new();
            match init { 1 => { model.insert("doc".into(), x.clone()); } 2 => { model.insert("doc".into(), y.clone()); } _ => {} }
            for (p, c) in &model { std::fs::write(r.join(p), c).ok()?; }
            let mut bad = None;
            for (k, op) in seq.iter().enumerate() {
                let mut s = Srv::start(&r)?; s.magic();
                let got = match op { COp::Put(p, e, c) => s.put(p, *e, c), COp::Del(p, e) => { s.send(&Request::Delete { path: p.clone(), expected: *e }); s.recv(10) } };
                let want = seq_apply(&mut model, op);
                let _ = s.close_and_wait(5);
                if !got.as_ref().map(|g| same_reply(g, &want)).unwrap_or(false) { bad = Some(format!("request {} `{}` was answered {got:?}; the sequential compare-and-swap answers {want:?}", k + 1, name(op))); break; }
            }
            if bad.is_none() {
                let live: Model = live_files(&r).into_iter().filter(|(p, _)| !p.ends_with(".copia-tmp")).collect();
                if live != model { bad = Some(format!("the hub tree afterwards is {:?}, the sequential execution gives {:?}", live.iter().map(|(p, c)| (p.clone(), String::from_utf8_lossy(c).into_owned())).collect::<Vec<_>>(), model.iter().map(|(p, c)| (p.clone(), String::from_utf8_lossy(c).into_owned())).collect::<Vec<_>>())); }
            }
            let _ = std::fs::remove_dir_all(&r);
            if let Some(b) = bad {
                return Some(format!("one path, initial state {}, X = {}, requests one at a time (each to its own server): {} - {b} (C03)", ["absent", "X", "Y"][init], if x.is_empty() { "the EMPTY file".to_string() } else { format!("{:?}", String::from_utf8_lossy(&x)) }, seq.iter().map(|o| name(o)).collect::<Vec<_>>().join("; ")));
            }
        }
    }
    None
}
// ---- thorough tier: CONCURRENT random programs + a linearizability check (Wing & Gong style search) ----
#[derive(Clone, Debug)]
enum COp { Put(String, Option<Hash>, Vec<u8>), Del(String, Option<Hash>) }
struct Rec { op: COp, resp: Option<Response>, t0: std::time::Instant, t1: std::time::Instant }
type Model = std::collections::BTreeMap<String, Vec<u8>>;
/// the one-at-a-time semantics of the property: a write or delete takes effect exactly when the current hash equals `expected`
fn seq_apply(m: &mut Model, op: &COp) -> Response {
    match op {
        COp::Put(p, exp, c) => { let cur = m.get(p).map(|b| h(b)); if cur == *exp { m.insert(p.clone(), c.clone()); Response::PutResult { committed: true, current: Some(h(c)) } } else { m.insert(format!("{p}.conflict-{}", crate::cli::wire::short_hash(&h(c))), c.clone()); Response::PutResult { committed: false, current: cur } } }
        COp::Del(p, exp) => { let cur = m.get(p).map(|b| h(b)); if cur == *exp { m.remove(p); Response::DeleteResult { deleted: true, current: None } } else { Response::DeleteResult { deleted: false, current: cur } } }
    }
}
fn same_reply(a: &Response, b: &Response) -> bool {
    match (a, b) { (Response::PutResult { committed: c1, current: u1 }, Response::PutResult { committed: c2, current: u2 }) => c1 == c2 && u1 == u2,
                   (Response::DeleteResult { deleted: d1, current: u1 }, Response::DeleteResult { deleted: d2, current: u2 }) => d1 == d2 && u1 == u2, _ => false }
}
/// is there an order of all operations, respecting "A answered before B was sent", whose replies and final tree are the observed ones?
fn linearizable(recs: &[Rec], done: &mut Vec<bool>, m: &Model, fin: &Model, left: usize) -> bool {
    if left == 0 { return m == fin; }
    for i in 0..recs.len() {
        if done[i] { continue; }
        // i may come next only if no other pending operation had already been answered before i was sent
        if (0..recs.len()).any(|j| j != i && !done[j] && recs[j].t1 < recs[i].t0) { continue; }
        let mut m2 = m.clone();
        let want = seq_apply(&mut m2, &recs[i].op);
        if recs[i].resp.as_ref().map(|r| same_reply(r, &want)).unwrap_or(false) {
            done[i] = true;
            if linearizable(recs, done, &m2, fin, left - 1) { done[i] = false; return true; }
            done[i] = false;
        }
    }
    false
}
pub fn concurrent_program(rseed: u64) -> Option<String> {
    let mut rng = crate::rng::Rng(rseed ^ 0xC0_4C00);
    let r = root(&format!("conc{rseed}"));
    let mut init = Model::new();
    init.insert("a".into(), b"a-initial".to_vec()); init.insert("d/b".into(), b"b-initial".to_vec());
    for (p, c) in &init { let f = r.join(p); if let Some(d) = f.parent() { let _ = std::fs::create_dir_all(d); } let _ = std::fs::write(f, c); }
    let b = std::env::var("COPIA_BIN").ok()?;
    let nclients = 2 + rng.below(2) as usize;
    // one of the servers runs with every flock() entry delayed (strace fault injection): that stretches the window between
    // whatever it does before taking the commit lock and the lock itself
    let delayed = rng.below(nclients as u64) as usize; let delay_us = 20_000 + rng.below(150_000);
    let mut handles = vec![];
    let nops = 2 + rng.below(2);
    // every client issues its k-th request at the same moment (a barrier per round): the requests really overlap
    let barrier = std::sync::Arc::new(std::sync::Barrier::new(nclients));
    for ci in 0..nclients {
        let barrier = barrier.clone();
        let mut srv = if ci == delayed {
            let mut c = Command::new("strace").args(["-f", "-qq", "-o", "/dev/null", "-e", "trace=flock", "-e", &format!("inject=flock:delay_enter={delay_us}")]).arg(&b).arg("serve").arg(&r)
                .stdin(Stdio::piped()).stdout(Stdio::piped()).stderr(Stdio::null()).spawn().ok()?;
            Srv { w: c.stdin.take()?, r: BufReader::new(c.stdout.take()?), child: c }
        } else { Srv::start(&r)? };
        srv.magic();
        let mut plan = vec![];
        // biased towards the contended case: same path, Put, expected = what this client last saw
        for k in 0..nops { plan.push((if rng.below(5) == 0 { 1 } else { 0 }, if rng.below(7) == 0 { 0 } else { 1 }, if rng.below(10) == 0 { 0 } else { 1 }, format!("client{ci}-op{k}-{rseed}").into_bytes())); }
        let init2 = init.clone();
        handles.push(std::thread::spawn(move || {
            let mut view: std::collections::BTreeMap<String, Option<Hash>> = init2.iter().map(|(p, c)| (p.clone(), Some(h(c)))).collect();
            let mut out = vec![];
            for (pi, kind, stale, content) in plan {
                let p = if pi == 0 { "a" } else { "d/b" }.to_string();
                let exp = if stale == 0 { None } else { view.get(&p).cloned().flatten() };
                let op = if kind == 0 { COp::Del(p.clone(), exp) } else { COp::Put(p.clone(), exp, content.clone()) };
                barrier.wait();
                let t0 = std::time::Instant::now();
                let resp = match &op { COp::Put(p, e, c) => srv.put(p, *e, c), COp::Del(p, e) => { srv.send(&Request::Delete { path: p.clone(), expected: *e }); srv.recv(20) } };
                let t1 = std::time::Instant::now();
                match (&op, &resp) {
                    (COp::Put(_, _, c), Some(Response::PutResult { committed: true, .. })) => { view.insert(p.clone(), Some(h(c))); }
                    (_, Some(Response::PutResult { committed: false, current })) | (_, Some(Response::DeleteResult { deleted: false, current })) => { view.insert(p.clone(), *current); }
                    (_, Some(Response::DeleteResult { deleted: true, .. })) => { view.insert(p.clone(), None); }
                    _ => {}
                }
                out.push(Rec { op, resp, t0, t1 });
            }
            let _ = srv.close_and_wait(5);
            out
        }));
    }
    let mut recs: Vec<Rec> = vec![];
    for hd in handles { if let Ok(v) = hd.join() { recs.extend(v); } }
    let fin: Model = live_files(&r).into_iter().filter(|(p, _)| !p.ends_with(".copia-tmp")).collect();
    let _ = std::fs::remove_dir_all(&r);
    if recs.iter().any(|x| !matches!(x.resp, Some(Response::PutResult { .. }) | Some(Response::DeleteResult { .. }))) { return None; }      // a timed-out / error reply: not a history this check judges
    let mut done = vec![false; recs.len()];
    if linearizable(&recs, &mut done, &init, &fin, recs.len()) { return None; }
    let show: Vec<String> = recs.iter().map(|x| format!("{} -> {}", match &x.op { COp::Put(p, e, c) => format!("Put({p}, expected {}, '{}')", if e.is_some() { "Some" } else { "None" }, String::from_utf8_lossy(c)), COp::Del(p, e) => format!("Delete({p}, expected {})", if e.is_some() { "Some" } else { "None" }) },
        match &x.resp { Some(Response::PutResult { committed, .. }) => format!("committed:{committed}"), Some(Response::DeleteResult { deleted, .. }) => format!("deleted:{deleted}"), _ => "?".into() })).collect();
    Some(format!("[concurrent program {rseed}: {nclients} servers, one with flock delayed {delay_us} us] the replies {show:?} and the final hub tree {:?} are those of NO one-at-a-time execution of the same requests that respects their real-time order (C03)", fin.iter().map(|(p, c)| format!("{p}='{}'", String::from_utf8_lossy(c))).collect::<Vec<_>>()))
}
pub fn search_t(contract: &str, as_twin: bool, seed: u64, budget: u64) -> i32 {
    let rc = search(contract, as_twin);
    if budget > 30 && !std::env::var("COPIA_BIN").unwrap_or_default().is_empty() {
        let t0 = std::time::Instant::now();
        let mut n = 0u64;
        while t0.elapsed().as_secs() < budget.min(60) && n < 2000 {
            let rseed = seed.wrapping_mul(1000).wrapping_add(n);
            if let Some(what) = random_program(rseed) { println!("WITNESS {{\"kind\":\"serve\",\"scenario\":9999,\"rseed\":{rseed},\"name\":\"random-{rseed}\",\"what\":\"{}\"}}", what.replace('"', "'").replace('\n', " ")); }
            n += 1;
        }
        // concurrent programs with a linearizability check: half of the remaining budget again
        let t1 = std::time::Instant::now();
        let mut m = 0u64;
        while t1.elapsed().as_secs() < budget.min(60) / 2 && m < 400 {
            let rseed = seed.wrapping_mul(1000).wrapping_add(m);
            if let Some(what) = concurrent_program(rseed) { println!("WITNESS {{\"kind\":\"serve\",\"scenario\":9998,\"rseed\":{rseed},\"name\":\"concurrent-{rseed}\",\"what\":\"{}\"}}", what.replace('"', "'").replace('\n', " ").replace('\\', "/")); }
            m += 1;
        }
        n += m;
        if as_twin { println!("CASES {}", scenarios().len() as u64 + n); }
    }
    rc
}
/// remove the scratch directories of this process (scenarios that return early leave theirs behind)
fn cleanup_scratch() {
    let pre = format!("copia-verif-serve-{}-", std::process::id());
    if let Ok(rd) = std::fs::read_dir(std::env::temp_dir()) { for e in rd.flatten() { if e.file_name().to_string_lossy().starts_with(&pre) { let _ = std::fs::remove_dir_all(e.path()); } } }
}
pub fn search(contract: &str, as_twin: bool) -> i32 { let r = search_inner(contract, as_twin); cleanup_scratch(); r }
fn search_inner(contract: &str, as_twin: bool) -> i32 {
    if std::env::var("COPIA_BIN").unwrap_or_default().is_empty() { eprintln!("COPIA_BIN not set"); if as_twin { println!("CASES 0"); } return 0; }
    let _ = contract;
    let mut cases = 0;
    for (i, (name, f)) in scenarios().iter().enumerate() {
        cases += 1;
        if let Some(what) = f() {
            println!("WITNESS {{\"kind\":\"serve\",\"scenario\":{i},\"name\":\"{name}\",\"what\":\"[{name}] {}\"}}", what.replace('"', "'").replace('\n', " "));
        }
    }
    if as_twin { println!("CASES {cases}"); }
    0
}
pub fn run_w(w: &str) -> i32 {
    let i = json_u64(w, "scenario").unwrap_or(0) as usize;
    if i == 9998 {
        // a schedule-dependent witness: try the same program a few times
        for _ in 0..8 { if let Some(what) = concurrent_program(json_u64(w, "rseed").unwrap_or(0)) { println!("REPRODUCED: {what}"); return 1; } }
        println!("not reproduced in 8 runs of the same concurrent program (the witness depends on the OS schedule)"); return 0;
    }
    if i == 9999 { return match random_program(json_u64(w, "rseed").unwrap_or(0)) { Some(what) => { println!("REPRODUCED: {what}"); 1 } None => { println!("not reproduced: the random program behaves as its sequential execution"); 0 } }; }
    let sc = scenarios();
    let (name, f) = &sc[i.min(sc.len() - 1)];
    match f() { Some(what) => { println!("REPRODUCED: [{name}] {what}"); 1 } None => { println!("not reproduced: scenario `{name}` behaves as the property requires"); 0 } }
}
