//! Native replay / directed-search / twin-validation harness. Links the real `copia` crate of the
//! tree under check (path dependency through the `repo` symlink) and `#[path]`-includes the CLI
//! modules it needs. Nothing here decides a property: it only produces concrete inputs for
//! obligations the verifier rejected, and validates assumed contracts against executable twins.
//!
//!   copia-replay search <contract> <seed> <budget_s>   -> prints `WITNESS {json}` if found
//!   copia-replay run '<json witness>'                  -> re-executes it; exit 1 if it still fails
//!   copia-replay twin <name> <seed> <budget_s>         -> `CASES n`, `WITNESS {json}` per disagreement
mod rng;
mod checksum_w;
mod glob_w;
mod twins;
mod plan_w;
mod patch_w;
mod engine_w;
mod cli_w;
mod proto_w;
mod bisync_w;
mod serve_w;
mod oneway_w;
mod killer;
mod hub_w;
#[global_allocator]
static GLOBAL: proto_w::Tracking = proto_w::Tracking;
/// the CLI's modules, #[path]-included unedited from the tree under check
#[allow(dead_code, unused_imports, clippy::all)]
pub mod cli {
    #[path = "../../repo/src/bin/copia/plan.rs"]
    pub mod plan;
    #[path = "../../repo/src/bin/copia/reconcile.rs"]
    pub mod reconcile;
    #[path = "../../repo/src/bin/copia/transfer.rs"]
    pub mod transfer;
    #[path = "../../repo/src/bin/copia/meta.rs"]
    pub mod meta;
    #[path = "../../repo/src/bin/copia/archive.rs"]
    pub mod archive;
    #[path = "../../repo/src/bin/copia/wire.rs"]
    pub mod wire;
}
pub use cli::plan;

use std::env;

fn main() {
    let a: Vec<String> = env::args().collect();
    if a.len() < 3 {
        eprintln!("usage: copia-replay search|run|twin ...");
        std::process::exit(2);
    }
    let code = match a[1].as_str() {
        "search" => {
            let seed: u64 = a.get(3).and_then(|s| s.parse().ok()).unwrap_or(0);
            let budget: u64 = a.get(4).and_then(|s| s.parse().ok()).unwrap_or(20);
            search(&a[2], seed, budget)
        }
        "run" => run(&a[2]),
        "twin" => {
            let seed: u64 = a.get(3).and_then(|s| s.parse().ok()).unwrap_or(0);
            let budget: u64 = a.get(4).and_then(|s| s.parse().ok()).unwrap_or(3);
            twin(&a[2], seed, budget)
        }
        _ => 2,
    };
    std::process::exit(code);
}

fn search(contract: &str, seed: u64, budget: u64) -> i32 {
    let c = contract.trim();
    if c.ends_with("RollingChecksum::new") && !c.contains("Fast") {
        return checksum_w::search_new(seed, budget);
    }
    if c.ends_with("RollingChecksum::roll") || c.ends_with("RollingChecksum::push") || c.ends_with("RollingChecksum::digest") {
        return checksum_w::search_ops(c.contains("Fast"), seed, budget);
    }
    if c == "reconcile" || c.ends_with("::reconcile") || c.ends_with("reconcile_path") {
        return plan_w::search_reconcile();
    }
    if c.ends_with("build_plan") || c.ends_with("needs_transfer") {
        return plan_w::search_plan();
    }
    if c.ends_with("is_excluded") {
        let rc = twins::is_excluded(seed, budget.min(10));
        return rc;
    }
    if c == "roundtrip" || c.ends_with("::delta") || c.ends_with("::signature") {
        return engine_w::search_pairs(false, seed, budget, false);
    }
    if c == "greedy" {
        return engine_w::search_pairs(true, seed, budget, false);
    }
    if c.contains("FrameHeader::") || c.contains("MessageType::") || c == "header" {
        return proto_w::search_header();
    }
    if c.contains("Codec::") || c == "codec" {
        let r = proto_w::search_header();
        if r != 0 { return r; }
        return proto_w::search_codec();
    }
    if c == "bisync_crash" { return bisync_w::crash_search(false, budget > 60); }
    if c == "serve_crash" { return serve_w::crash_search(false, budget > 60); }
    if c == "second_run" { return oneway_w::noop_search(false); }
    if c == "delivers_plan" { return oneway_w::plan_search(false); }
    if c == "dry_run" { return oneway_w::dry_search(false); }
    if c == "hub_sync" || c.ends_with("::hub_sync") { return hub_w::search(false); }
    if c.ends_with("run_bisync") || c == "bisync" || c.ends_with("apply") || c.ends_with("copy_atomic") || c.contains("Archive::") {
        return bisync_w::search(c, false);
    }
    if c == "serve" || c.starts_with("handle_") || c.ends_with("safe_join") || c.ends_with("read_frame") || c.ends_with("write_frame") || c.ends_with("read_magic") || c.ends_with("tmp_of") || c.ends_with("::serve") {
        return serve_w::search(c, false);
    }
    if c == "oneway" || c.starts_with("deliver_") || c.ends_with("transfer_file_from_remote") || c.ends_with("transfer_file_to_remote") || c.ends_with("tmp_path") {
        return oneway_w::search(false, budget > 60);
    }
    if c == "run_local" || c == "run_remote" || c == "print_plan" { let a = oneway_w::dry_search(false); let b = oneway_w::plan_search(false); return a.max(b); }
    if c.ends_with("split_target") { return hub_w::search(false); }
    if c.ends_with("FileLocation::parse") { return oneway_w::noop_search(false); }
    if c.ends_with("sync_files") { return cli_w::search("cli_sync_files", seed, false); }
    if c.starts_with("run_") || c.starts_with("cli") {
        return cli_w::search(c, seed, false);
    }
    if c.ends_with("::patch") {
        return patch_w::search(c, seed, budget);
    }
    if c.ends_with("glob_match") {
        return glob_w::search(seed, budget);
    }
    if c.ends_with("FastRollingChecksum::new") {
        return checksum_w::search_ops(true, seed, budget);
    }
    0
}

fn run(w: &str) -> i32 {
    // witness json is flat: {"kind":"...", ...}; dispatch on kind
    let kind = json_str(w, "kind").unwrap_or_default();
    match kind.as_str() {
        "checksum-new" => checksum_w::run_new(w),
        "checksum-ops" => checksum_w::run_ops(w),
        "glob" => glob_w::run(w),
        "patch" => patch_w::run(w),
        "cli" => cli_w::run_w(w),
        "serve" => serve_w::run_w(w),
        "oneway" => oneway_w::run_w(w),
        "oneway-noop" => oneway_w::run_noop(w),
        "oneway-plan" => oneway_w::run_plan(w),
        "oneway-dry" => oneway_w::run_dry(w),
        "pair-small" => engine_w::run_pair_small(w),
        "bisync" => bisync_w::run_w(w),
        "bisync-trace" => bisync_w::run_trace(w),
        "bisync-crash" => bisync_w::run_crash(w),
        "serve-crash" => serve_w::run_crash(w),
        "hub" => hub_w::run_w(w),
        "pairid" => { match bisync_w::pair_id_injective() { Some(x) => { println!("REPRODUCED: {x}"); 1 } None => { println!("not reproduced"); 0 } } }
        "header" => proto_w::run_header(w),
        "codec" => proto_w::run_codec(w),
        "codec-rt" => proto_w::run_codec_rt(w),
        "pair" => engine_w::run_pair(w),
        "siggen" => engine_w::run_siggen(w),
        "sigtable" => {
            // the witness carries the seed of the failing round: re-run exactly that round on the current code
            let rc = engine_w::twin_signature_table(json_u64(w, "seed").unwrap_or(0), 0);
            if rc == 0 { println!("not reproduced: SignatureTable lookups agree with their contract on this round"); } else { println!("REPRODUCED (the WITNESS line above)"); }
            rc
        }
        "reconcile" => plan_w::run_reconcile(w),
        "reconcile-awk" => plan_w::run_reconcile_awk(w),
        "build_plan" => plan_w::run_plan(w),
        "is_excluded" => twins::run_is_excluded(w),
        "parse_meta" => twins::run_parse_meta(w),
        _ => {
            eprintln!("unknown witness kind {kind}");
            2
        }
    }
}

fn twin(name: &str, seed: u64, budget: u64) -> i32 {
    match name {
        "is_excluded" => twins::is_excluded(seed, budget),
        "cli_chain" => cli_w::search("cli", seed, true),
        "serve_sessions" => serve_w::search_t("serve", true, seed, budget),
        "oneway_crashes" => oneway_w::search(true, budget > 60),
        "bisync_crashes" => bisync_w::crash_search(true, budget > 60),
        "serve_crashes" => serve_w::crash_search(true, budget > 60),
        "hub_sync_runs" => hub_w::search(true),
        "second_run_noop" => oneway_w::noop_search(true),
        "delivers_plan" => oneway_w::plan_search(true),
        "dry_run_inert" => oneway_w::dry_search(true),
        "bisync_histories" => bisync_w::search_t("bisync", true, seed, budget),
        "signature_generate" => engine_w::twin_signature_generate(seed, budget),
        "signature_structure" => engine_w::twin_signature_structure(seed, budget),
        "signature_table" => engine_w::twin_signature_table(seed, budget),
        "engines_agree" => engine_w::search_pairs(false, seed, budget, true),
        "greedy_pairs" => engine_w::search_pairs(true, seed, budget, true),
        "parse_remote_meta_output" => twins::parse_meta(seed, budget),
        _ => {
            eprintln!("unknown twin {name}");
            2
        }
    }
}

/// minimal flat-JSON field readers (no serde dependency needed for the witness formats used here)
pub fn json_str(s: &str, key: &str) -> Option<String> {
    let pat = format!("\"{key}\":");
    let i = s.find(&pat)? + pat.len();
    let rest = s[i..].trim_start();
    if let Some(r) = rest.strip_prefix('"') {
        let mut out = String::new();
        let mut it = r.chars();
        while let Some(c) = it.next() {
            match c {
                '\\' => {
                    if let Some(n) = it.next() {
                        out.push(n)
                    }
                }
                '"' => return Some(out),
                c => out.push(c),
            }
        }
        None
    } else {
        let end = rest.find(|c: char| c == ',' || c == '}' || c == ']').unwrap_or(rest.len());
        Some(rest[..end].trim().to_string())
    }
}

pub fn json_u64(s: &str, key: &str) -> Option<u64> {
    json_str(s, key)?.parse().ok()
}

pub fn json_bytes(s: &str, key: &str) -> Option<Vec<u8>> {
    // "key":"hex"
    let h = json_str(s, key)?;
    unhex(&h)
}

pub fn hex(b: &[u8]) -> String {
    b.iter().map(|x| format!("{x:02x}")).collect()
}

pub fn unhex(h: &str) -> Option<Vec<u8>> {
    if h.len() % 2 != 0 {
        return None;
    }
    (0..h.len() / 2).map(|i| u8::from_str_radix(&h[2 * i..2 * i + 2], 16).ok()).collect()
}
