//! directed witness search for the checksum contracts (C17): exact reference in u128 vs the real types
use crate::rng::Rng;
use crate::{hex, json_bytes, json_str, json_u64};
use copia::{FastRollingChecksum, RollingChecksum};
use std::time::{Duration, Instant};

const M: u128 = 65521;

pub fn reference(w: &[u8]) -> (u32, u32, u32) {
    let n = w.len() as u128;
    let mut a: u128 = 0;
    let mut b: u128 = 0;
    for (i, &x) in w.iter().enumerate() {
        a += x as u128;
        b += (n - i as u128) * x as u128;
    }
    let (a, b) = ((a % M) as u32, (b % M) as u32);
    (a, b, (b << 16) | a)
}

fn report_new(data: &[u8]) -> Option<String> {
    let r = std::panic::catch_unwind(|| RollingChecksum::new(data));
    let (ea, eb, ed) = reference(data);
    match r {
        Err(_) => Some(format!("RollingChecksum::new panicked on {} bytes", data.len())),
        Ok(c) => {
            if c.digest() != ed || c.sum_a() != ea || c.sum_b() != eb || c.len() != data.len() {
                Some(format!(
                    "RollingChecksum::new(len {}): digest {:08x} (a={}, b={}) but the defining formula gives {:08x} (a={}, b={})",
                    data.len(), c.digest(), c.sum_a(), c.sum_b(), ed, ea, eb
                ))
            } else {
                None
            }
        }
    }
}

pub fn search_new(seed: u64, budget: u64) -> i32 {
    let t0 = Instant::now();
    let mut rng = Rng(seed ^ 0xC17);
    // boundary generators first: high-sum windows whose weighted sum crosses 2^32
    let mut cands: Vec<Vec<u8>> = vec![];
    for &n in &[5804usize, 8192, 16384, 65536, 6000, 1, 2, 255, 256, 258, 4096] {
        cands.push(vec![0xFF; n]);
        cands.push(vec![0xFE; n]);
    }
    let mut i = 0usize;
    loop {
        let data = if i < cands.len() {
            cands[i].clone()
        } else {
            let n = 1 + rng.below(65536) as usize;
            (0..n).map(|_| rng.byte_biased()).collect()
        };
        i += 1;
        if let Some(what) = report_new(&data) {
            // shrink: try the all-equal prefix lengths
            println!("WITNESS {{\"kind\":\"checksum-new\",\"data_len\":{},\"data_fill\":{},\"data\":\"{}\",\"what\":\"{}\"}}",
                data.len(), if data.iter().all(|&x| x == data[0]) { data[0] as i32 } else { -1 },
                if data.iter().all(|&x| x == data[0]) { String::new() } else { hex(&data) }, what);
            return 1;
        }
        if t0.elapsed() > Duration::from_secs(budget) {
            return 0;
        }
    }
}

pub fn run_new(w: &str) -> i32 {
    let n = json_u64(w, "data_len").unwrap_or(0) as usize;
    let fill: i64 = json_str(w, "data_fill").and_then(|s| s.parse().ok()).unwrap_or(-1);
    let data = if fill >= 0 { vec![fill as u8; n] } else { json_bytes(w, "data").unwrap_or_default() };
    match report_new(&data) {
        Some(what) => {
            println!("REPRODUCED: {what}");
            1
        }
        None => {
            println!("not reproduced: RollingChecksum::new agrees with the defining formula on this input");
            0
        }
    }
}

/// ops program: start window (bytes), then ops: 'r' new_byte (roll) / 'p' byte (push)
fn run_program(fast: bool, init: &[u8], ops: &[(u8, u8)]) -> Option<String> {
    let mut w: Vec<u8> = init.to_vec();
    let res = std::panic::catch_unwind(|| {
        let mut w: Vec<u8> = init.to_vec();
        let mut rc = RollingChecksum::new(init);
        let mut fc = FastRollingChecksum::new(init);
        // the oracle for `new` itself is separate: start from the reference if new is off, by pushes
        if reference(init).2 != rc.digest() {
            rc = RollingChecksum::empty();
            for &x in init { rc.push(x); }
        }
        for (k, &(op, x)) in ops.iter().enumerate() {
            if op == b'r' {
                if w.is_empty() { continue; }
                let o = w.remove(0);
                w.push(x);
                if fast { fc.roll(o, x) } else { rc.roll(o, x) }
            } else {
                w.push(x);
                if fast { fc.push(x) } else { rc.push(x) }
            }
            let (ea, eb, ed) = reference(&w);
            let (d, l) = if fast { (fc.digest(), fc.len()) } else { (rc.digest(), rc.len()) };
            if d != ed || l != w.len() || (!fast && (rc.sum_a() != ea || rc.sum_b() != eb)) {
                return Some(format!(
                    "{} after op #{} ({} {}): digest {:08x} len {} but the window's defining formula gives {:08x} len {}",
                    if fast { "FastRollingChecksum" } else { "RollingChecksum" }, k, if op == b'r' { "roll in" } else { "push" }, x, d, l, ed, w.len()));
            }
        }
        None
    });
    w.clear();
    match res {
        Ok(r) => r,
        Err(_) => Some(format!("{} panicked during the operation sequence", if fast { "FastRollingChecksum" } else { "RollingChecksum" })),
    }
}

pub fn search_ops(fast: bool, seed: u64, budget: u64) -> i32 {
    let t0 = Instant::now();
    let mut rng = Rng(seed ^ 0x0C17_0F5);
    let mut round = 0u64;
    loop {
        // windows biased to small `a` (sum ≡ 0 mod 65521) and to high sums
        let n = match round % 4 { 0 => if round % 8 == 0 { 65536 } else { 300 }, 1 => 1 + rng.below(64) as usize, 2 => 512 + rng.below(8192) as usize, _ => 1 + rng.below(2048) as usize };
        let mut init: Vec<u8> = match round % 3 {
            0 => { let mut v = vec![241u8]; v.extend(std::iter::repeat(255u8).take(256)); v.extend(std::iter::repeat(0u8).take(n.saturating_sub(257))); v }
            1 => (0..n).map(|_| rng.byte_biased()).collect(),
            _ => if round % 2 == 0 { vec![0u8; n] } else { vec![0xFFu8; n] },
        };
        if init.is_empty() { init.push(1); }
        let nops = if round % 5 == 4 { 5200 } else if n >= 60000 { 400 } else { 1 + rng.below(40) as usize };
        let mut ops: Vec<(u8, u8)> = (0..nops).map(|_| (if rng.below(8) == 0 { b'p' } else { b'r' }, rng.byte_biased())).collect();
        // a window GROWN BY PUSHES from a tiny start (1 or 3 bytes -> 700 / 2000), then slid past the 5000-operation mark with
        // large outgoing bytes: whatever `new` precomputes for its initial length is stale by then
        if round < 4 {
            init = vec![0xFFu8; if round % 2 == 0 { 1 } else { 3 }];
            let grow = if round < 2 { 700 } else { 2000 };
            ops = std::iter::repeat((b'p', 0xFFu8)).take(grow).chain(std::iter::repeat((b'r', 0xFFu8)).take(5200 - grow)).chain((0..200).map(|i| (b'r', (i * 37 % 256) as u8))).collect();
        }
        if let Some(what) = run_program(fast, &init, &ops) {
            // shrink ops to the failing prefix
            let mut k = ops.len();
            while k > 1 && run_program(fast, &init, &ops[..k - 1]).is_some() { k -= 1; }
            let ops = &ops[..k];
            let opstr: String = ops.iter().map(|(o, x)| format!("{}{:02x}", *o as char, x)).collect();
            let what = run_program(fast, &init, ops).unwrap_or(what);
            println!("WITNESS {{\"kind\":\"checksum-ops\",\"fast\":{},\"init\":\"{}\",\"ops\":\"{}\",\"what\":\"{}\"}}", fast as u8, hex(&init), opstr, what);
            return 1;
        }
        round += 1;
        if t0.elapsed() > Duration::from_secs(budget) { return 0; }
    }
}

pub fn run_ops(w: &str) -> i32 {
    let fast = json_u64(w, "fast").unwrap_or(0) == 1;
    let init = json_bytes(w, "init").unwrap_or_default();
    let s = json_str(w, "ops").unwrap_or_default();
    let b = s.as_bytes();
    let mut ops = vec![];
    let mut i = 0;
    while i + 3 <= b.len() {
        let x = u8::from_str_radix(&s[i + 1..i + 3], 16).unwrap_or(0);
        ops.push((b[i], x));
        i += 3;
    }
    match run_program(fast, &init, &ops) {
        Some(what) => { println!("REPRODUCED: {what}"); 1 }
        None => { println!("not reproduced: digests agree with the defining formula after every operation"); 0 }
    }
}
