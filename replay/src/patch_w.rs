//! directed witness search for the patch contracts (C05): "Ok with verification on ==> BLAKE3(output) == delta.checksum;
//! every other outcome is a reported error - never a panic" on both engines.
use crate::rng::Rng;
use crate::{hex, json_bytes, json_str, json_u64};
use copia::async_sync::AsyncCopiaSync;
use copia::{CopiaSync, Delta, DeltaOp, StrongHash, Sync};
use std::io::Cursor;
use std::time::{Duration, Instant};

fn mk(seed: u64) -> (Vec<u8>, Vec<u8>) {
    let mut r = Rng(seed);
    if seed % 3 == 2 {
        // an UNCHANGED file (the delta is one whole-basis copy): 16 blocks, exactly one block, a short last block
        let n = [16 * 512, 512, 3 * 512 + 100][(seed / 3 % 3) as usize];
        let basis: Vec<u8> = (0..n).map(|_| r.next() as u8).collect();
        return (basis.clone(), basis);
    }
    if seed % 7 == 6 {
        // a LARGE file with scattered small edits: many operations, each far below 64 KiB, together far above it
        let n = 262_144 + r.below(70_000) as usize;
        let basis: Vec<u8> = (0..n).map(|_| r.next() as u8).collect();
        let mut src = basis.clone();
        let step = 9_000 + r.below(20_000) as usize;
        let mut k = step / 2;
        while k < n { src[k] ^= 0x5a; k += step; }
        return (basis, src);
    }
    let n = 2048 + r.below(3000) as usize;
    let basis: Vec<u8> = (0..n).map(|_| r.next() as u8).collect();
    let mut src = basis.clone();
    let k = r.below(n as u64) as usize;
    src[k] ^= 0x55;
    src.extend_from_slice(b"tail");
    (basis, src)
}

/// mutation codes applied to a valid delta / basis
fn mutate(code: u32, basis: &mut Vec<u8>, d: &mut Delta) -> String {
    match code {
        0 => "unmodified".into(),
        1 => { d.source_size += 1; "source_size + 1".into() }
        2 => { d.source_size = d.source_size.saturating_sub(1); "source_size - 1".into() }
        3 => { d.source_size = 0; "source_size = 0".into() }
        4 => { d.ops.clear(); "all ops dropped".into() }
        5 => { d.ops.pop(); "last op dropped".into() }
        6 => { if let Some(op) = d.ops.first().cloned() { d.ops.push(op); } "first op duplicated at the end".into() }
        7 => { d.ops.reverse(); "ops reversed".into() }
        8 => { for op in d.ops.iter_mut() { if let DeltaOp::Copy { offset, .. } = op { *offset += 1; break; } } "first copy offset + 1".into() }
        9 => { for op in d.ops.iter_mut() { if let DeltaOp::Copy { len, .. } = op { *len += 1; break; } } "first copy len + 1".into() }
        10 => { for op in d.ops.iter_mut() { if let DeltaOp::Literal(v) = op { if !v.is_empty() { v[0] ^= 1; } break; } } "literal byte flipped".into() }
        11 => { d.basis_size = u64::MAX; for op in d.ops.iter_mut() { if let DeltaOp::Copy { offset, .. } = op { *offset = u64::MAX - 1; break; } } "basis_size = MAX, copy offset near MAX".into() }
        12 => { basis.truncate(basis.len() / 2); "basis truncated to half".into() }
        13 => { if !basis.is_empty() { let k = basis.len() / 3; basis[k] ^= 0x80; } "basis bit flipped".into() }
        14 => { d.block_size = 0; "block_size = 0".into() }
        15 => { d.checksum = StrongHash::zero(); "checksum zeroed".into() }
        16 => { d.basis_size = 0; "basis_size = 0".into() }
        17 => { d.source_size = u64::MAX; "source_size = MAX".into() }
        18 => { basis.clear(); "empty basis".into() }
        19 => { basis.extend_from_slice(b"extended-by-a-tail"); "basis extended by 18 bytes".into() }
        20 => { if let Some(l) = basis.last_mut() { *l ^= 1; } "last basis byte flipped".into() }
        21 => { let n = basis.len(); *basis = (0..n).map(|i| (i * 7 + 3) as u8).collect(); "unrelated basis of the same size".into() }
        _ => {
            // a VALID re-cut: every copy split into pieces of at most 1000 bytes (same output, same checksum)
            let mut ops = Vec::new();
            for op in d.ops.drain(..) {
                match op {
                    DeltaOp::Copy { offset, len } => { let mut o = 0u64; while o < u64::from(len) { let l = (u64::from(len) - o).min(1000); ops.push(DeltaOp::Copy { offset: offset + o, len: l as u32 }); o += l; } }
                    x => ops.push(x),
                }
            }
            d.ops = ops;
            "every copy re-cut into pieces of at most 1000 bytes (a valid delta for the same output)".into()
        }
    }
}
pub const NMUT: u32 = 23;

fn run_case(engine: u8, seed: u64, code: u32) -> Option<String> {
    let (mut basis, src) = mk(seed);
    let sync = CopiaSync::with_block_size(512);
    let sig = sync.signature(Cursor::new(&basis)).ok()?;
    let mut d = sync.delta(Cursor::new(&src), &sig).ok()?;
    let what = mutate(code, &mut basis, &mut d);
    let r = std::panic::catch_unwind(|| {
        let mut out = Vec::new();
        let res = if engine == 0 {
            sync.patch(Cursor::new(&basis), &d, &mut out).map_err(|e| e.to_string())
        } else {
            let a = AsyncCopiaSync::with_block_size(512);
            let rt = tokio::runtime::Builder::new_current_thread().build().map_err(|e| e.to_string())?;
            rt.block_on(a.patch(Cursor::new(basis.clone()), &d, &mut out)).map_err(|e| e.to_string())
        };
        res.map(|()| out)
    });
    let eng = if engine == 0 { "CopiaSync::patch" } else { "AsyncCopiaSync::patch" };
    match r {
        Err(_) => Some(format!("{eng} PANICKED on a delta altered by: {what} (seed {seed})")),
        Ok(Ok(out)) => {
            if StrongHash::compute(&out) != d.checksum {
                Some(format!("{eng} returned Ok but BLAKE3(output) != delta.checksum; delta altered by: {what} (seed {seed})"))
            } else { None }
        }
        Ok(Err(_)) => None,
    }
}

pub fn search(contract: &str, seed: u64, budget: u64) -> i32 {
    let t0 = Instant::now();
    let engines: &[u8] = if contract.contains("Async") { &[1] } else { &[0] };
    let mut s = seed;
    // the large-file shapes first (seed % 7 == 6), then the stream of small ones
    for &e in engines {
        for code in [0u32, 22, 5, 9, 12] {
            if let Some(what) = run_case(e, 6, code) {
                println!("WITNESS {{\"kind\":\"patch\",\"engine\":{e},\"seed\":6,\"mutation\":{code},\"what\":\"{}\"}}", what.replace('"', "'"));
                return 1;
            }
        }
    }
    loop {
        for &e in engines {
            for code in 0..NMUT {
                if let Some(what) = run_case(e, s, code) {
                    println!("WITNESS {{\"kind\":\"patch\",\"engine\":{e},\"seed\":{s},\"mutation\":{code},\"what\":\"{}\"}}", what.replace('"', "'"));
                    return 1;
                }
            }
        }
        s = s.wrapping_add(1);
        if t0.elapsed() > Duration::from_secs(budget.min(10)) { return 0; }
    }
}

pub fn run(w: &str) -> i32 {
    let e = json_u64(w, "engine").unwrap_or(0) as u8;
    let s = json_u64(w, "seed").unwrap_or(0);
    let c = json_u64(w, "mutation").unwrap_or(0) as u32;
    let _ = (hex(&[]), json_bytes(w, "x"), json_str(w, "x"));
    match run_case(e, s, c) {
        Some(what) => { println!("REPRODUCED: {what}"); 1 }
        None => { println!("not reproduced: patch reports an error or produces bytes matching the checksum"); 0 }
    }
}
