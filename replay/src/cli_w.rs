//! CLI-level twin / witness search (C20 hostile-file clause, C05 and C01 at the CLI): drives the REAL `copia`
//! binary ($COPIA_BIN) through signature -> delta -> patch on files, with single-field corruptions of the
//! .sig / .delta files. A crash = killed by a signal or the Rust panic exit status 101.
use crate::{json_str, json_u64};
use copia::{Delta, DeltaOp, Signature, StrongHash};
use std::path::{Path, PathBuf};
use std::process::Command;

fn bin() -> Option<String> { std::env::var("COPIA_BIN").ok().filter(|s| !s.is_empty()) }

struct Out { code: Option<i32>, crashed: bool, stderr: String }
fn run(args: &[&str]) -> Out {
    let b = bin().unwrap_or_default();
    match Command::new(&b).args(args).env("RUST_BACKTRACE", "0").output() {
        Ok(o) => {
            let code = o.status.code();
            let crashed = code.is_none() || code == Some(101) || code == Some(134);
            Out { code, crashed, stderr: String::from_utf8_lossy(&o.stderr).chars().take(300).collect() }
        }
        Err(e) => Out { code: Some(-1), crashed: false, stderr: e.to_string() },
    }
}

fn tmp(tagx: &str) -> PathBuf {
    let d = std::env::temp_dir().join(format!("copia-verif-cli-{}-{}", std::process::id(), tagx));
    let _ = std::fs::remove_dir_all(&d);
    let _ = std::fs::create_dir_all(&d);
    d
}
fn p(d: &Path, n: &str) -> String { d.join(n).to_string_lossy().into_owned() }

/// corruption codes for the .sig file
fn corrupt_sig(code: u32, s: &mut Signature) -> &'static str {
    match code {
        0 => "unmodified",
        1 => { s.block_size = 0; "block_size = 0" }
        2 => { s.block_size = 1000; "block_size = 1000 (not a power of two)" }
        3 => { s.block_size = 131072; "block_size = 131072 (too large)" }
        4 => { s.block_size = usize::MAX; "block_size = usize::MAX" }
        5 => { s.file_size = u64::MAX; "file_size = u64::MAX" }
        6 => { for b in s.blocks.iter_mut() { b.index = u32::MAX; } "every block index = u32::MAX" }
        7 => { s.blocks.clear(); "all blocks dropped" }
        _ => { s.block_size = 256; "block_size = 256 (too small)" }
    }
}
fn corrupt_delta(code: u32, d: &mut Delta) -> &'static str {
    match code {
        0 => "unmodified",
        1 => { d.block_size = 0; "block_size = 0" }
        2 => { d.block_size = 1000; "block_size = 1000" }
        3 => { d.block_size = u32::MAX; "block_size = u32::MAX" }
        4 => { d.source_size += 7; "source_size + 7" }
        5 => { d.source_size = d.source_size.saturating_sub(1); "source_size - 1" }
        6 => { d.ops.clear(); d.source_size = 0; "all ops dropped, source_size = 0" }
        7 => { for op in d.ops.iter_mut() { if let DeltaOp::Copy { offset, .. } = op { *offset += 3; break; } } "first copy offset + 3" }
        8 => { d.basis_size = u64::MAX; for op in d.ops.iter_mut() { if let DeltaOp::Copy { offset, .. } = op { *offset = u64::MAX - 2; break; } } "copy near u64::MAX" }
        9 => { d.checksum = StrongHash::zero(); "checksum zeroed" }
        10 => { d.source_size = u64::MAX; "source_size = u64::MAX" }
        12 => { let mut b = *d.checksum.as_bytes(); b[20] ^= 0x01; d.checksum = StrongHash::from_bytes(b); "one bit of checksum byte 20 flipped" }
        13 => { let mut b = *d.checksum.as_bytes(); b[31] ^= 0x80; d.checksum = StrongHash::from_bytes(b); "one bit of checksum byte 31 flipped" }
        14 => { let mut b = *d.checksum.as_bytes(); b[8] ^= 0x10; d.checksum = StrongHash::from_bytes(b); "one bit of checksum byte 8 flipped" }
        _ => { for op in d.ops.iter_mut() { if let DeltaOp::Literal(v) = op { if !v.is_empty() { v[0] ^= 0x40; } break; } } "literal byte flipped" }
    }
}
pub const NSIG: u32 = 9;
pub const NDELTA: u32 = 15;
pub const NSYNC: u32 = 20;
pub const NEDGE: u32 = 8;

fn data(seed: u64) -> (Vec<u8>, Vec<u8>) {
    let basis = crate::engine_w::gen(0, 5000 + (seed % 3000) as usize, seed);
    let mut src = basis.clone();
    let k = (seed as usize * 7919) % src.len();
    src[k] ^= 0x11;
    src.extend_from_slice(b"-appended-tail");
    (basis, src)
}

/// returns a description of the first failure, if any
fn case(stage: u8, code: u32, seed: u64) -> Option<String> {
    let d = tmp(&format!("{stage}-{code}-{seed}"));
    // stage 2 (the unmodified chain) runs at EVERY legal block size; the corruption stages at 1024
    let bs: usize = if stage == 2 { crate::engine_w::BLOCK_SIZES[(code as usize) % 8] } else { 1024 };
    let bss = bs.to_string();
    let (basis, src) = if stage == 2 { let b = crate::engine_w::gen(0, 3 * bs + 777, seed); let mut s = b.clone(); let k = (seed as usize * 7919) % s.len(); s[k] ^= 0x11; s.extend_from_slice(b"-appended-tail"); (b, s) } else { data(seed) };
    std::fs::write(d.join("basis"), &basis).ok()?;
    std::fs::write(d.join("src"), &src).ok()?;
    let r = (|| -> Option<String> {
        let o = run(&["signature", &p(&d, "basis"), "-o", &p(&d, "b.sig"), "-b", &bss]);
        if o.code != Some(0) { return Some(format!("`copia signature -b {bs}` failed on a plain file: {:?} {}", o.code, o.stderr)); }
        let mut sig: Signature = bincode_de(&std::fs::read(d.join("b.sig")).ok()?)?;
        let mut what = "unmodified";
        if stage == 0 { what = corrupt_sig(code, &mut sig); std::fs::write(d.join("b.sig"), bincode_ser(&sig)?).ok()?; }
        let o = run(&["delta", &p(&d, "src"), &p(&d, "b.sig"), "-o", &p(&d, "s.delta")]);
        if o.crashed { return Some(format!("`copia delta` CRASHED (status {:?}) on a signature file altered by: {what}; stderr: {}", o.code, o.stderr)); }
        if o.code != Some(0) { if stage == 2 { return Some(format!("`copia delta` failed on a signature file written by `copia signature -b {bs}`: {}", o.stderr)); } return None; } // reported error: fine
        if stage == 0 && code != 0 { return None; }
        let mut delta: Delta = bincode_de(&std::fs::read(d.join("s.delta")).ok()?)?;
        if stage == 1 { what = corrupt_delta(code, &mut delta); std::fs::write(d.join("s.delta"), bincode_ser(&delta)?).ok()?; }
        let o = run(&["patch", &p(&d, "basis"), &p(&d, "s.delta"), "-o", &p(&d, "out")]);
        if o.crashed { return Some(format!("`copia patch` CRASHED (status {:?}) on a delta file altered by: {what}; stderr: {}", o.code, o.stderr)); }
        if o.code == Some(0) {
            let out = std::fs::read(d.join("out")).ok()?;
            if StrongHash::compute(&out) != delta.checksum {
                return Some(format!("`copia patch` exited 0 but BLAKE3(output file, {} bytes) != the delta's checksum; delta altered by: {what}", out.len()));
            }
            if stage == 2 && out != src { return Some("signature -> delta -> patch through files did not reproduce the source".into()); }
        } else if stage == 2 { return Some(format!("`copia patch` failed on an unmodified chain written by `copia signature -b {bs}` and `copia delta`: {}", o.stderr)); }
        None
    })();
    let _ = std::fs::remove_dir_all(&d);
    r
}

/// C01 single-file sync: `copia sync SRC DST` (AsyncCopiaSync::sync_files) must leave DST byte-identical to SRC and exit 0,
/// for the shapes the property names (reordered / repeated blocks, same length with no new bytes, empty, shorter, longer).
fn sync_case(code: u32, seed: u64) -> Option<String> {
    let d = tmp(&format!("sync-{code}-{seed}"));
    let bs: usize = if code % 2 == 0 { 512 } else { 2048 };
    let blk = |i: u64| crate::engine_w::gen(0, bs, seed * 31 + i);
    let cat = |v: &[Vec<u8>]| v.concat();
    let (b0, b1, b2, b3) = (blk(0), blk(1), blk(2), blk(3));
    let (basis, src, what): (Option<Vec<u8>>, Vec<u8>, &str) = match code / 2 {
        0 => (None, cat(&[b0.clone(), b1.clone()]), "destination absent"),
        1 => (Some(cat(&[b0.clone(), b1.clone(), b2.clone()])), cat(&[b1.clone(), b0.clone(), b2.clone()]), "two blocks swapped (same length, no new bytes)"),
        2 => (Some(cat(&[b0.clone(), b1.clone(), b2.clone()])), cat(&[b0.clone(), b0.clone(), b2.clone()]), "a block repeated in place of another (same length, no new bytes)"),
        3 => (Some(cat(&[b0.clone(), b1.clone(), b2.clone(), b3.clone()])), cat(&[b3.clone(), b2.clone(), b1.clone(), b0.clone()]), "blocks reversed"),
        4 => { let mut s = cat(&[b0.clone(), b1.clone(), b2.clone()]); let k = (seed as usize * 131) % s.len(); s[k] ^= 0x21; (Some(cat(&[b0.clone(), b1.clone(), b2.clone()])), s, "one byte changed") }
        5 => (Some(cat(&[b0.clone(), b1.clone(), b2.clone()])), cat(&[b0.clone(), b2.clone()]), "a block removed"),
        6 => (Some(cat(&[b0.clone(), b1.clone()])), cat(&[b0.clone(), b3[..17].to_vec(), b1.clone()]), "17 bytes inserted at a block boundary"),
        7 => (Some(cat(&[b0.clone(), b1.clone()])), vec![], "empty source"),
        8 => (Some(vec![]), cat(&[b0.clone(), b1.clone()]), "empty destination"),
        _ => (Some(cat(&[b0.clone(), b1.clone(), b2.clone()])), cat(&[b0.clone(), b1.clone(), b2.clone()]), "identical"),
    };
    std::fs::write(d.join("src"), &src).ok()?;
    if let Some(b) = &basis { std::fs::write(d.join("dst"), b).ok()?; }
    let bss = bs.to_string();
    let o = run(&["sync", "-b", &bss, &p(&d, "src"), &p(&d, "dst")]);
    let r = if o.crashed { Some(format!("`copia sync SRC DST` CRASHED (status {:?}); case: {what}, block size {bs}", o.code)) }
        else if o.code != Some(0) { Some(format!("`copia sync SRC DST` failed (status {:?}: {}) on plain files; case: {what}, block size {bs}", o.code, o.stderr)) }
        else { match std::fs::read(d.join("dst")) { Ok(got) if got == src => None,
            Ok(got) => Some(format!("`copia sync SRC DST` exited 0 but DST ({} bytes) is not byte-identical to SRC ({} bytes); case: {what}, block size {bs}", got.len(), src.len())),
            Err(e) => Some(format!("`copia sync SRC DST` exited 0 but DST cannot be read: {e}; case: {what}")) } };
    let _ = std::fs::remove_dir_all(&d);
    r
}
/// edge shapes of the file chain (C01 / C20): empty basis, empty source, one-byte files, exact multiples of the block size
fn edge_case(code: u32, seed: u64) -> Option<String> {
    let d = tmp(&format!("edge-{code}-{seed}"));
    let g = |n: usize, k: u64| crate::engine_w::gen(0, n, seed + k);
    let (basis, src, what): (Vec<u8>, Vec<u8>, &str) = match code {
        0 => (vec![], g(3000, 1), "empty basis"),
        1 => (g(3000, 1), vec![], "empty source"),
        2 => (vec![], vec![], "empty basis and empty source"),
        3 => (g(1, 1), g(1, 2), "one-byte files"),
        4 => (g(2048, 1), g(2048, 1), "exactly two blocks, identical"),
        5 => (g(1023, 1), g(1025, 1), "basis one byte short of a block"),
        6 => (g(1024, 1), { let mut s = g(1024, 1); s.extend_from_slice(&g(1024, 1)); s }, "source = basis block twice"),
        _ => (g(5000, 1), g(5000, 1)[2500..].to_vec(), "source = second half of the basis"),
    };
    std::fs::write(d.join("basis"), &basis).ok()?; std::fs::write(d.join("src"), &src).ok()?;
    let r = (|| -> Option<String> {
        let o = run(&["signature", &p(&d, "basis"), "-o", &p(&d, "b.sig"), "-b", "1024"]);
        if o.code != Some(0) { return Some(format!("`copia signature` failed ({:?}: {}) on: {what}", o.code, o.stderr)); }
        let o = run(&["delta", &p(&d, "src"), &p(&d, "b.sig"), "-o", &p(&d, "s.delta")]);
        if o.code != Some(0) { return Some(format!("`copia delta` failed ({:?}: {}) on a signature file written by `copia signature`; case: {what}", o.code, o.stderr)); }
        let o = run(&["patch", &p(&d, "basis"), &p(&d, "s.delta"), "-o", &p(&d, "out")]);
        if o.code != Some(0) { return Some(format!("`copia patch` failed ({:?}: {}) on an unmodified chain; case: {what}", o.code, o.stderr)); }
        let out = std::fs::read(d.join("out")).ok()?;
        if out != src { return Some(format!("signature -> delta -> patch through files did not reproduce the source; case: {what}")); }
        None
    })();
    let _ = std::fs::remove_dir_all(&d);
    r
}

/// C05 at the CLI, output path shapes: `copia patch BASIS DELTA -o OUT` where OUT is the basis itself (in place), an existing longer
/// file, or a fresh path. Exit 0 only if the OUTPUT FILE as it is afterwards hashes to the delta's checksum.
fn outpath_case(code: u32, seed: u64) -> Option<String> {
    let d = tmp(&format!("out-{code}-{seed}"));
    let g = |n: usize, k: u64| crate::engine_w::gen(0, n, seed + k);
    let basis = g(8 * 1024, 1);
    let (src, what): (Vec<u8>, &str) = match code % 4 {
        0 => (basis[1024..].to_vec(), "the basis with its first block removed (shorter)"),
        1 => (g(3000, 9), "unrelated content, literal only (shorter)"),
        2 => { let mut s = basis.clone(); s.extend_from_slice(&g(5000, 3)); (s, "the basis with a tail appended (longer)") }
        _ => (basis[..2048].to_vec(), "the first two blocks of the basis (shorter)"),
    };
    let place = code / 4;        // 0: output == basis path; 1: output is an existing LONGER file; 2: fresh path
    std::fs::write(d.join("basis"), &basis).ok()?; std::fs::write(d.join("src"), &src).ok()?;
    let r = (|| -> Option<String> {
        if run(&["signature", &p(&d, "basis"), "-o", &p(&d, "b.sig"), "-b", "1024"]).code != Some(0) { return None; }
        if run(&["delta", &p(&d, "src"), &p(&d, "b.sig"), "-o", &p(&d, "s.delta")]).code != Some(0) { return None; }
        let delta: Delta = bincode_de(&std::fs::read(d.join("s.delta")).ok()?)?;
        let out = match place { 0 => "basis", 1 => { std::fs::write(d.join("old-out"), g(40_000, 5)).ok()?; "old-out" } _ => "fresh-out" };
        let o = run(&["patch", &p(&d, "basis"), &p(&d, "s.delta"), "-o", &p(&d, out)]);
        if o.crashed { return Some(format!("`copia patch` CRASHED (status {:?}) writing to {}", o.code, ["the basis path itself", "an existing longer file", "a fresh path"][place as usize])); }
        if o.code == Some(0) {
            let got = std::fs::read(d.join(out)).ok()?;
            if StrongHash::compute(&got) != delta.checksum {
                return Some(format!("`copia patch BASIS DELTA -o OUT` with OUT = {} exited 0, but OUT now holds {} bytes that do not hash to the delta's checksum (the new version is {} bytes: {what})", ["the basis path itself", "an existing longer file", "a fresh path"][place as usize], got.len(), src.len()));
            }
        }
        None
    })();
    let _ = std::fs::remove_dir_all(&d);
    r
}
pub const NOUT: u32 = 12;

fn bincode_de<T: serde::de::DeserializeOwned>(b: &[u8]) -> Option<T> { bincode::deserialize(b).ok() }
fn bincode_ser<T: serde::Serialize>(t: &T) -> Option<Vec<u8>> { bincode::serialize(t).ok() }

/// byte-level corruption (C20 'absurd counts and lengths'): an 8-byte little-endian field of a valid .sig / .delta file is
/// overwritten with 2^40, 2^60 or 2^64-1 at offset `off`, and the CLI reads it under a 1 GiB address-space limit.
/// stage 3 = .sig given to `copia delta`, stage 4 = .delta given to `copia patch`. code = off * 3 + value index.
fn byte_case(stage: u8, code: u32, seed: u64) -> Option<String> {
    use std::os::unix::process::CommandExt;
    let d = tmp(&format!("b{stage}-{code}-{seed}"));
    let (basis, src) = data(seed);
    std::fs::write(d.join("basis"), &basis).ok()?; std::fs::write(d.join("src"), &src).ok()?;
    let r = (|| -> Option<String> {
        if run(&["signature", &p(&d, "basis"), "-o", &p(&d, "b.sig"), "-b", "1024"]).code != Some(0) { return None; }
        if run(&["delta", &p(&d, "src"), &p(&d, "b.sig"), "-o", &p(&d, "s.delta")]).code != Some(0) { return None; }
        let (file, args): (&str, Vec<String>) = if stage == 3 { ("b.sig", vec!["delta".into(), p(&d, "src"), p(&d, "b.sig"), "-o".into(), p(&d, "o.delta")]) } else { ("s.delta", vec!["patch".into(), p(&d, "basis"), p(&d, "s.delta"), "-o".into(), p(&d, "out")]) };
        let mut blob = std::fs::read(d.join(file)).ok()?;
        let (off, vi) = ((code / 3) as usize, code % 3);
        if off + 8 > blob.len() { return None; }
        // offset 0 is the block-size field of both files: there, values whose LOW 32 bits are a legal block size
        let val: u64 = if off == 0 { [(1u64 << 32) + 2048, (1u64 << 63) + 512, (1u64 << 32) + 65536][vi as usize] } else { [1u64 << 40, 1u64 << 60, u64::MAX][vi as usize] };
        blob[off..off + 8].copy_from_slice(&val.to_le_bytes());
        std::fs::write(d.join(file), &blob).ok()?;
        let mut c = Command::new(bin()?);
        c.args(&args).env("RUST_BACKTRACE", "0").stdout(std::process::Stdio::null()).stderr(std::process::Stdio::piped());
        #[allow(unsafe_code)]
        unsafe { c.pre_exec(|| { let l = libc::rlimit { rlim_cur: 1 << 30, rlim_max: 1 << 30 }; libc::setrlimit(libc::RLIMIT_AS, &l); Ok(()) }); }
        let o = c.output().ok()?;
        let code_ = o.status.code();
        if code_.is_none() || code_ == Some(101) || code_ == Some(134) {
            return Some(format!("`copia {}` CRASHED (status {code_:?}) under a 1 GiB limit on a {file} whose 8 bytes at offset {off} were overwritten with {val:#x}: {}", args[0], String::from_utf8_lossy(&o.stderr).chars().take(160).collect::<String>()));
        }
        None
    })();
    let _ = std::fs::remove_dir_all(&d);
    r
}
pub fn search(contract: &str, seed: u64, as_twin: bool) -> i32 {
    if bin().is_none() { eprintln!("COPIA_BIN not set"); if as_twin { println!("CASES 0"); } return 0; }
    let mut cases = 0u64;
    let stages: Vec<(u8, u32)> = if contract.contains("sync_files") { vec![(5, NSYNC)] } else if contract.contains("run_delta") { vec![(0, NSIG), (6, NEDGE)] } else if contract.contains("run_patch") { vec![(1, NDELTA), (7, NOUT)] } else { vec![(2, 8), (6, NEDGE), (5, NSYNC), (7, NOUT), (0, NSIG), (1, NDELTA)] };
    for (stage, n) in stages {
        for code in 0..n {
            cases += 1;
            let r = match stage { 5 => sync_case(code, seed), 6 => edge_case(code, seed), 7 => outpath_case(code, seed), _ => case(stage, code, seed) };
            if let Some(what) = r {
                println!("WITNESS {{\"kind\":\"cli\",\"stage\":{stage},\"code\":{code},\"seed\":{seed},\"what\":\"{}\"}}", what.replace('"', "'").replace('\n', " "));
                if as_twin { println!("CASES {cases}"); }
                return 1;
            }
        }
    }
    // byte-level length corruption: every 5th offset of the first 400 (rotating with the seed), all three values
    if !contract.contains("run_delta") && !contract.contains("run_patch") && !contract.contains("sync_files") || contract == "cli" {
        for stage in [3u8, 4u8] { for vi in 0..3u32 { cases += 1; if let Some(what) = byte_case(stage, vi, seed) {
                println!("WITNESS {{\"kind\":\"cli\",\"stage\":{stage},\"code\":{vi},\"seed\":{seed},\"what\":\"{}\"}}", what.replace('"', "'").replace('\n', " "));
                if as_twin { println!("CASES {cases}"); }
                return 1; } } }
        for stage in [3u8, 4u8] { let mut off = 1 + (seed % 5) as u32; while off < 400 { for vi in 0..3u32 {
            cases += 1;
            if let Some(what) = byte_case(stage, off * 3 + vi, seed) {
                println!("WITNESS {{\"kind\":\"cli\",\"stage\":{stage},\"code\":{},\"seed\":{seed},\"what\":\"{}\"}}", off * 3 + vi, what.replace('"', "'").replace('\n', " "));
                if as_twin { println!("CASES {cases}"); }
                return 1;
            }
        } off += 5; } }
    }
    if as_twin { println!("CASES {cases}"); }
    0
}
pub fn run_w(w: &str) -> i32 {
    let _ = json_str(w, "kind");
    let st = json_u64(w, "stage").unwrap_or(0) as u8;
    let f = match st { 5 => (|_s: u8, c: u32, sd: u64| sync_case(c, sd)) as fn(u8, u32, u64) -> Option<String>, 6 => |_s, c, sd| edge_case(c, sd), 7 => |_s, c, sd| outpath_case(c, sd), 3 | 4 => byte_case, _ => case };
    match f(st, json_u64(w, "code").unwrap_or(0) as u32, json_u64(w, "seed").unwrap_or(0)) {
        Some(what) => { println!("REPRODUCED: {what}"); 1 }
        None => { println!("not reproduced: the CLI reports an error or produces bytes matching the checksum"); 0 }
    }
}
