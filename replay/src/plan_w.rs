//! witness search for `reconcile` (C18) and `build_plan` (C19/C15): exhaustive over small path universes
use crate::cli::plan::{build_plan, FileMeta, MetaMap};
use crate::cli::reconcile::{reconcile, reconcile_path, Action, ConflictKind, FileType, Fingerprint, FpMap};
use crate::twins::ex_ref;
use crate::json_str;
use std::path::PathBuf;

fn fp(code: u8) -> Option<Fingerprint> {
    // 0 = absent; 1..=3 digests as File; 4..=6 same digests as Symlink
    if code == 0 { return None; }
    let (d, t) = if code <= 3 { (code, FileType::File) } else { (code - 3, FileType::Symlink) };
    Some(Fingerprint { blake3: [d; 32], ftype: t })
}
fn same(x: &Option<Fingerprint>, y: &Option<Fingerprint>) -> bool {
    matches!((x, y), (Some(p), Some(q)) if p.blake3 == q.blake3 && p.ftype == q.ftype)
}
pub fn table(a: &Option<Fingerprint>, b: &Option<Fingerprint>, z: &Option<Fingerprint>) -> Action {
    match (a.is_some(), b.is_some()) {
        (false, false) => Action::Noop,
        (true, true) => {
            if same(a, b) { if same(a, z) { Action::Noop } else { Action::ConvergeIdentical } }
            else if !same(a, z) && same(b, z) { Action::PropagateAtoB }
            else if same(a, z) && !same(b, z) { Action::PropagateBtoA }
            else { Action::Conflict(ConflictKind::BothChanged) }
        }
        (true, false) => if z.is_none() { Action::PropagateAtoB } else if same(a, z) { Action::DeleteA } else { Action::Conflict(ConflictKind::DeleteVsModify) },
        (false, true) => if z.is_none() { Action::PropagateBtoA } else if same(b, z) { Action::DeleteB } else { Action::Conflict(ConflictKind::DeleteVsModify) },
    }
}

/// path names for the tree-level check. Set 0: p0, p1, ... Set 1: a directory next to siblings whose names extend it with a byte
/// below '/' ('.', '-', ' ') - where component order (PathBuf's Ord) and byte order disagree
fn pname(set: u8, i: usize) -> PathBuf {
    const AWK: [&str; 6] = ["lib/mod.rs", "lib.rs", "lib/util.rs", "lib-old", "lib/a b", "lib ext"];
    if set == 0 { PathBuf::from(format!("p{i}")) } else { PathBuf::from(AWK[i % AWK.len()]) }
}
fn mk(codes: &[u8]) -> FpMap { mk_set(codes, 0) }
fn mk_set(codes: &[u8], set: u8) -> FpMap {
    let mut m = FpMap::new();
    for (i, &c) in codes.iter().enumerate() {
        if let Some(f) = fp(c) { m.insert(pname(set, i), f); }
    }
    m
}
/// the same statement over the awkward names: the result is exactly one non-trivial table decision per path of the union, in
/// PathBuf order
fn check_reconcile_awk(a: &[u8], b: &[u8], z: &[u8], trust: bool) -> Option<String> {
    let (ma, mb, mz) = (mk_set(a, 1), mk_set(b, 1), mk_set(z, 1));
    let got = reconcile(&ma, &mb, &mz, trust);
    let mut want: Vec<(PathBuf, Action)> = vec![];
    for i in 0..a.len() {
        let base = if trust { fp(z[i]) } else { None };
        let act = table(&fp(a[i]), &fp(b[i]), &base);
        if act != Action::Noop { want.push((pname(1, i), act)); }
    }
    want.sort_by(|x, y| x.0.cmp(&y.0));
    if got != want { Some(format!("reconcile over sibling names like lib.rs / lib/mod.rs (a={a:?}, b={b:?}, base={z:?}, trust={trust}) = {:?}, the table over the union of paths gives {:?}", got.iter().map(|(p, x)| format!("{}:{x:?}", p.display())).collect::<Vec<_>>(), want.iter().map(|(p, x)| format!("{}:{x:?}", p.display())).collect::<Vec<_>>())) } else { None }
}

fn check_reconcile(a: &[u8], b: &[u8], z: &[u8], trust: bool) -> Option<String> {
    let (ma, mb, mz) = (mk(a), mk(b), mk(z));
    let got = reconcile(&ma, &mb, &mz, trust);
    let mut want = vec![];
    for i in 0..a.len() {
        let base = if trust { fp(z[i]) } else { None };
        let act = table(&fp(a[i]), &fp(b[i]), &base);
        if act != Action::Noop { want.push((PathBuf::from(format!("p{i}")), act)); }
    }
    if got != want { Some(format!("reconcile(a={a:?}, b={b:?}, base={z:?}, trust={trust}) = {got:?}, the table over the union of paths gives {want:?}")) } else { None }
}

pub fn search_reconcile() -> i32 {
    // per-path first (all 7^3), then all two-path maps
    for a in 0..7u8 { for b in 0..7u8 { for z in 0..7u8 {
        let got = reconcile_path(fp(a), fp(b), fp(z));
        let want = table(&fp(a), &fp(b), &fp(z));
        if got != want {
            println!("WITNESS {{\"kind\":\"reconcile\",\"a\":\"{a}\",\"b\":\"{b}\",\"z\":\"{z}\",\"trust\":1,\"what\":\"reconcile_path(code {a}, code {b}, code {z}) = {got:?}, table says {want:?} (codes: 0 absent, 1-3 file digests, 4-6 same digests as symlink)\"}}");
            return 1;
        }
    }}}
    // six awkward sibling names, every presence/equality shape with 3 codes per side (3^18 is too many: two sides vary, the
    // base follows side A or is absent)
    for trust in [true, false] { for n in 0..(3u32.pow(12)) {
        let c: Vec<u8> = (0..12).map(|k| ((n / 3u32.pow(k)) % 3) as u8).collect();
        let (a, b) = (&c[0..6], &c[6..12]);
        for zmode in 0..2 { let z: Vec<u8> = if zmode == 0 { a.to_vec() } else { vec![0; 6] };
            if let Some(what) = check_reconcile_awk(a, b, &z, trust) {
                println!("WITNESS {{\"kind\":\"reconcile-awk\",\"a\":\"{}\",\"b\":\"{}\",\"z\":\"{}\",\"trust\":{},\"what\":\"{}\"}}", a.iter().map(|x| x.to_string()).collect::<String>(), b.iter().map(|x| x.to_string()).collect::<String>(), z.iter().map(|x| x.to_string()).collect::<String>(), trust as u8, what.replace('"', "'"));
                return 1;
            }
        }
    } }
    for trust in [true, false] {
        for n in 0..(7u32.pow(6)) {
            let c: Vec<u8> = (0..6).map(|k| ((n / 7u32.pow(k)) % 7) as u8).collect();
            if let Some(what) = check_reconcile(&c[0..2], &c[2..4], &c[4..6], trust) {
                println!("WITNESS {{\"kind\":\"reconcile\",\"a\":\"{}{}\",\"b\":\"{}{}\",\"z\":\"{}{}\",\"trust\":{},\"what\":\"{}\"}}", c[0], c[1], c[2], c[3], c[4], c[5], trust as u8, what.replace('"', "'"));
                return 1;
            }
        }
    }
    0
}

pub fn run_reconcile_awk(w: &str) -> i32 {
    let d = |k: &str| -> Vec<u8> { json_str(w, k).unwrap_or_default().bytes().map(|c| c - b'0').collect() };
    match check_reconcile_awk(&d("a"), &d("b"), &d("z"), json_str(w, "trust").unwrap_or_default() == "1") { Some(what) => { println!("REPRODUCED: {what}"); 1 } None => { println!("not reproduced"); 0 } }
}
pub fn run_reconcile(w: &str) -> i32 {
    let d = |k: &str| -> Vec<u8> { json_str(w, k).unwrap_or_default().bytes().map(|c| c - b'0').collect() };
    let (a, b, z) = (d("a"), d("b"), d("z"));
    let trust = json_str(w, "trust").unwrap_or_default() == "1";
    if a.len() == 1 {
        let got = reconcile_path(fp(a[0]), fp(b[0]), fp(z[0]));
        let want = table(&fp(a[0]), &fp(b[0]), &fp(z[0]));
        if got != want { println!("REPRODUCED: reconcile_path = {got:?}, table says {want:?}"); return 1; }
        println!("not reproduced"); return 0;
    }
    match check_reconcile(&a, &b, &z, trust) {
        Some(what) => { println!("REPRODUCED: {what}"); 1 }
        None => { println!("not reproduced"); 0 }
    }
}

// ---- build_plan vs its set definition
fn meta(code: u8) -> Option<FileMeta> {
    match code { 0 => None, 1 => Some(FileMeta { size: 1, mtime: 1 }), 2 => Some(FileMeta { size: 2, mtime: 1 }), _ => Some(FileMeta { size: 1, mtime: 2 }) }
}
// set 0: plain names (and a glob metacharacter); sets 1, 2: a directory next to siblings whose names extend it with a byte below
// '/' - where component order (PathBuf's Ord, the maps' order) and byte order of the rendered path disagree
const PATHS: [[&str; 3]; 3] = [["a", "d/b", "*a"], ["r/q", "r.txt", "r-old/q"], ["v1/x", "v1 b/x", "v1.1"]];
fn mkm(codes: &[u8], set: usize) -> MetaMap {
    let mut m = MetaMap::new();
    for (i, &c) in codes.iter().enumerate() { if let Some(x) = meta(c) { m.insert(PathBuf::from(PATHS[set % 3][i]), x); } }
    m
}
fn check_plan(s: &[u8], d: &[u8], ex: &[String], del: bool, set: usize) -> Option<String> {
    let (ms, md) = (mkm(s, set), mkm(d, set));
    let got = build_plan(&ms, &md, ex, del);
    let mut transfer = vec![]; let mut skipped = 0usize; let mut delete = vec![];
    for (p, m) in &ms {
        if ex_ref(&p.to_string_lossy(), ex) { continue; }
        let need = match md.get(p) { None => true, Some(x) => x.size != m.size || x.mtime != m.mtime };
        if need { transfer.push(p.clone()) } else { skipped += 1 }
    }
    if del { for p in md.keys() { if !ms.contains_key(p) && !ex_ref(&p.to_string_lossy(), ex) { delete.push(p.clone()); } } }
    transfer.sort(); delete.sort();
    if got.transfer != transfer || got.skipped != skipped || got.delete != delete {
        Some(format!("build_plan(src={s:?}, dst={d:?} over the paths {:?}, excludes={ex:?}, delete={del}) =", PATHS[set % 3]).replace(") =", ")") + &format!(" = transfer {:?} skipped {} delete {:?}; the set definition gives transfer {:?} skipped {} delete {:?}", got.transfer, got.skipped, got.delete, transfer, skipped, delete))
    } else { None }
}
pub fn search_plan() -> i32 {
    let exs: Vec<Vec<String>> = vec![vec![], vec!["a".into()], vec!["d".into()], vec!["*".into()], vec!["d/*".into()], vec!["?a".into(), "b".into()]];
    for n in 0..(4u32.pow(6)) {
        let c: Vec<u8> = (0..6).map(|k| ((n / 4u32.pow(k)) % 4) as u8).collect();
        for set in 0..3usize { for (ei, ex) in exs.iter().enumerate() { for del in [false, true] {
            if let Some(what) = check_plan(&c[0..3], &c[3..6], ex, del, set) {
                println!("WITNESS {{\"kind\":\"build_plan\",\"src\":\"{}{}{}\",\"dst\":\"{}{}{}\",\"ex\":{},\"del\":{},\"set\":\"{set}\",\"what\":\"{}\"}}", c[0], c[1], c[2], c[3], c[4], c[5], ei, del as u8, what.replace('"', "'"));
                return 1;
            }
        }}}
    }
    0
}
pub fn run_plan(w: &str) -> i32 {
    let exs: Vec<Vec<String>> = vec![vec![], vec!["a".into()], vec!["d".into()], vec!["*".into()], vec!["d/*".into()], vec!["?a".into(), "b".into()]];
    let d = |k: &str| -> Vec<u8> { json_str(w, k).unwrap_or_default().bytes().map(|c| c - b'0').collect() };
    let ei: usize = json_str(w, "ex").and_then(|s| s.parse().ok()).unwrap_or(0);
    let del = json_str(w, "del").unwrap_or_default() == "1";
    let set: usize = json_str(w, "set").and_then(|s| s.parse().ok()).unwrap_or(0);
    match check_plan(&d("src"), &d("dst"), &exs[ei.min(exs.len() - 1)], del, set) {
        Some(what) => { println!("REPRODUCED: {what}"); 1 }
        None => { println!("not reproduced"); 0 }
    }
}
