//! scenario oracle for `copia bisync` on the REAL binary ($COPIA_BIN, $HOME redirected): witnesses for the bisync
//! obligations (C02 no version lost, C06 converge/record/idempotent, C07 archive faults never delete, C15 dry run).
//! Histories are hand-built from the property quantifiers; nothing here decides a property.
use crate::{json_str, json_u64};
use std::collections::{BTreeMap, BTreeSet};
use std::path::{Path, PathBuf};
use std::process::Command;

type Tree = BTreeMap<String, Vec<u8>>;

#[derive(Clone, Debug)]
pub enum Step {
    W(u8, &'static str, &'static str), // write(side, path, content)
    D(u8, &'static str),               // delete(side, path)
    S,                                  // bisync
    Dry,                                // bisync --dry-run
    EditConflictCopy(u8, &'static str), // overwrite every *.conflict-* file on a side
    DelConflictCopies,                  // delete every conflict copy on both sides
    DelConflictCopiesOn(u8),            // delete every conflict copy on one side
    ArchiveFault(u8),                   // 0 remove, 1 truncate to 0, 2 garbage, 3 cut in half, 4 version bump, 5 keep only .bak
    WinOver(&'static str, u8, &'static str), // write on `side` some content whose BLAKE3 beats the given content at path
    NormMtime,                          // give EVERY file of both trees one and the same modification time, long in the past
    Leftover(u8, &'static str, &'static str), // a staging file `<path>.copia-tmp` left by a killed run (partial bytes, recent mtime)
    SVia(u8),                           // bisync with root A spelled differently: 1 = through a symlink `A-link`, 2 = as `A/../A`
    ReplaceDirByFile(u8, &'static str, &'static str), // remove the directory at path (with everything in it) on one side and write a regular file there
    LowLoser(&'static str, u8),         // divergent edit at path: side A gets content whose BLAKE3 starts with n zero hex digits (the loser), side B content whose BLAKE3 starts with f
}
use Step::*;

/// a legal 250-byte file name: `<name>.copia-tmp` exceeds NAME_MAX, so staging a copy of it fails
const LONG_NAME: &str = "nnnnnnnnnnnnnnnnnnnnnnnnnnnnnnnnnnnnnnnnnnnnnnnnnnnnnnnnnnnnnnnnnnnnnnnnnnnnnnnnnnnnnnnnnnnnnnnnnnnnnnnnnnnnnnnnnnnnnnnnnnnnnnnnnnnnnnnnnnnnnnnnnnnnnnnnnnnnnnnnnnnnnnnnnnnnnnnnnnnnnnnnnnnnnnnnnnnnnnnnnnnnnnnnnnnnnnnnnnnnnnnnnnnnnnnnnnnnnnnnnnnnnnnnnn";
/// a legal 245-byte file name: `<name>.copia-tmp` is exactly 255 bytes, the longest name a directory entry can have
const NAME_245: &str = "mmmmmmmmmmmmmmmmmmmmmmmmmmmmmmmmmmmmmmmmmmmmmmmmmmmmmmmmmmmmmmmmmmmmmmmmmmmmmmmmmmmmmmmmmmmmmmmmmmmmmmmmmmmmmmmmmmmmmmmmmmmmmmmmmmmmmmmmmmmmmmmmmmmmmmmmmmmmmmmmmmmmmmmmmmmmmmmmmmmmmmmmmmmmmmmmmmmmmmmmmmmmmmmmmmmmmmmmmmmmmmmmmmmmmmmmmmmmmmmmmmmmm";
pub fn scenarios() -> Vec<(&'static str, Vec<Step>)> {
    vec![
        ("create-propagate-modify", vec![W(0, "f", "v1"), S, W(0, "f", "v2"), S, W(1, "f", "v3"), S, Dry]),
        ("modify-on-second-root", vec![W(0, "d/f", "v1"), S, W(1, "d/f", "v2-from-b"), S, Dry, W(0, "d/f", "v3"), S]),
        ("delete-propagates", vec![W(0, "f", "v1"), W(0, "g", "g1"), S, D(0, "f"), S, D(1, "g"), S]),
        ("delete-both-then-recreate (H6)", vec![W(0, "f", "same"), S, D(0, "f"), D(1, "f"), S, W(0, "f", "same"), S]),
        ("divergent-edit", vec![W(0, "f", "base"), S, W(0, "f", "aaa"), W(1, "f", "bbb"), S, S]),
        ("delete-vs-modify", vec![W(0, "f", "base"), S, D(0, "f"), W(1, "f", "changed"), S]),
        ("identical-edit-then-revert", vec![W(0, "f", "v1"), S, W(0, "f", "v2"), W(1, "f", "v2"), S, W(0, "f", "v1"), W(1, "f", "v3"), S]),
        ("identical-edit-then-revert-vs-delete", vec![W(0, "f", "v1"), S, W(0, "f", "v2"), W(1, "f", "v2"), S, W(0, "f", "v1"), D(1, "f"), S]),
        ("repeat-conflict-after-copy-deleted", vec![W(0, "f", "aaa"), W(1, "f", "bbb"), S, DelConflictCopies, S, W(1, "f", "aaa"), WinOver("f", 0, "aaa"), S]),
        ("repeat-conflict-copy-deleted-on-one-side", vec![W(0, "f", "aaa"), W(1, "f", "bbb"), S, DelConflictCopiesOn(0), W(1, "f", "aaa"), WinOver("f", 0, "aaa"), S]),
        ("repeat-conflict-edited-copy (H7)", vec![W(0, "f", "aaa"), W(1, "f", "bbb"), S, EditConflictCopy(0, "EDITED-BY-USER"), W(1, "f", "aaa"), WinOver("f", 0, "aaa"), S]),
        ("archive-removed", vec![W(0, "f", "v1"), W(0, "g", "g1"), S, D(1, "g"), ArchiveFault(0), S]),
        ("archive-truncated", vec![W(0, "f", "v1"), S, W(0, "h", "h1"), S, D(0, "f"), ArchiveFault(3), S]),
        ("archive-garbage", vec![W(0, "f", "v1"), S, D(1, "f"), ArchiveFault(2), S]),
        ("archive-zero-length", vec![W(0, "f", "v1"), S, W(0, "g", "g"), S, D(1, "f"), ArchiveFault(1), S]),
        ("archive-other-version", vec![W(0, "f", "v1"), S, D(1, "f"), ArchiveFault(4), S]),
        ("archive-version-zero", vec![W(0, "f", "v1"), S, D(1, "f"), ArchiveFault(6), S]),
        ("archive-version-max", vec![W(0, "f", "v1"), W(0, "g", "g1"), S, D(0, "g"), ArchiveFault(7), S]),
        ("delete-propagated-then-recreated-with-the-old-bytes", vec![W(0, "f", "v1"), W(0, "g", "g1"), S, D(0, "f"), S, W(0, "f", "v1"), S, S]),
        ("delete-propagated-then-recreated-on-the-other-side", vec![W(0, "f", "v1"), S, D(1, "f"), S, W(0, "f", "v1"), S, D(0, "f"), S, W(1, "f", "v1"), S]),
        ("delete-propagated-then-recreated-old-vs-new", vec![W(0, "f", "v1"), S, D(1, "f"), S, W(0, "f", "v1"), W(1, "f", "a-different-file"), S, S]),
        ("conflict-copy-name-leading-zero (C06)", vec![LowLoser("f", 1), S, S]),
        ("conflict-copy-name-two-leading-zeros (C06)", vec![W(0, "d/f", "base"), S, LowLoser("d/f", 2), S, S, Dry]),
        ("conflict-copy-name-three-leading-zeros (C06)", vec![W(0, "f", "base"), S, LowLoser("f", 3), S]),
        ("one-sided-create-whose-delivery-fails-is-not-deleted-by-the-next-run", vec![W(0, "ok", "fine"), S, W(0, LONG_NAME, "created on A only"), S, S, S]),
        ("one-sided-create-on-B-whose-delivery-fails", vec![W(1, "ok", "fine"), S, W(1, LONG_NAME, "created on B only"), S, S]),
        ("directory-replaced-by-a-file", vec![W(0, "x/y", "inner"), W(0, "keep", "k"), S, ReplaceDirByFile(0, "x", "now a file"), S, S]),
        ("file-over-a-leftover-empty-directory", vec![W(0, "d/f", "v1"), S, D(0, "d/f"), S, ReplaceDirByFile(0, "d", "a file named d"), S, S]),
        ("equal-size-equal-old-mtime-one-sided-edit (C18: only content decides)", vec![W(0, "f", "base"), S, W(1, "f", "edit"), NormMtime, S, S]),
        ("equal-size-equal-old-mtime-first-run (C18: only content decides)", vec![W(0, "f", "aaaa"), W(1, "f", "bbbb"), W(0, "g", "same"), W(1, "g", "same"), NormMtime, S, S]),
        ("divergent-edit-of-a-file-whose-name-extends-a-directory-name (notes/ next to notes.txt)", vec![W(0, "notes/a", "a"), W(0, "notes.txt", "base"), S, W(0, "notes.txt", "edit-on-A"), W(1, "notes.txt", "edit-on-B"), W(0, "notes/new", "one-sided"), S, S]),
        ("divergent-edit-next-to-a-directory (src/ next to src-old)", vec![W(0, "src/x", "x"), W(0, "src-old", "base"), S, W(0, "src-old", "A-version"), W(1, "src-old", "B-version"), D(1, "src/x"), S, S]),
        ("name-of-exactly-245-bytes", vec![W(0, NAME_245, "v1"), S, W(1, NAME_245, "v2-from-B"), S, S]),
        ("archive-without-format-version", vec![W(0, "f", "v1"), W(0, "keep", "k"), S, D(1, "f"), W(1, "keep", "changed"), ArchiveFault(8), S]),
        ("archive-without-epoch", vec![W(0, "f", "v1"), S, D(1, "f"), ArchiveFault(9), S]),
        ("archive-without-host-id", vec![W(0, "f", "v1"), S, D(0, "f"), ArchiveFault(10), S]),
        ("the-same-pair-under-another-spelling-and-back (symlinked root)", vec![W(0, "f", "v1"), W(0, "g", "g1"), S, SVia(1), W(0, "f", "v2"), SVia(1), W(0, "f", "v1"), W(1, "f", "v3-from-B"), S, S]),
        ("the-same-pair-under-another-spelling-and-back (dot-dot spelling)", vec![W(0, "q", "q1"), W(0, "keep", "k"), S, SVia(2), D(0, "q"), SVia(2), W(1, "q", "q1"), S, S]),
        ("archive-with-a-blank-pair-id", vec![W(0, "f", "v1"), W(0, "k", "k"), S, D(1, "f"), W(1, "k", "changed"), ArchiveFault(11), S]),
        ("archive-with-a-clipped-pair-id", vec![W(0, "f", "v1"), S, D(0, "f"), ArchiveFault(12), S]),
        ("dry-run-with-only-the-backup-archive-left", vec![W(0, "keep", "k1"), S, W(0, "x", "x1"), S, W(1, "x", "x2"), ArchiveFault(5), Dry, Dry]),
        ("archive-only-bak", vec![W(0, "keep", "k1"), S, W(0, "x", "x1"), S, D(1, "keep"), ArchiveFault(5), S]),
        ("equal-size-equal-mtime-edit (C06 mtime independence)", vec![W(0, "f", "aaaa"), W(0, "g", "keep"), S, W(0, "f", "bbbb"), NormMtime, S, S, Dry]),
        ("equal-size-equal-mtime-conflict (C06 mtime independence)", vec![W(0, "f", "base"), S, W(0, "f", "aaa1"), W(1, "f", "bbb2"), NormMtime, S, S]),
        ("leftover-staging-file-is-not-trusted (C08)", vec![Leftover(1, "f", "PART"), W(0, "f", "the-complete-content"), S, S]),
        ("leftover-staging-file-on-overwrite (C08)", vec![W(0, "f", "v1"), S, Leftover(1, "f", "v"), W(0, "f", "version-two"), S, S]),
        ("dry-run-in-sync", vec![W(0, "f", "v1"), S, S, Dry]),
        ("dry-run-pending", vec![W(0, "f", "v1"), S, W(1, "f", "v2"), D(0, "f"), Dry]),
    ]
}

struct Env { dir: PathBuf, spelling: std::cell::Cell<u8> }
impl Env {
    fn new(tagx: &str) -> Env {
        let d = std::env::temp_dir().join(format!("copia-verif-bisync-{}-{}", std::process::id(), tagx.replace(|c: char| !c.is_alphanumeric(), "_")));
        let _ = std::fs::remove_dir_all(&d);
        for s in ["A", "B", "home"] { let _ = std::fs::create_dir_all(d.join(s)); }
        Env { dir: d, spelling: std::cell::Cell::new(0) }
    }
    fn side(&self, s: u8) -> PathBuf { self.dir.join(if s == 0 { "A" } else { "B" }) }
    fn run(&self, dry: bool) -> (Option<i32>, String) {
        let b = std::env::var("COPIA_BIN").unwrap_or_default();
        let mut c = Command::new(b);
        c.arg("bisync");
        if dry { c.arg("--dry-run"); }
        let a = match self.spelling.get() { 1 => { let l = self.dir.join("A-link"); if std::fs::symlink_metadata(&l).is_err() { let _ = std::os::unix::fs::symlink(self.side(0), &l); } l } 2 => self.side(0).join("..").join("A"), _ => self.side(0) };
        c.arg(a).arg(self.side(1)).env("HOME", self.dir.join("home")).env("HOSTNAME", "vh").env("RUST_BACKTRACE", "0");
        match c.output() { Ok(o) => (o.status.code(), format!("{}{}", String::from_utf8_lossy(&o.stdout), String::from_utf8_lossy(&o.stderr))), Err(e) => (Some(-1), e.to_string()) }
    }
    fn tree(&self, s: u8) -> Tree {
        fn walk(root: &Path, d: &Path, out: &mut Tree) {
            if let Ok(rd) = std::fs::read_dir(d) { for e in rd.flatten() { let p = e.path(); if p.is_dir() { walk(root, &p, out) } else if let Ok(b) = std::fs::read(&p) { out.insert(p.strip_prefix(root).map(|x| x.to_string_lossy().into_owned()).unwrap_or_default(), b); } } }
        }
        let mut t = Tree::new();
        let r = self.side(s);
        walk(&r, &r, &mut t);
        t
    }
    fn home_snapshot(&self) -> Tree {
        let mut t = Tree::new();
        fn walk(root: &Path, d: &Path, out: &mut Tree) {
            if let Ok(rd) = std::fs::read_dir(d) { for e in rd.flatten() { let p = e.path(); if p.is_dir() { walk(root, &p, out) } else if let Ok(b) = std::fs::read(&p) { out.insert(p.strip_prefix(root).map(|x| x.to_string_lossy().into_owned()).unwrap_or_default(), b); } } }
        }
        let r = self.dir.join("home");
        walk(&r, &r, &mut t);
        t
    }
    fn archive_file(&self) -> Option<PathBuf> {
        let d = self.dir.join("home/.copia/archive");
        std::fs::read_dir(d).ok()?.flatten().map(|e| e.path()).find(|p| p.extension().map(|x| x == "json").unwrap_or(false))
    }
}
impl Drop for Env { fn drop(&mut self) { let _ = std::fs::remove_dir_all(&self.dir); } }

fn b3(b: &[u8]) -> String { blake3::hash(b).to_hex().to_string() }

/// run one history; return the first violated clause
pub fn run_history(name: &str, steps: &[Step]) -> Option<String> { run_history_all(name, steps).into_iter().next() }
pub fn run_history_all(name: &str, steps: &[Step]) -> Vec<String> {
    let mut found: Vec<String> = vec![];
    macro_rules! bad { ($e:expr) => {{ found.push($e); }} }
    macro_rules! stop { ($e:expr) => {{ found.push($e); return found; }} }
    let env = Env::new(name);
    let mut base: Tree = Tree::new();      // common state at the end of the previous completed run
    let mut faulted = false;               // an archive fault was injected since the last completed run
    for (si, st) in steps.iter().enumerate() {
        match st {
            W(s, p, c) => {
                let other = env.tree(1 - *s);
                let f = env.side(*s).join(p); if let Some(d) = f.parent() { let _ = std::fs::create_dir_all(d); } let _ = std::fs::write(f, c);
                let other2 = env.tree(1 - *s);
                if other2 != other { let q: Vec<&String> = other.keys().filter(|k| other.get(*k) != other2.get(*k)).collect(); bad!(format!("[{name}] step {si}: writing `{p}` in place on side {} changed {q:?} on the OTHER side: the two replicas share storage (a delivered file is the same inode on both sides), so the other side's version is gone without any run, and a divergent edit can no longer exist (C02) (C06)", if *s == 0 { "A" } else { "B" })); }
            }
            D(s, p) => { let _ = std::fs::remove_file(env.side(*s).join(p)); }
            EditConflictCopy(s, c) => { for (p, _) in env.tree(*s) { if p.contains(".conflict-") { let _ = std::fs::write(env.side(*s).join(&p), c); } } }
            DelConflictCopiesOn(s) => { for (p, _) in env.tree(*s) { if p.contains(".conflict-") { let _ = std::fs::remove_file(env.side(*s).join(&p)); } } }
            DelConflictCopies => { for s in 0..2 { for (p, _) in env.tree(s) { if p.contains(".conflict-") { let _ = std::fs::remove_file(env.side(s).join(&p)); } } } }
            NormMtime => {
                let t = std::time::UNIX_EPOCH + std::time::Duration::from_secs(1_500_000_000);
                for s in 0..2 { for (p, _) in env.tree(s) { if let Ok(f) = std::fs::File::options().write(true).open(env.side(s).join(&p)) { let _ = f.set_modified(t); } } }
            }
            Leftover(s, p, c) => {
                let f = env.side(*s).join(format!("{p}.copia-tmp")); if let Some(d) = f.parent() { let _ = std::fs::create_dir_all(d); }
                let _ = std::fs::write(&f, c);
                if let Ok(h) = std::fs::File::options().write(true).open(&f) { let _ = h.set_modified(std::time::SystemTime::now() + std::time::Duration::from_secs(3600)); }
            }
            WinOver(p, s, other) => {
                let target = blake3::hash(other.as_bytes());
                for i in 0..4096 { let c = format!("winner-{i}"); if blake3::hash(c.as_bytes()).as_bytes() > target.as_bytes() { let _ = std::fs::write(env.side(*s).join(p), c); break; } }
            }
            ReplaceDirByFile(sd, p, c) => { let f = env.side(*sd).join(p); let _ = std::fs::remove_dir_all(&f); let _ = std::fs::write(&f, c); }
            LowLoser(p, zeros) => {
                let z = *zeros as usize;
                let (fa, fb) = (env.side(0).join(p), env.side(1).join(p));
                for f in [&fa, &fb] { if let Some(d) = f.parent() { let _ = std::fs::create_dir_all(d); } }
                for i in 0..2_000_000u32 { let c = format!("low-{i}"); let h = b3(c.as_bytes()); if h.starts_with(&"0".repeat(z)) && h.as_bytes()[z] != b'0' { let _ = std::fs::write(&fa, c); break; } }
                for i in 0..4096u32 { let c = format!("high-{i}"); if b3(c.as_bytes()).starts_with('f') { let _ = std::fs::write(&fb, c); break; } }
            }
            ArchiveFault(k) => {
                faulted = true;
                if let Some(a) = env.archive_file() {
                    let bytes = std::fs::read(&a).unwrap_or_default();
                    match k {
                        0 => { let _ = std::fs::remove_file(&a); let _ = std::fs::remove_file(a.with_extension("json.bak")); }
                        1 => { let _ = std::fs::write(&a, b""); }
                        2 => { let _ = std::fs::write(&a, b"{ not json at all \x00\xff"); }
                        3 => { let _ = std::fs::write(&a, &bytes[..bytes.len() / 2]); }
                        4 => { let _ = std::fs::write(&a, String::from_utf8_lossy(&bytes).replace("\"format_version\": 1", "\"format_version\": 2")); }
                        6 => { let _ = std::fs::write(&a, String::from_utf8_lossy(&bytes).replace("\"format_version\": 1", "\"format_version\": 0")); }
                        7 => { let _ = std::fs::write(&a, String::from_utf8_lossy(&bytes).replace("\"format_version\": 1", "\"format_version\": 4294967295")); }
                        11 | 12 => { let t = String::from_utf8_lossy(&bytes).into_owned(); if let Some(i) = t.find("\"root_pair_hash\": \"") { let st = i + "\"root_pair_hash\": \"".len(); if let Some(e) = t[st..].find('"') { let keep = if *k == 11 { 0 } else { 8.min(e) }; let nt = format!("{}{}{}", &t[..st], &t[st..st + keep], &t[st + e..]); let _ = std::fs::write(&a, nt); } } }
                        8 | 9 | 10 => { let key = ["\"format_version\"", "\"epoch\"", "\"host_id\""][(*k - 8) as usize]; let t: String = String::from_utf8_lossy(&bytes).lines().filter(|l| !l.trim_start().starts_with(key)).collect::<Vec<_>>().join("\n"); let _ = std::fs::write(&a, t); }
                        _ => { let _ = std::fs::remove_file(&a); } // only .bak (and maybe .tmp) left behind
                    }
                }
            }
            Dry => {
                let (ta, tb, th) = (env.tree(0), env.tree(1), env.home_snapshot());
                let (_code, out) = env.run(true);
                if env.tree(0) != ta || env.tree(1) != tb { bad!(format!("[{name}] step {si}: bisync --dry-run changed a file in a tree (C15)")); }
                if env.home_snapshot() != th { bad!(format!("[{name}] step {si}: bisync --dry-run changed the recorded state under $HOME (archive rewritten) (C15)")); }
                let _ = out;
            }
            S | SVia(_) => {
                env.spelling.set(if let SVia(k) = st { *k } else { 0 });
                let (ta, tb) = (env.tree(0), env.tree(1));
                // idempotence (C06), observed without reading the program's messages: a copy publishes by rename, so a file the
                // run delivered has a new inode
                let inodes = |e: &Env| -> BTreeMap<String, u64> { use std::os::unix::fs::MetadataExt; let mut m = BTreeMap::new(); for sd in 0..2u8 { for p in e.tree(sd).keys() { if let Ok(md) = std::fs::metadata(e.side(sd).join(p)) { m.insert(format!("{sd}/{p}"), md.ino()); } } } m };
                let settled = ta == tb && base == ta && !faulted;
                let ino0 = inodes(&env);
                let (code, out) = env.run(false);
                if settled { let ino1 = inodes(&env); if ino1 != ino0 { let d: Vec<&String> = ino0.keys().chain(ino1.keys()).filter(|k| ino0.get(*k) != ino1.get(*k)).collect(); bad!(format!("[{name}] step {si}: a run right after a completed run, with nothing changed, rewrote {d:?} (C06 idempotence)")); } }
                let (na, nb) = (env.tree(0), env.tree(1));
                let completed = code == Some(0) || out.contains("conflict(s) preserved");
                if code.is_none() || code == Some(101) || code == Some(134) { stop!(format!("[{name}] step {si}: bisync crashed: {}", out.chars().take(200).collect::<String>())); }
                // C02: every version present before still exists on both sides, unless it was the base version of its
                // path and the other side changed or deleted that path
                for (side, before, other) in [(0u8, &ta, &tb), (1u8, &tb, &ta)] {
                    for (p, v) in before.iter() {
                        if p.ends_with(".copia-tmp") { continue; }
                        let may_go = !faulted && base.get(p) == Some(v) && other.get(p) != Some(v);
                        if may_go { continue; }
                        let on_a = na.values().any(|x| x == v); let on_b = nb.values().any(|x| x == v);
                        if completed && !(on_a && on_b) {
                            bad!(format!("[{name}] step {si}: the version {:?} of `{p}` (side {}) present before the run is gone from side {} afterwards (C02)", String::from_utf8_lossy(v), if side == 0 { "A" } else { "B" }, if !on_a { "A" } else { "B" }));
                        }
                    }
                }
                // C08: a live path never holds bytes that were not a complete version of something before the run
                // (a staging leftover, a truncated or mixed file)
                let versions: BTreeSet<&Vec<u8>> = ta.iter().chain(tb.iter()).filter(|(p, _)| !p.ends_with(".copia-tmp")).map(|(_, v)| v).collect();
                for (after, s) in [(&na, "A"), (&nb, "B")] { for (p, v) in after.iter() {
                    if !p.ends_with(".copia-tmp") && !versions.contains(v) { bad!(format!("[{name}] step {si}: after the run `{p}` on side {s} holds {:?}, which was no complete version of any file before the run (a staging leftover or a torn copy was published) (C08)", String::from_utf8_lossy(v))); }
                } }
                // C07: after an archive fault nothing is removed from either side
                if faulted { for (before, after, s) in [(&ta, &na, "A"), (&tb, &nb, "B")] { for p in before.keys() { if !after.contains_key(p) { bad!(format!("[{name}] step {si}: with a lost/damaged archive, `{p}` was removed from side {s} (C07)")); } } } }
                // C06: a divergent edit resolves on BOTH sides to the version with the greater BLAKE3 at the path, the other at
                // `<path>.conflict-<host>-<first 12 hex of its hash>` (only where that name was free before the run: the
                // occupied-name histories are the H7 finding)
                if completed && !faulted {
                    for (p, va) in ta.iter() { if let Some(vb) = tb.get(p) {
                        if va == vb || p.ends_with(".copia-tmp") || p.contains(".conflict-") { continue; }
                        if base.get(p) == Some(va) || base.get(p) == Some(vb) { continue; }
                        let (ha, hb) = (blake3::hash(va), blake3::hash(vb));
                        let (win, lose) = if ha.as_bytes() > hb.as_bytes() { (va, vb) } else { (vb, va) };
                        let cname = format!("{p}.conflict-vh-{}", &b3(lose)[..12]);
                        if ta.contains_key(&cname) || tb.contains_key(&cname) { continue; }
                        for (after, s) in [(&na, "A"), (&nb, "B")] {
                            if after.get(p) != Some(win) { bad!(format!("[{name}] step {si}: divergent edit of `{p}`: side {s} does not hold the version with the greater BLAKE3 at the path afterwards (C06)")); }
                            if after.get(&cname) != Some(lose) {
                                let got: Vec<&String> = after.iter().filter(|(q, v)| q.contains(".conflict-") && *v == lose).map(|(q, _)| q).collect();
                                bad!(format!("[{name}] step {si}: divergent edit of `{p}`: the losing version (BLAKE3 {}...) must be at `{cname}` on side {s}; it is at {got:?} (C06)", &b3(lose)[..16]));
                            }
                        }
                    } }
                }
                // C18: the decision for a path depends on the (BLAKE3, type) of its versions only: two different byte strings at one
                // path are never "identical", whatever their lengths and modification times
                if completed { for (p, va) in ta.iter() { if let Some(vb) = tb.get(p) {
                    if va != vb && !p.ends_with(".copia-tmp") && na.get(p) == Some(va) && nb.get(p) == Some(vb) {
                        bad!(format!("[{name}] step {si}: `{p}` held different bytes on the two sides ({} and {} bytes) and the completed run left both as they were: they were taken for identical, so something other than content (size, mtime) entered the decision (C18)", va.len(), vb.len()));
                    }
                } } }
                if completed {
                    // C06: converged, recorded state == tree, idempotent
                    if na != nb { let d: BTreeSet<&String> = na.keys().chain(nb.keys()).filter(|k| na.get(*k) != nb.get(*k)).collect(); bad!(format!("[{name}] step {si}: trees differ after a completed run at {d:?} (C06)")); }
                    if let Some(a) = env.archive_file() {
                        if let Ok(v) = serde_json::from_slice::<serde_json::Value>(&std::fs::read(&a).unwrap_or_default()) {
                            let mut rec = BTreeMap::new();
                            if let Some(m) = v.get("entries").and_then(|e| e.as_object()) {
                                for (k, fp) in m { let h: String = fp.get("blake3").and_then(|x| x.as_array()).map(|xs| xs.iter().map(|b| format!("{:02x}", b.as_u64().unwrap_or(0))).collect()).unwrap_or_default(); rec.insert(k.clone(), h); }
                            }
                            let want: BTreeMap<String, String> = na.iter().map(|(k, v)| (k.clone(), b3(v))).collect();
                            if rec != want { let d: Vec<&String> = rec.keys().chain(want.keys()).filter(|k| rec.get(*k) != want.get(*k)).collect(); bad!(format!("[{name}] step {si}: the recorded common state differs from the tree at {d:?} (C06)")); }
                        }
                    } else { bad!(format!("[{name}] step {si}: no archive after a completed run (C06)")); }
                    base = na.clone();
                    faulted = false;
                }
            }
        }
    }
    found
}

/// H8 / C08 "flushed before renamed": run one propagating bisync under strace and check that every staging file was
/// fsync'ed (through some fd opened on it) before it was renamed into place, and before the archive was published
pub fn trace_flush_order() -> Option<String> {
    for si in 0..=crash_setups().len() { if let Some(w) = trace_flush_order_on(si) { return Some(w); } }
    None
}
/// setup 0: one file to propagate; setup i > 0: crash setup i-1 (every action kind, conflicts included)
fn trace_flush_order_on(si: usize) -> Option<String> {
    let env = Env::new(&format!("trace{si}"));
    if si == 0 { let _ = std::fs::write(env.side(0).join("f"), b"payload-to-propagate"); }
    else { let (_, pre, change) = &crash_setups()[si - 1]; apply_plain(&env, pre); apply_plain(&env, change); }
    let tr = env.dir.join("trace.txt");
    let b = std::env::var("COPIA_BIN").unwrap_or_default();
    let st = Command::new("strace").args(["-f", "-qq", "-e", "trace=openat,open,creat,close,fsync,fdatasync,rename,renameat,renameat2", "-o"]).arg(&tr)
        .arg(b).arg("bisync").arg(env.side(0)).arg(env.side(1)).env("HOME", env.dir.join("home")).env("HOSTNAME", "vh").output().ok()?;
    let _ = st;
    let text = std::fs::read_to_string(&tr).ok()?;
    let (ra, rb) = (env.side(0).to_string_lossy().into_owned(), env.side(1).to_string_lossy().into_owned());
    let mut fd_path: BTreeMap<(String, String), String> = BTreeMap::new();   // (pid, fd) -> path
    let mut synced: BTreeSet<String> = BTreeSet::new();
    for ln in text.lines() {
        let (pid, rest) = match ln.split_once(' ') { Some((p, r)) if p.chars().all(|c| c.is_ascii_digit()) => (p.to_string(), r.trim_start()), _ => ("0".to_string(), ln) };
        let q = |s: &str, n: usize| -> Option<String> { s.split('"').nth(2 * n + 1).map(str::to_string) };
        if rest.starts_with("openat(") || rest.starts_with("open(") || rest.starts_with("creat(") {
            if let (Some(path), Some(fd)) = (q(rest, 0), rest.rsplit("= ").next()) {
                // the world model's discipline, observed: a NON-atomic write (open for writing / create / truncate) only ever
                // targets a reserved staging name; live paths of the trees change by rename and unlink only
                // creation or truncation in place (a bare O_WRONLY open, e.g. to stamp an mtime, writes no content by itself)
                let writes = ["O_CREAT", "O_TRUNC"].iter().any(|f| rest.contains(f)) || rest.starts_with("creat(");
                if writes && (path.starts_with(&ra) || path.starts_with(&rb)) && !path.ends_with(".copia-tmp") && fd.trim().chars().all(|c| c.is_ascii_digit()) {
                    return Some(format!("syscall trace of a propagating bisync: {:?} inside a synchronised tree is opened for writing/creation directly ({}) - a kill during that copy leaves a truncated file at a live path; only *.copia-tmp names may be written non-atomically (C08)", path.rsplit('/').next().unwrap_or(""), rest.split(',').nth(1).or(rest.split(',').nth(2)).unwrap_or("").trim().chars().take(60).collect::<String>()));
                }
                if fd.trim().chars().all(|c| c.is_ascii_digit()) { fd_path.insert((pid.clone(), fd.trim().to_string()), path); }
            }
        } else if rest.starts_with("close(") {
            let fd: String = rest[6..].chars().take_while(|c| c.is_ascii_digit()).collect();
            fd_path.remove(&(pid.clone(), fd));
        } else if rest.starts_with("fsync(") || rest.starts_with("fdatasync(") {
            let fd: String = rest[rest.find('(')? + 1..].chars().take_while(|c| c.is_ascii_digit()).collect();
            if let Some(p) = fd_path.get(&(pid.clone(), fd)) { synced.insert(p.clone()); }
        } else if rest.starts_with("rename") && rest.contains("= 0") {
            if let (Some(src), Some(dst)) = (q(rest, 0), q(rest, 1)) {
                if src.ends_with(".copia-tmp") && !synced.contains(&src) {
                    return Some(format!("syscall trace of a propagating bisync: rename({:?} -> {:?}) publishes a staging file that was never fsync'ed, while the archive describing it is fsync'ed (C08: the record may run ahead of the data on stable storage)", src.rsplit('/').next().unwrap_or(""), dst.rsplit('/').next().unwrap_or("")));
                }
            }
        }
    }
    if !text.contains("rename") { return None; }
    None
}

/// thorough tier: a random history over the same step alphabet (no edits of conflict copies: those are the H7 histories),
/// always ending in bisync, bisync, dry-run - the second run and the dry run must find nothing to do
pub fn random_history(rseed: u64) -> Vec<Step> {
    let mut r = crate::rng::Rng(rseed ^ 0xB15C_0000);
    const P: [&str; 3] = ["f", "g", "d/h"];
    const C: [&str; 5] = ["v1", "v2", "a-longer-third-version", "", "v1\n"];
    let n = 4 + r.below(9);
    let mut v = vec![];
    for _ in 0..n {
        match r.below(10) {
            0..=3 => v.push(W(r.below(2) as u8, P[r.below(3) as usize], C[r.below(5) as usize])),
            4 | 5 => v.push(D(r.below(2) as u8, P[r.below(3) as usize])),
            6..=8 => v.push(S),
            _ => v.push(if r.below(2) == 0 { Dry } else { NormMtime }),
        }
    }
    v.push(S); v.push(S); v.push(Dry);
    v
}
pub fn search_t(contract: &str, as_twin: bool, seed: u64, budget: u64) -> i32 {
    let rc = search(contract, as_twin);
    if budget > 30 && !std::env::var("COPIA_BIN").unwrap_or_default().is_empty() {
        let t0 = std::time::Instant::now();
        let mut n = 0u64;
        while t0.elapsed().as_secs() < budget.min(90) && n < 3000 {
            let rseed = seed.wrapping_mul(1000).wrapping_add(n);
            let steps = random_history(rseed);
            for what in run_history_all(&format!("random-{rseed}"), &steps) {
                println!("WITNESS {{\"kind\":\"bisync\",\"scenario\":9999,\"rseed\":{rseed},\"name\":\"random-{rseed}\",\"what\":\"{}\"}}", what.replace('"', "'").replace('\n', " "));
            }
            n += 1;
        }
        if as_twin { println!("CASES {}", scenarios().len() as u64 + n); }
    }
    rc
}
pub fn search(contract: &str, as_twin: bool) -> i32 {
    if !as_twin && contract.ends_with("copy_atomic") {
        if let Some(what) = trace_flush_order() {
            println!("WITNESS {{\"kind\":\"bisync-trace\",\"what\":\"{}\"}}", what.replace('"', "'"));
            return 1;
        }
    }
    search_h(contract, as_twin)
}
pub fn run_trace(_w: &str) -> i32 {
    match trace_flush_order() { Some(what) => { println!("REPRODUCED: {what}"); 1 } None => { println!("not reproduced: every staging file is fsync'ed before its rename"); 0 } }
}
fn search_h(_contract: &str, as_twin: bool) -> i32 {
    if let Some(what) = pair_id_injective() {
        println!("WITNESS {{\"kind\":\"pairid\",\"what\":\"{}\"}}", what.replace('"', "'"));
    }
    if std::env::var("COPIA_BIN").unwrap_or_default().is_empty() { eprintln!("COPIA_BIN not set"); if as_twin { println!("CASES 0"); } return 0; }
    if let Some(what) = trace_flush_order() {
        println!("WITNESS {{\"kind\":\"bisync-trace\",\"what\":\"{}\"}}", what.replace('"', "'"));
    }
    let mut cases = 0;
    for (i, (name, steps)) in scenarios().iter().enumerate() {
        cases += 1;
        let all = run_history_all(name, steps);
        for what in &all {
            println!("WITNESS {{\"kind\":\"bisync\",\"scenario\":{i},\"name\":\"{name}\",\"what\":\"{}\"}}", what.replace('"', "'").replace('\n', " "));
        }
    }
    if as_twin { println!("CASES {cases}"); }
    0
}
pub fn run_w(w: &str) -> i32 {
    let i = json_u64(w, "scenario").unwrap_or(0) as usize;
    let _ = json_str(w, "name");
    if i == 9999 {
        let rseed = json_u64(w, "rseed").unwrap_or(0);
        let steps = random_history(rseed);
        println!("random history {rseed}: {steps:?}");
        let all = run_history_all(&format!("random-{rseed}"), &steps);
        return if all.is_empty() { println!("not reproduced: every clause holds on this history"); 0 } else { for w in &all { println!("REPRODUCED: {w}"); } 1 };
    }
    let sc = scenarios();
    let (name, steps) = &sc[i.min(sc.len() - 1)];
    println!("history `{name}`: {steps:?}");
    let all = run_history_all(name, steps);
    if all.is_empty() { println!("not reproduced: every clause holds on this history"); 0 } else { for w in &all { println!("REPRODUCED: {w}"); } 1 }
}

// ---- C08 crash enumeration on the real binary: `bisync` killed right before EVERY one of its file-system write calls ----
fn crash_setups() -> Vec<(&'static str, Vec<Step>, Vec<Step>)> {
    vec![
        ("mixed-after-a-first-sync",
         vec![W(0, "p", "p1"), W(0, "m", "m1"), W(0, "del", "d1"), W(0, "c", "base"), W(0, "dm", "dm-base"), W(0, "sub/deep", "deep1"), S],
         vec![W(0, "new", "brand-new-file"), W(0, "m", "m2-modified-on-A"), W(1, "p", "p2-modified-on-B"), D(0, "del"), W(0, "c", "aaa-conflict"), W(1, "c", "bbb-conflict"), D(0, "dm"), W(1, "dm", "dm-changed-on-B"), W(1, "sub/deep", "deep2-from-B")]),
        ("a-name-of-exactly-245-bytes", vec![W(0, NAME_245, "first version of the long-named file"), W(0, "o", "o1"), S], vec![W(0, NAME_245, "second version, modified on A"), W(1, "fresh", "created on B")]),
        ("first-run-without-archive", vec![], vec![W(0, "x", "x1"), W(1, "y", "y1"), W(0, "z", "za-version"), W(1, "z", "zb-version"), W(0, "d/e", "e1")]),
    ]
}
fn apply_plain(env: &Env, steps: &[Step]) {
    for st in steps { match st {
        W(s, p, c) => { let f = env.side(*s).join(p); if let Some(d) = f.parent() { let _ = std::fs::create_dir_all(d); } let _ = std::fs::write(f, c); }
        D(s, p) => { let _ = std::fs::remove_file(env.side(*s).join(p)); }
        S => { let _ = env.run(false); }
        _ => {}
    } }
}
fn bisync_cmd(env: &Env) -> Command {
    let mut c = Command::new(std::env::var("COPIA_BIN").unwrap_or_default());
    c.arg("bisync").arg(env.side(0)).arg(env.side(1)).env("HOME", env.dir.join("home")).env("HOSTNAME", "vh").env("RUST_BACKTRACE", "0").env("TOKIO_WORKER_THREADS", "1")
        .stdin(std::process::Stdio::null()).stdout(std::process::Stdio::null()).stderr(std::process::Stdio::null());
    c
}
/// one setup, one kill point. (violation, was the process killed)
pub fn crash_point(si: usize, k: usize) -> (Option<String>, bool) {
    let setups = crash_setups();
    let (name, pre, change) = &setups[si.min(setups.len() - 1)];
    // reference: the uninterrupted run
    let rf = Env::new(&format!("crashref{si}"));
    apply_plain(&rf, pre); apply_plain(&rf, change);
    let _ = rf.run(false);
    let (ra, rb) = (rf.tree(0), rf.tree(1));
    let env = Env::new(&format!("crash{si}k{k}"));
    apply_plain(&env, pre); apply_plain(&env, change);
    let (ta, tb) = (env.tree(0), env.tree(1));
    let arch_before = env.archive_file().and_then(|a| std::fs::read(a).ok());
    let Some(o) = crate::killer::run(&mut bisync_cmd(&env), k) else { return (None, false) };
    if !o.killed { return (None, false); }
    let at = o.last.replace(&env.dir.to_string_lossy().into_owned(), "");
    let (ka, kb) = (env.tree(0), env.tree(1));
    let versions: BTreeSet<&Vec<u8>> = ta.values().chain(tb.values()).collect();
    for (t, sname) in [(&ka, "A"), (&kb, "B")] { for (p, v) in t.iter() {
        if !p.ends_with(".copia-tmp") && !versions.contains(v) { return (Some(format!("[{name}] killed right before its {k}-th file-system write call `{at}`: `{p}` on side {sname} holds {} bytes that are no complete version of anything that existed before the run (a partial file at a live path) (C08)", v.len())), true); }
    } }
    // the recorded state on disk: the old one, absent, or a complete new one whose every entry is in place on both sides
    if let Some(a) = env.archive_file() {
        let now = std::fs::read(&a).unwrap_or_default();
        if Some(&now) != arch_before.as_ref() {
            match serde_json::from_slice::<serde_json::Value>(&now) {
                Err(_) => return (Some(format!("[{name}] killed before call {k} `{at}`: the archive on disk is neither the old one nor a complete new one (it does not parse) (C08)")), true),
                Ok(v) => { if let Some(m) = v.get("entries").and_then(|e| e.as_object()) { for (p, fp) in m {
                    let hx: String = fp.get("blake3").and_then(|x| x.as_array()).map(|xs| xs.iter().map(|b| format!("{:02x}", b.as_u64().unwrap_or(0))).collect()).unwrap_or_default();
                    for (t, sname) in [(&ka, "A"), (&kb, "B")] { if t.get(p).map(|b| b3(b)) != Some(hx.clone()) { return (Some(format!("[{name}] killed before call {k} `{at}`: the NEW recorded state is already on disk but `{p}` on side {sname} is not yet the file it describes (C08)")), true); } }
                } } }
            }
        }
    } else if arch_before.is_some() && !env.dir.join("home/.copia/archive").read_dir().map(|mut d| d.next().is_some()).unwrap_or(false) {
        // absent is allowed by the property
    }
    // recovery: run again (repeat if a run stops on an I/O error caused by a leftover staging file)
    let mut code = None;
    for _ in 0..3 { let (c, out) = env.run(false); code = c; if c == Some(0) || out.contains("conflict(s) preserved") { break; } }
    let (fa, fb) = (env.tree(0), env.tree(1));
    let strip = |t: &Tree| -> Tree { t.iter().filter(|(p, _)| !p.ends_with(".copia-tmp")).map(|(p, v)| (p.clone(), v.clone())).collect() };
    if strip(&fa) != strip(&ra) || strip(&fb) != strip(&rb) {
        let d: BTreeSet<String> = fa.keys().chain(ra.keys()).filter(|p| fa.get(*p) != ra.get(*p)).chain(fb.keys().chain(rb.keys()).filter(|p| fb.get(*p) != rb.get(*p))).cloned().collect();
        return (Some(format!("[{name}] killed before call {k} `{at}`, then bisync was run again (last exit {code:?}): the trees differ from what an uninterrupted run produces at {d:?} (C08)")), true);
    }
    (None, true)
}
pub fn crash_search(as_twin: bool, thorough: bool) -> i32 {
    if std::env::var("COPIA_BIN").unwrap_or_default().is_empty() { eprintln!("COPIA_BIN not set"); if as_twin { println!("CASES 0"); } return 0; }
    let mut cases = 0;
    for si in 0..crash_setups().len() {
        // number of write calls of the uninterrupted run
        let env = Env::new(&format!("crashcount{si}"));
        let (_, pre, change) = &crash_setups()[si];
        apply_plain(&env, pre); apply_plain(&env, change);
        let n = crate::killer::run(&mut bisync_cmd(&env), 0).map(|o| o.calls).unwrap_or(0);
        let mut reported = 0;
        let mut k = 1;
        while k <= n {
            let (w, killed) = crash_point(si, k);
            if killed { cases += 1; }
            if let Some(what) = w { if reported < 2 { println!("WITNESS {{\"kind\":\"bisync-crash\",\"setup\":{si},\"k\":{k},\"what\":\"{}\"}}", what.replace('"', "'").replace('\n', " ")); } reported += 1; }
            k += if thorough || k < 30 { 1 } else { 2 };
        }
        eprintln!("bisync crash setup {si}: {n} kill points, {reported} violating");
    }
    if as_twin { println!("CASES {cases}"); }
    0
}
pub fn run_crash(w: &str) -> i32 {
    let (si, k) = (json_u64(w, "setup").unwrap_or(0) as usize, json_u64(w, "k").unwrap_or(1) as usize);
    match crash_point(si, k) { (Some(what), _) => { println!("REPRODUCED: {what}"); 1 } (None, killed) => { println!("not reproduced: setup {si}, kill point {k} (killed: {killed}): complete versions only, recorded state old/absent/new-and-in-place, recovery converges"); 0 } }
}

/// C07: two different directory pairs never share an archive identifier (shifted-split layout)
pub fn pair_id_injective() -> Option<String> {
    use crate::cli::archive::root_pair_hash;
    let t = "/nonexistent-copia-verif/t";
    let (a1, b1) = (format!("{t}/x"), format!("{t}/y{t}/z"));
    let (a2, b2) = (format!("{t}/x{t}/y"), format!("{t}/z"));
    let h1 = root_pair_hash(Path::new(&a1), Path::new(&b1));
    let h2 = root_pair_hash(Path::new(&a2), Path::new(&b2));
    if h1 == h2 { return Some(format!("root_pair_hash({a1:?}, {b1:?}) == root_pair_hash({a2:?}, {b2:?}) = {h1}: two different pairs share one archive (C07)")); }
    // directory names that differ only in a byte that is not valid UTF-8 are different directories
    {
        use std::os::unix::ffi::OsStrExt;
        let mk = |b: u8, side: &str| -> PathBuf { let mut v = format!("{t}/caf").into_bytes(); v.push(b); v.extend(format!("/{side}").as_bytes()); PathBuf::from(std::ffi::OsStr::from_bytes(&v)) };
        let (p1a, p1b, p2a, p2b) = (mk(0xE9, "A"), mk(0xE9, "B"), mk(0xE8, "A"), mk(0xE8, "B"));
        if root_pair_hash(&p1a, &p1b) == root_pair_hash(&p2a, &p2b) { return Some("root_pair_hash gives ONE identifier to the pairs (caf\\xE9/A, caf\\xE9/B) and (caf\\xE8/A, caf\\xE8/B): two different directory pairs (names in a legacy encoding) share one archive (C07)".into()); }
    }
    let h3 = root_pair_hash(Path::new(&b1), Path::new(&a1));
    if h3 == h1 { return Some("root_pair_hash is not order-sensitive (C07)".into()); }
    // a root reached through a symlink names the directory the link points to NOW: after the link is re-pointed the pair is a
    // different pair (absolute and relative spellings of the link alike)
    {
        let d = std::env::temp_dir().join(format!("copia-verif-pairid-{}", std::process::id()));
        let _ = std::fs::remove_dir_all(&d);
        let ok = std::fs::create_dir_all(d.join("releases/v1")).is_ok() && std::fs::create_dir_all(d.join("releases/v2")).is_ok() && std::fs::create_dir_all(d.join("other")).is_ok();
        let link = d.join("current");
        let mut res = None;
        if ok && std::os::unix::fs::symlink("releases/v1", &link).is_ok() {
            let before = root_pair_hash(&link, &d.join("other"));
            let _ = std::fs::remove_file(&link);
            if std::os::unix::fs::symlink("releases/v2", &link).is_ok() {
                let after = root_pair_hash(&link, &d.join("other"));
                if before == after { res = Some("root_pair_hash(<abs>/current, <abs>/other) is the same before and after the symlink `current` is re-pointed from releases/v1 to releases/v2: the archive of the OLD pair is found and trusted for a different directory (C07)".to_string()); }
            }
        }
        let _ = std::fs::remove_dir_all(&d);
        if res.is_some() { return res; }
    }
    None
}
