//! run oracle for `copia hub-sync` on the REAL binary ($COPIA_BIN): the client side of C13, and a validation of the assumed
//! HubClient contract (each method sends the request it is named after). Nothing here decides the property.
use std::collections::BTreeMap;
use std::path::{Path, PathBuf};
use std::process::{Command, Stdio};

type Tree = BTreeMap<String, Vec<u8>>;
fn tree(r: &Path) -> Tree {
    fn walk(root: &Path, d: &Path, out: &mut Tree) {
        if let Ok(rd) = std::fs::read_dir(d) { for e in rd.flatten() { let p = e.path(); let rel = p.strip_prefix(root).map(|x| x.to_string_lossy().into_owned()).unwrap_or_default();
            if Path::new(&rel).starts_with(".copia") { continue; }      // the control DIRECTORY (component-wise), not every name with that prefix
            if p.is_dir() { walk(root, &p, out) } else if let Ok(b) = std::fs::read(&p) { out.insert(rel, b); } } }
    }
    let mut t = Tree::new(); walk(r, r, &mut t); t
}
fn base(tagx: &str) -> PathBuf {
    let d = std::env::temp_dir().join(format!("copia-verif-hub-{}-{}", std::process::id(), tagx));
    let _ = std::fs::remove_dir_all(&d); let _ = std::fs::create_dir_all(&d); d
}
fn put(root: &Path, rel: &str, c: &[u8]) { let f = root.join(rel); if let Some(d) = f.parent() { let _ = std::fs::create_dir_all(d); } let _ = std::fs::write(f, c); }
fn hub_sync(local: &Path, hub: &Path) -> (Option<i32>, String) {
    let b = std::env::var("COPIA_BIN").unwrap_or_default();
    match Command::new(b).arg("hub-sync").arg(local).arg(hub).env("RUST_BACKTRACE", "0").stdin(Stdio::null()).output() {
        Ok(o) => (o.status.code(), format!("{}{}", String::from_utf8_lossy(&o.stdout), String::from_utf8_lossy(&o.stderr))), Err(e) => (Some(-1), e.to_string()) }
}
pub fn scenarios() -> Vec<(&'static str, fn() -> Option<String>)> {
    vec![("lands-the-tree-and-skips-what-is-there (C13)", sc_lands_and_skips), ("exit-0-means-every-local-file-is-on-the-hub (C13)", sc_refused_files), ("stale-listing-with-256-contended-paths (C13)", sc_stale_256), ("two-stale-losers-keep-both-versions (C13)", crate::serve_w::sc_two_losers), ("stale-listing-never-overwrites (C13)", sc_stale_listing), ("host-root-targets (C13)", sc_remote_targets)]
}
/// inode of every hub file: a Put publishes by rename, so a re-sent file gets a new inode (independent of message wording)
fn inodes(r: &Path) -> BTreeMap<String, u64> {
    use std::os::unix::fs::MetadataExt;
    tree(r).keys().filter_map(|p| std::fs::metadata(r.join(p)).ok().map(|m| (p.clone(), m.ino()))).collect()
}
fn sc_lands_and_skips() -> Option<String> {
    let d = base("lands"); let (l, h) = (d.join("local"), d.join("hub"));
    let big: Vec<u8> = (0..300_000usize).map(|i| (i % 241) as u8).collect();
    put(&l, "a.txt", b"alpha"); put(&l, "d/b.bin", &big); put(&l, "empty", b""); put(&l, "same", b"already there");
    // names that merely LOOK like the hub's control directory are ordinary files
    put(&l, ".copiaignore", b"*.o"); put(&l, ".copia-hooks/pre-push", b"#!/bin/sh"); put(&l, "x.copia", b"suffix");
    put(&h, "other", b"keep me"); put(&h, "a.txt", b"an older alpha"); put(&h, "same", b"already there");
    // neighbours in byte order that are not neighbours in path-component order: a directory next to `<dir>-old/`, `<dir>.md`, `<dir> 2/`
    for (p, c) in [("docs/guide.md", "guide v2"), ("docs-old/guide.md", "old guide"), ("docs.md", "index"), ("docs 2/x", "x"), ("src/main.rs", "fn main() {}"), ("src.bak", "backup"), ("src+/gen.rs", "gen")] { put(&l, p, c.as_bytes()); }
    put(&h, "docs/guide.md", b"guide v1"); put(&h, "docs-old/guide.md", b"old guide"); put(&h, "docs.md", b"index"); put(&h, "src.bak", b"an older backup"); put(&h, "src+/gen.rs", b"gen");
    let ino0 = inodes(&h);
    let (rc, out) = hub_sync(&l, &h);
    let res = (|| {
        if rc != Some(0) { return Some(format!("hub-sync of a fresh tree onto a quiet hub exits {rc:?}: {} (C13)", out.lines().last().unwrap_or(""))); }
        let (tl, th) = (tree(&l), tree(&h));
        for (p, v) in &tl { if th.get(p) != Some(v) { return Some(format!("after hub-sync exited 0, hub `{p}` does not hold the local file's bytes (C13)")); } }
        if th.get("other").map(|v| v.as_slice()) != Some(b"keep me".as_slice()) { return Some("hub-sync touched a hub path that is not in the local tree (C13)".into()); }
        if th.keys().any(|p| p.contains(".conflict-")) { return Some("hub-sync on a quiet hub left a conflict copy (its `expected` was not the listed hash) (C13)".into()); }
        let ino1 = inodes(&h);
        for same in ["same", "docs-old/guide.md", "docs.md", "src+/gen.rs"] { if ino1.get(same) != ino0.get(same) { return Some(format!("`{same}`, which the hub already had with the same bytes, was sent again: its hub file was replaced (C13)")); } }
        let (rc2, out2) = hub_sync(&l, &h);
        if rc2 != Some(0) { return Some(format!("an immediate second hub-sync fails: exit {rc2:?}, {} (C13)", out2.lines().last().unwrap_or(""))); }
        if tree(&h) != th { return Some("an immediate second hub-sync changed the hub (C13)".into()); }
        let ino2 = inodes(&h);
        if let Some(p) = ino1.keys().find(|p| ino2.get(*p) != ino1.get(*p)) { return Some(format!("an immediate second hub-sync sent `{p}` again (its hub file was replaced) although nothing changed (C13)")); }
        None
    })();
    let _ = std::fs::remove_dir_all(&d);
    res
}
/// files the hub cannot take: a local regular file where the hub (another client) has a directory; a local directory named like
/// the hub's control directory. Whatever hub-sync does about them, exit status 0 promises that EVERY local file is on the hub.
fn sc_refused_files() -> Option<String> {
    for (case, lfile, hfile) in [("a local file `docs` where the hub holds a directory `docs/`", "docs", Some("docs/readme.md")), ("a local directory `.copia/` (the hub's reserved name)", ".copia/notes.txt", None), ("a local file under a path that is a FILE on the hub", "data/part.bin", Some("data"))] {
        let d = base("refused"); let (l, h) = (d.join("local"), d.join("hub"));
        put(&l, "a.txt", b"alpha"); put(&l, lfile, b"the local file the hub cannot take as it is"); put(&l, "zz-last.txt", b"after the refused one");
        std::fs::create_dir_all(&h).ok()?;
        if let Some(hf) = hfile { put(&h, hf, b"committed by another client"); }
        let (rc, out) = hub_sync(&l, &h);
        let th = tree(&h);
        let mut res = None;
        if rc == Some(0) {
            for (p, v) in tree(&l) { if th.get(&p) != Some(&v) { res = Some(format!("{case}: hub-sync exited 0 but the local file `{p}` is not on the hub with its bytes ({}) (C13)", out.lines().last().unwrap_or(""))); break; } }
        }
        if let Some(hf) = hfile { if th.get(hf).map(|v| v.as_slice()) != Some(b"committed by another client".as_slice()) { res = Some(format!("{case}: what another client had committed at `{hf}` is gone or changed (C13)")); } }
        let _ = std::fs::remove_dir_all(&d);
        if res.is_some() { return res; }
    }
    None
}
fn sc_remote_targets() -> Option<String> {
    // `host:root` targets through an ssh stand-in (drops `-T host copia`, runs the real binary): the tree must land in ROOT -
    // also when ROOT itself contains a colon - and nowhere else
    use std::os::unix::fs::PermissionsExt;
    let d = base("remote"); let (l, cwd, bin) = (d.join("local"), d.join("cwd"), d.join("bin"));
    std::fs::create_dir_all(&cwd).ok()?; std::fs::create_dir_all(&bin).ok()?;
    std::fs::write(bin.join("ssh"), "#!/bin/bash\nshift; shift; shift\nexec \"$COPIA_BIN\" \"$@\"\n").ok()?;
    std::fs::set_permissions(bin.join("ssh"), std::fs::Permissions::from_mode(0o755)).ok()?;
    put(&l, "a.txt", b"alpha"); put(&l, "d/b.txt", b"beta");
    let b = std::env::var("COPIA_BIN").unwrap_or_default();
    let mut res = None;
    for root_name in ["hub-plain", "hub:v2", "backups/2026-09-25T10:00"] {
        let h = d.join(root_name); std::fs::create_dir_all(&h).ok()?;
        let out = Command::new(&b).arg("hub-sync").arg(&l).arg(format!("fakehost:{}", h.display())).current_dir(&cwd)
            .env("PATH", format!("{}:{}", bin.display(), std::env::var("PATH").unwrap_or_default())).env("COPIA_BIN", &b).env("RUST_BACKTRACE", "0").stdin(Stdio::null()).output().ok()?;
        let stray: Vec<String> = std::fs::read_dir(&cwd).map(|rd| rd.flatten().map(|e| e.file_name().to_string_lossy().into_owned()).collect()).unwrap_or_default();
        if !stray.is_empty() { res = Some(format!("hub-sync to `fakehost:<dir>/{root_name}` created {stray:?} in the client's working directory: the target was not taken as host:root (C13)")); break; }
        if out.status.code() == Some(0) {
            let th = tree(&h);
            for (p, v) in tree(&l) { if th.get(&p) != Some(&v) { res = Some(format!("hub-sync to `fakehost:<dir>/{root_name}` exited 0 but `{p}` is NOT on the hub under that root (C13)")); break; } }
            if res.is_some() { break; }
        }
    }
    let _ = std::fs::remove_dir_all(&d);
    res
}
/// the stale-listing schedule with exactly 256 (and 257) contended paths: client A lists, client B then commits all of them, A pushes:
/// every one of A's compare-and-swaps loses. Exit status 0 would promise that A's files are on the hub.
fn sc_stale_256() -> Option<String> {
    for n in [256usize, 257] {
        let d = base("stale256"); let (la, lb, h) = (d.join("localA"), d.join("localB"), d.join("hub"));
        for i in 0..n { let p = format!("shards/shard-{i:03}.dat"); put(&la, &p, format!("A{i}").as_bytes()); put(&lb, &p, format!("B{i}").as_bytes()); put(&h, &p, format!("listed{i}").as_bytes()); }
        let b = std::env::var("COPIA_BIN").unwrap_or_default();
        let a = Command::new("strace").args(["-f", "-qq", "-o", "/dev/null", "-P"]).arg(la.join("shards/shard-000.dat")).args(["-e", "trace=openat,open", "-e", "inject=openat,open:delay_enter=3000000:when=1"])
            .arg(&b).arg("hub-sync").arg(&la).arg(&h).env("RUST_BACKTRACE", "0").stdin(Stdio::null()).stdout(Stdio::piped()).stderr(Stdio::piped()).spawn().ok()?;
        std::thread::sleep(std::time::Duration::from_millis(700));
        let (rcb, _) = hub_sync(&lb, &h);
        let oa = a.wait_with_output().ok()?;
        let th = tree(&h);
        let mut res = None;
        if rcb == Some(0) && oa.status.code() == Some(0) {
            let lost = (0..n).filter(|i| th.get(&format!("shards/shard-{i:03}.dat")).map(|v| v.as_slice()) != Some(format!("A{i}").as_bytes())).count();
            if lost > 0 { res = Some(format!("client A listed the hub, client B then committed all {n} paths, A then pushed: A's hub-sync exited 0 although {lost} of its {n} files are not at their paths on the hub (C13)")); }
        }
        let _ = std::fs::remove_dir_all(&d);
        if res.is_some() { return res; }
    }
    None
}
fn sc_stale_listing() -> Option<String> {
    // client A is delayed (strace) right after its List, while it fingerprints its local tree; client B commits the same path
    // meanwhile. A's listing is now stale: its Put must land a conflict copy, never overwrite B, and A must exit non-zero.
    let d = base("stale"); let (la, lb, h) = (d.join("localA"), d.join("localB"), d.join("hub"));
    put(&la, "doc", b"A's version of doc"); put(&lb, "doc", b"B's version, committed first"); put(&h, "doc", b"the version both listed");
    // a second contended path, later in A's order: a client that refreshes its listing after the first loss would overwrite it
    put(&la, "zz-second", b"A's second file"); put(&lb, "zz-second", b"B's second file"); put(&h, "zz-second", b"listed second");
    let b = std::env::var("COPIA_BIN").unwrap_or_default();
    let a = Command::new("strace").args(["-f", "-qq", "-o", "/dev/null", "-P"]).arg(la.join("doc")).args(["-e", "trace=openat,open", "-e", "inject=openat,open:delay_enter=1500000:when=1"])
        .arg(&b).arg("hub-sync").arg(&la).arg(&h).env("RUST_BACKTRACE", "0").stdin(Stdio::null()).stdout(Stdio::piped()).stderr(Stdio::piped()).spawn().ok()?;
    std::thread::sleep(std::time::Duration::from_millis(600));
    let (rcb, _) = hub_sync(&lb, &h);
    let oa = a.wait_with_output().ok()?;
    let th = tree(&h);
    let res = (|| {
        if rcb != Some(0) { return None; }      // B did not get in: the schedule was not forced, nothing to check
        if th.get("doc").map(|v| v.as_slice()) != Some(b"B's version, committed first".as_slice()) {
            return Some(format!("client A listed the hub, client B then committed `doc`, A then pushed: the hub's `doc` now holds {:?} - what B committed was overwritten by a client with a stale listing (C13)", th.get("doc").map(|v| String::from_utf8_lossy(v).into_owned())));
        }
        if th.get("zz-second").map(|v| v.as_slice()) != Some(b"B's second file".as_slice()) {
            return Some(format!("client A lost its compare-and-swap on `doc` and then pushed `zz-second`: the hub's `zz-second` holds {:?} - B's committed content was overwritten by the client whose listing was stale (C13)", th.get("zz-second").map(|v| String::from_utf8_lossy(v).into_owned())));
        }
        if !th.iter().any(|(p, v)| p.starts_with("zz-second.conflict-") && v == b"A's second file") { return Some("client A's second file is not retrievable from the hub (no conflict copy) (C13)".into()); }
        if !th.iter().any(|(p, v)| p.starts_with("doc.conflict-") && v == b"A's version of doc") { return Some("client A's file is not retrievable from the hub after its compare-and-swap lost (no conflict copy) (C13)".into()); }
        if oa.status.code() == Some(0) { return Some("hub-sync exited 0 although the hub changed underneath it and its file was not committed (C13)".into()); }
        None
    })();
    let _ = std::fs::remove_dir_all(&d);
    res
}
pub fn search(as_twin: bool) -> i32 {
    if std::env::var("COPIA_BIN").unwrap_or_default().is_empty() { eprintln!("COPIA_BIN not set"); if as_twin { println!("CASES 0"); } return 0; }
    let mut cases = 0;
    for (i, (name, f)) in scenarios().iter().enumerate() {
        cases += 1;
        if let Some(what) = f() { println!("WITNESS {{\"kind\":\"hub\",\"scenario\":{i},\"name\":\"{name}\",\"what\":\"[{name}] {}\"}}", what.replace('"', "'").replace('\n', " ")); }
    }
    if as_twin { println!("CASES {cases}"); }
    0
}
pub fn run_w(w: &str) -> i32 {
    let i = crate::json_u64(w, "scenario").unwrap_or(0) as usize;
    let sc = scenarios(); let (name, f) = &sc[i.min(sc.len() - 1)];
    match f() { Some(what) => { println!("REPRODUCED: [{name}] {what}"); 1 } None => { println!("not reproduced: scenario `{name}` behaves as the property requires"); 0 } }
}
