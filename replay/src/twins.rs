//! Executable twins of ASSUMED contracts (DESIGN §2.9): the real function is compared with the
//! contract's reference on a directed/exhaustive input set. Agreement proves nothing (reported as
//! `assumed_validated`); a disagreement is a concrete failing input on the real code.
use crate::cli::meta::parse_remote_meta_output;
use crate::cli::plan::{is_excluded as real_is_excluded, FileMeta};
use crate::glob_w::gm;
use crate::rng::Rng;
use crate::{hex, json_bytes, json_str};
use std::path::{Path, PathBuf};
use std::time::{Duration, Instant};

fn strings(alpha: &[char], maxlen: usize) -> Vec<String> {
    let mut out = vec![String::new()];
    let mut lo = 0;
    for _ in 0..maxlen {
        let hi = out.len();
        for i in lo..hi {
            for &c in alpha {
                let mut s = out[i].clone();
                s.push(c);
                out.push(s);
            }
        }
        lo = hi;
    }
    out
}

/// the exclude rule exactly as the Verus contract `ex` states it, with the assumed component grammar:
/// normal components = '/'-separated segments other than "", "." and ".."; lossy(path) = the string.
pub fn ex_ref(rel: &str, excludes: &[String]) -> bool {
    let relc: Vec<char> = rel.chars().collect();
    excludes.iter().any(|pat| {
        let t = pat.trim_end_matches('/');
        let tc: Vec<char> = t.chars().collect();
        if tc.is_empty() {
            return false;
        }
        if tc.contains(&'/') {
            gm(&tc, &relc)
        } else {
            rel.split('/').filter(|s| !s.is_empty() && *s != "." && *s != "..").any(|seg| {
                let sc: Vec<char> = seg.chars().collect();
                gm(&tc, &sc)
            })
        }
    })
}

fn check_excl(rel: &str, excludes: &[String]) -> Option<String> {
    let want = ex_ref(rel, excludes);
    let got = std::panic::catch_unwind(|| real_is_excluded(Path::new(rel), excludes));
    match got {
        Err(_) => Some(format!("is_excluded({rel:?}, {excludes:?}) panicked")),
        Ok(g) if g != want => Some(format!("is_excluded({rel:?}, {excludes:?}) = {g}, the exclude rule says {want}")),
        _ => None,
    }
}

pub fn is_excluded(seed: u64, budget: u64) -> i32 {
    let t0 = Instant::now();
    let mut rels = strings(&['a', '.', '/', '*', 'b'], 5);
    let mut pats = strings(&['a', '*', '?', '/', '.'], 3);
    // `?` is one CHARACTER, whatever its length in bytes
    rels.extend(strings(&['a', '\u{e9}', '\u{6587}', '/'], 3));
    pats.extend(strings(&['?', '\u{e9}', 'a'], 3));
    let mut cases = 0u64;
    let mut rng = Rng(seed ^ 0xE8C1);
    // all single-pattern lists against all rels (exhaustive in the thorough budget), then random pairs
    'outer: for p in &pats {
        for r in &rels {
            cases += 1;
            if let Some(what) = check_excl(r, &[p.clone()]) {
                println!("WITNESS {{\"kind\":\"is_excluded\",\"rel\":\"{}\",\"pats\":\"{}\",\"what\":\"{}\"}}", r, p, what.replace('"', "'"));
                println!("CASES {cases}");
                return 1;
            }
            if cases % 4096 == 0 && t0.elapsed() > Duration::from_secs(budget) {
                break 'outer;
            }
        }
    }
    while t0.elapsed() < Duration::from_secs(budget) {
        for _ in 0..2000 {
            let r = &rels[rng.below(rels.len() as u64) as usize];
            let p1 = pats[rng.below(pats.len() as u64) as usize].clone();
            let p2 = pats[rng.below(pats.len() as u64) as usize].clone();
            cases += 1;
            if let Some(what) = check_excl(r, &[p1.clone(), p2.clone()]) {
                println!("WITNESS {{\"kind\":\"is_excluded\",\"rel\":\"{}\",\"pats\":\"{}\\u0001{}\",\"what\":\"{}\"}}", r, p1, p2, what.replace('"', "'"));
                println!("CASES {cases}");
                return 1;
            }
        }
    }
    println!("CASES {cases}");
    0
}

pub fn run_is_excluded(w: &str) -> i32 {
    let rel = json_str(w, "rel").unwrap_or_default();
    let pats: Vec<String> = json_str(w, "pats").unwrap_or_default().split('\u{1}').map(str::to_string).collect();
    match check_excl(&rel, &pats) {
        Some(what) => { println!("REPRODUCED: {what}"); 1 }
        None => { println!("not reproduced"); 0 }
    }
}

/// listing writer as `find -printf '%s\t%T@\t%p\0'` produces it
fn listing(recs: &[(String, u64, i64, Option<u32>)]) -> Vec<u8> {
    let mut out = vec![];
    for (p, size, secs, frac) in recs {
        out.extend_from_slice(format!("{size}\t{secs}").as_bytes());
        if let Some(f) = frac {
            out.extend_from_slice(format!(".{f:010}").as_bytes());
        }
        out.extend_from_slice(b"\t./");
        out.extend_from_slice(p.as_bytes());
        out.push(0);
    }
    out
}

fn check_meta(recs: &[(String, u64, i64, Option<u32>)]) -> Option<String> {
    let raw = listing(recs);
    let got = std::panic::catch_unwind(|| parse_remote_meta_output(&raw));
    let got = match got { Ok(g) => g, Err(_) => return Some("parse_remote_meta_output panicked".into()) };
    let mut want = std::collections::BTreeMap::new();
    for (p, size, secs, _) in recs {
        want.insert(PathBuf::from(p), FileMeta { size: *size, mtime: *secs });
    }
    if got != want {
        Some(format!("listing of {} records parsed back into {} entries that differ from the (path,size,whole-second mtime) triples that produced it", recs.len(), got.len()))
    } else { None }
}

pub fn parse_meta(seed: u64, budget: u64) -> i32 {
    let t0 = Instant::now();
    let mut rng = Rng(seed ^ 0x4E7A);
    let names = strings(&['a', '\t', '\n', '.', ' ', 'é'], 3);
    let mut cases = 0u64;
    loop {
        let n = 1 + rng.below(3) as usize;
        let mut recs = vec![];
        let mut used = std::collections::BTreeSet::new();
        for _ in 0..n {
            let mut p = names[1 + rng.below(names.len() as u64 - 1) as usize].clone();
            if rng.below(3) == 0 { p = format!("d/{p}"); }
            // paths `find` can print: no empty components, not "." / ".."-only; keep names that are valid file names
            if p.split('/').any(|c| c.is_empty() || c == "." || c == "..") || !used.insert(p.clone()) { continue; }
            let size = match rng.below(4) { 0 => 0, 1 => u64::MAX, _ => rng.next() >> rng.below(64) };
            let secs = match rng.below(5) { 0 => 0, 1 => i64::MAX, 2 => 253_402_300_800, _ => (rng.next() >> (1 + rng.below(40))) as i64 };
            // fractions at the edges of a second included: a parser that goes through floating point rounds .999999999 up
            let frac = match rng.below(8) { 0 | 1 | 2 => None, 3 => Some(999_999_999), 4 => Some(999_999_990 - rng.below(200) as u32), 5 => Some(rng.below(3) as u32), _ => Some(rng.below(1_000_000_000) as u32) };
            recs.push((p, size, secs, frac));
        }
        if recs.is_empty() { continue; }
        cases += 1;
        if let Some(what) = check_meta(&recs) {
            let ser: Vec<String> = recs.iter().map(|(p, sz, sc, fr)| format!("{}:{sz}:{sc}:{}", hex(p.as_bytes()), fr.map(|f| f.to_string()).unwrap_or("-".into()))).collect();
            println!("WITNESS {{\"kind\":\"parse_meta\",\"listing\":\"{}\",\"recs\":\"{}\",\"what\":\"{}\"}}", hex(&listing(&recs)), ser.join(";"), what);
            println!("CASES {cases}");
            return 1;
        }
        if cases % 512 == 0 && t0.elapsed() > Duration::from_secs(budget) { break; }
    }
    println!("CASES {cases}");
    0
}

pub fn run_parse_meta(w: &str) -> i32 {
    let raw = json_bytes(w, "listing").unwrap_or_default();
    let got = parse_remote_meta_output(&raw);
    println!("listing parses into {} entries: {:?}", got.len(), got);
    // the records the listing was written from travel with the witness: re-run the comparison on the current code
    let mut recs = vec![];
    for r in json_str(w, "recs").unwrap_or_default().split(';') {
        let f: Vec<&str> = r.split(':').collect();
        if f.len() != 4 { continue; }
        let p = String::from_utf8_lossy(&crate::unhex(f[0]).unwrap_or_default()).into_owned();
        recs.push((p, f[1].parse::<u64>().unwrap_or(0), f[2].parse::<i64>().unwrap_or(0), f[3].parse::<u32>().ok()));
    }
    if recs.is_empty() { println!("REPRODUCED (see witness `what`; this witness predates self-contained records)"); return 1; }
    match check_meta(&recs) { Some(what) => { println!("REPRODUCED: {what}"); 1 } None => { println!("not reproduced: the parser returns exactly the records the listing was written from"); 0 } }
}
