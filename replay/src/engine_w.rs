//! twins / directed searches for the delta engines (C01, C16): signature generation, table lookups,
//! engine agreement, round trip, literal count vs the textbook greedy scan.
use crate::checksum_w::reference;
use crate::rng::Rng;
use crate::{json_str, json_u64};
use copia::async_sync::AsyncCopiaSync;
use copia::{BlockSignature, CopiaSync, Delta, DeltaOp, Signature, SignatureTable, StrongHash, Sync};
use std::collections::HashSet;
use std::io::Cursor;
use std::time::{Duration, Instant};

pub const BLOCK_SIZES: [usize; 8] = [512, 1024, 2048, 4096, 8192, 16384, 32768, 65536];

/// exact = weak hash from the defining formula (C16/C17); otherwise from the crate's own block routine
/// (C01 only needs every producer to agree, not the value of the weak hash)
fn ref_sig_mode(data: &[u8], bs: usize, exact: bool) -> Signature {
    let mut s = Signature::new(bs, data.len() as u64);
    for (i, c) in data.chunks(bs).enumerate() {
        if exact { s.blocks.push(BlockSignature::new(i as u32, reference(c).2, StrongHash::compute(c))); }
        else { s.blocks.push(BlockSignature::compute(i as u32, c)); }
    }
    s
}
fn ref_sig(data: &[u8], bs: usize) -> Signature { ref_sig_mode(data, bs, true) }

/// data generators: kind 0 random, 1 all 0xFF, 2 zeros, 3 repeated block, 4 high bytes
pub fn gen(kind: u32, n: usize, seed: u64) -> Vec<u8> {
    let mut r = Rng(seed ^ 0xDA7A);
    match kind % 5 {
        0 => (0..n).map(|_| r.next() as u8).collect(),
        1 => vec![0xFF; n],
        2 => vec![0; n],
        3 => { let b: Vec<u8> = (0..97).map(|_| r.next() as u8).collect(); (0..n).map(|i| b[i % 97]).collect() }
        _ => (0..n).map(|_| 0xF0 | (r.next() as u8 & 0x0F)).collect(),
    }
}

pub fn twin_signature_generate(seed: u64, budget: u64) -> i32 { twin_siggen(seed, budget, true) }
pub fn twin_signature_structure(seed: u64, budget: u64) -> i32 { twin_siggen(seed, budget, false) }
fn twin_siggen(seed: u64, budget: u64, exact: bool) -> i32 {
    let t0 = Instant::now();
    let mut cases = 0u64;
    let mut r = Rng(seed);
    let mut round = 0u32;
    loop {
        for &bs in &BLOCK_SIZES {
            let n = match round % 8 { 0 => 0, 1 => 1, 2 => bs - 1, 3 => bs, 4 => bs + 1, 5 => 3 * bs + 7, 6 => 65536 + 1 + r.below(70000) as usize, _ => r.below(4 * bs as u64) as usize };
            let data = gen(round / 8, n, seed + round as u64);
            let want = ref_sig_mode(&data, bs, exact);
            let got = std::panic::catch_unwind(|| Signature::generate(&mut Cursor::new(&data), bs));
            cases += 1;
            let bad = match got { Ok(Ok(g)) => if g != want { Some("differs from the block-wise definition") } else { None }, Ok(Err(_)) => Some("returned an error"), Err(_) => Some("panicked") };
            if let Some(b) = bad {
                println!("WITNESS {{\"kind\":\"siggen\",\"gen\":{},\"n\":{n},\"bs\":{bs},\"seed\":{},\"what\":\"Signature::generate on {n} bytes (generator {}) with block size {bs} {b}\"}}", round / 8, seed + round as u64, (round / 8) % 5);
                println!("CASES {cases}");
                return 1;
            }
        }
        // library level: block sizes that do not divide the 64 KiB parallel threshold, on inputs above it
        if round < 6 { for &bs in &[1000usize, 3000, 100_000, 65_537, 7] {
            let n = 65_537 + (round as usize) * 33_333 + r.below(50_000) as usize;
            let data = gen(round % 5, n, seed + 1000 + round as u64);
            let want = ref_sig_mode(&data, bs, exact);
            let got = std::panic::catch_unwind(|| Signature::generate(&mut Cursor::new(&data), bs));
            cases += 1;
            let bad = match got { Ok(Ok(g)) => if g != want { Some("differs from the block-wise definition") } else { None }, Ok(Err(_)) => Some("returned an error"), Err(_) => Some("panicked") };
            if let Some(b) = bad {
                println!("WITNESS {{\"kind\":\"siggen\",\"gen\":{},\"n\":{n},\"bs\":{bs},\"seed\":{},\"what\":\"Signature::generate on {n} bytes (generator {}) with block size {bs} {b}\"}}", round % 5, seed + 1000 + round as u64, round % 5);
                println!("CASES {cases}");
                return 1;
            }
        } }
        round += 1;
        if round >= 40 && t0.elapsed() > Duration::from_secs(budget) { break; }
        if t0.elapsed() > Duration::from_secs(budget * 3 + 5) { break; }
    }
    println!("CASES {cases}");
    0
}

/// a block with the same weak hash (both sums) but different content: +1, -2, +1 on neighbouring bytes
pub fn weak_twin(b: &[u8]) -> Option<Vec<u8>> {
    let mut t = b.to_vec();
    for i in 0..b.len().saturating_sub(2) {
        if t[i] < 255 && t[i + 1] >= 2 && t[i + 2] < 255 {
            t[i] += 1; t[i + 1] -= 2; t[i + 2] += 1;
            return Some(t);
        }
    }
    None
}

pub fn twin_signature_table(seed: u64, budget: u64) -> i32 {
    let t0 = Instant::now();
    let mut cases = 0u64;
    let mut round = 0u64;
    loop {
        let bs = 512usize;
        let mut r = Rng(seed + round);
        // basis = b0 | twin(b0) | b1 | b0 (repeat) | short tail
        let b0 = gen(0, bs, seed + round);
        let b1 = gen(4, bs, seed + round + 1);
        let tw = weak_twin(&b0).unwrap_or_else(|| b1.clone());
        let mut basis = vec![];
        for blk in [&b0, &tw, &b1, &b0] { basis.extend_from_slice(blk); }
        basis.extend_from_slice(&b1[..r.below(bs as u64) as usize]);
        let sig = ref_sig(&basis, bs);
        let table = SignatureTable::from_signature(sig.clone());
        let mut probes: Vec<Vec<u8>> = vec![b0.clone(), tw.clone(), b1.clone(), gen(0, bs, seed + round + 7)];
        if let Some(t2) = weak_twin(&b1) { probes.push(t2); }
        for p in &probes {
            let w = reference(p).2;
            let want_has = sig.blocks.iter().any(|b| b.weak_hash == w);
            let strong = StrongHash::compute(p);
            let want = sig.blocks.iter().find(|b| b.weak_hash == w && b.strong_hash == strong).cloned();
            let got_has = table.has_weak_match(w);
            let got = table.find_match(w, p).cloned();
            cases += 1;
            if got_has != want_has || got != want || table.is_empty() != sig.blocks.is_empty() {
                println!("WITNESS {{\"kind\":\"sigtable\",\"seed\":{},\"what\":\"SignatureTable lookup disagrees with its contract: has_weak_match={got_has} (want {want_has}), find_match index {:?} (want {:?})\"}}", seed + round, got.map(|b| b.index), want.map(|b| b.index));
                println!("CASES {cases}");
                return 1;
            }
        }
        let e = SignatureTable::from_signature(ref_sig(&[], bs));
        if !e.is_empty() || e.has_weak_match(0) { println!("WITNESS {{\"kind\":\"sigtable\",\"seed\":0,\"what\":\"empty table is not empty\"}}"); return 1; }
        round += 1;
        if round >= 20 && t0.elapsed() > Duration::from_secs(budget) { break; }
    }
    println!("CASES {cases}");
    0
}

/// (basis, source) pairs with the shapes the properties name
pub fn pair(kind: u32, bs: usize, seed: u64) -> (Vec<u8>, Vec<u8>) {
    let mut r = Rng(seed ^ 0x9A12);
    if kind >= 1000 && kind < 100000 {
        // long runs of window slides without a match: N fresh bytes inserted in the middle of a block, so that the next real
        // match is reached only after bs + N consecutive slides (N sweeps the residues of any periodic bookkeeping of the
        // rolling checksum); the blocks after the insert must all be found again
        let n = (kind as usize - 1000) * 251 + 1;
        let basis = gen(0, 4 * bs + 7, seed);
        let mut src = basis[..bs + bs / 2].to_vec();
        src.extend((0..n).map(|_| r.next() as u8));
        src.extend_from_slice(&basis[bs + bs / 2..]);
        return (basis, src);
    }
    let nb = 2 + r.below(5) as usize;
    let basis_kind = match kind % 4 { 0 => 0, 1 => 1, 2 => 3, _ => 4 };
    let mut basis = gen(basis_kind, nb * bs + r.below(bs as u64) as usize, seed);
    if kind % 7 == 3 { basis.clear(); }
    let mut src = basis.clone();
    match kind % 6 {
        0 => {}
        1 => { let k = r.below(src.len().max(1) as u64) as usize; if !src.is_empty() { src[k] ^= 0x5A; } }
        2 => { let k = r.below(src.len().max(1) as u64) as usize; let ins: Vec<u8> = (0..1 + r.below(9)).map(|_| r.next() as u8).collect(); let at = k.min(src.len()); src.splice(at..at, ins); }
        3 => { let k = r.below(src.len().max(1) as u64) as usize; let e = (k + 1 + r.below(9) as usize).min(src.len()); if k < e { src.drain(k..e); } }
        4 => { // weak-collision twin of a basis block placed before the real block
            if basis.len() >= 2 * bs { if let Some(t) = weak_twin(&basis[bs..2 * bs]) { let mut s2 = basis[..bs].to_vec(); s2.extend_from_slice(&t); s2.extend_from_slice(&basis[bs..]); src = s2; } } }
        _ => { src = gen(0, r.below(3 * bs as u64) as usize, seed + 99); }
    }
    (basis, src)
}

fn greedy_lit(src: &[u8], basis: &[u8], bs: usize) -> u64 {
    let blocks: HashSet<&[u8]> = basis.chunks(bs).filter(|c| c.len() == bs).collect();
    let (mut pos, mut lit) = (0usize, 0u64);
    while pos + bs <= src.len() {
        if blocks.contains(&src[pos..pos + bs]) { pos += bs; } else { lit += 1; pos += 1; }
    }
    lit + (src.len() - pos) as u64
}

fn rt() -> tokio::runtime::Runtime { tokio::runtime::Builder::new_current_thread().build().expect("tokio runtime") }

/// all C01/C16 clauses on one pair; returns a description of the first failure
fn check_pair(basis: &[u8], src: &[u8], bs: usize, greedy_only: bool) -> Option<String> {
    let sync = CopiaSync::with_block_size(bs);
    let asy = AsyncCopiaSync::with_block_size(bs);
    let r = std::panic::catch_unwind(|| -> Option<String> {
        let sig = match sync.signature(Cursor::new(basis)) { Ok(s) => s, Err(e) => return Some(format!("signature failed: {e}")) };
        let asig = match rt().block_on(asy.signature(Cursor::new(basis.to_vec()))) { Ok(s) => s, Err(e) => return Some(format!("async signature failed: {e}")) };
        if !greedy_only && asig != sig { return Some("AsyncCopiaSync::signature differs from Signature::generate on the same bytes".into()); }
        let d = match sync.delta(Cursor::new(src), &sig) { Ok(d) => d, Err(e) => return Some(format!("delta failed: {e}")) };
        let ad = match rt().block_on(asy.delta(Cursor::new(src.to_vec()), &sig)) { Ok(d) => d, Err(e) => return Some(format!("async delta failed: {e}")) };
        for (name, d) in [("CopiaSync::delta", &d), ("AsyncCopiaSync::delta", &ad)] {
            if greedy_only {
                let g = greedy_lit(src, basis, bs);
                if d.bytes_literal() > g { return Some(format!("{name}: {} literal bytes, the textbook greedy scan needs {g}", d.bytes_literal())); }
                continue;
            }
            if d.source_size != src.len() as u64 || d.checksum != StrongHash::compute(src) { return Some(format!("{name}: declared size/checksum are not those of the source")); }
            if d.bytes_matched() + d.bytes_literal() != src.len() as u64 { return Some(format!("{name}: copy+literal lengths do not sum to the source size")); }
            for op in &d.ops { if let DeltaOp::Copy { offset, len } = op { if offset + u64::from(*len) > basis.len() as u64 { return Some(format!("{name}: a copy lies outside the basis")); } } }
            let mut out = Vec::new();
            if let Err(e) = sync.patch(Cursor::new(basis), d, &mut out) { return Some(format!("{name} + CopiaSync::patch failed: {e}")); }
            if out != src { return Some(format!("{name} + CopiaSync::patch did not reproduce the source")); }
            let mut out2 = Vec::new();
            if let Err(e) = rt().block_on(asy.patch(Cursor::new(basis.to_vec()), d, &mut out2)) { return Some(format!("{name} + AsyncCopiaSync::patch failed: {e}")); }
            if out2 != src { return Some(format!("{name} + AsyncCopiaSync::patch did not reproduce the source")); }
        }
        if !greedy_only && ad != d { return Some("AsyncCopiaSync::delta differs from CopiaSync::delta for the same inputs".into()); }
        // the file-to-file entry point (AsyncCopiaSync::sync_files, behind `copia sync SRC DST`) at THIS block size
        if let Some(w) = check_sync_files(basis, src, bs, greedy_only) { return Some(w); }
        None
    });
    match r { Ok(x) => x, Err(_) => Some("an engine panicked".into()) }
}

fn check_sync_files(basis: &[u8], src: &[u8], bs: usize, greedy_only: bool) -> Option<String> {
    static N: std::sync::atomic::AtomicU64 = std::sync::atomic::AtomicU64::new(0);
    let d = std::env::temp_dir().join(format!("copia-verif-sf-{}-{}", std::process::id(), N.fetch_add(1, std::sync::atomic::Ordering::Relaxed)));
    let _ = std::fs::create_dir_all(&d);
    let (ps, pd) = (d.join("src"), d.join("dst"));
    let r = (|| -> Option<String> {
        std::fs::write(&ps, src).ok()?; std::fs::write(&pd, basis).ok()?;
        let asy = AsyncCopiaSync::with_block_size(bs);
        let res = match rt().block_on(asy.sync_files(&ps, &pd)) { Ok(r) => r, Err(e) => return Some(format!("AsyncCopiaSync::sync_files failed on plain files: {e}")) };
        let got = std::fs::read(&pd).ok()?;
        if greedy_only {
            // identical files take the no-op path (0 literal bytes); otherwise the engine behind sync_files is the same greedy scan
            let g = if src == basis { 0 } else { greedy_lit(src, basis, bs) };
            if res.bytes_literal > g { return Some(format!("AsyncCopiaSync::with_block_size({bs}).sync_files: {} literal bytes, the textbook greedy scan at block size {bs} needs {g}", res.bytes_literal)); }
        } else {
            if got != src { return Some(format!("AsyncCopiaSync::with_block_size({bs}).sync_files returned Ok but the destination file is not byte-identical to the source")); }
            if res.source_size != src.len() as u64 || res.bytes_matched + res.bytes_literal != res.source_size { return Some("sync_files: the reported sizes do not add up to the source size".into()); }
        }
        None
    })();
    let _ = std::fs::remove_dir_all(&d);
    r
}
/// library level: EVERY positive block size. Tiny block sizes (1, 2, 3, 5) with sources that end in bytes occurring nowhere in the
/// basis, start with them, or consist of them only - the delta follows the signature's block size, whatever the engine was built with
fn check_small_bs(bs: usize, shape: u32) -> Option<String> {
    let basis: Vec<u8> = match shape % 3 { 0 => b"abcabcabc".to_vec(), 1 => b"aaaa".to_vec(), _ => b"abcdefghij".to_vec() };
    let src: Vec<u8> = match shape / 3 { 0 => { let mut s = basis.clone(); s.extend_from_slice(b"xy"); s } 1 => { let mut s = b"zz".to_vec(); s.extend_from_slice(&basis); s } 2 => b"zz".to_vec(),
        3 => { let mut s = basis[..basis.len() - 1].to_vec(); s.push(b'x'); s } _ => basis.clone() };
    let r = std::panic::catch_unwind(|| -> Option<String> {
        let sig = Signature::generate(&mut Cursor::new(&basis), bs).ok()?;
        let sync = CopiaSync::with_block_size(512);
        let asy = AsyncCopiaSync::with_block_size(512);
        let d = match sync.delta(Cursor::new(&src), &sig) { Ok(d) => d, Err(e) => return Some(format!("delta failed: {e}")) };
        let ad = match rt().block_on(asy.delta(Cursor::new(src.clone()), &sig)) { Ok(d) => d, Err(e) => return Some(format!("async delta failed: {e}")) };
        for (name, d) in [("CopiaSync::delta", &d), ("AsyncCopiaSync::delta", &ad)] {
            if d.source_size != src.len() as u64 || d.checksum != StrongHash::compute(&src) { return Some(format!("{name}: declared size/checksum are not those of the source")); }
            if d.bytes_matched() + d.bytes_literal() != src.len() as u64 { return Some(format!("{name}: copy+literal lengths sum to {} for a source of {} bytes", d.bytes_matched() + d.bytes_literal(), src.len())); }
            let mut out = Vec::new();
            if let Err(e) = sync.patch(Cursor::new(&basis), d, &mut out) { return Some(format!("{name} + patch failed: {e}")); }
            if out != src { return Some(format!("{name} + patch did not reproduce the source")); }
        }
        if ad != d { return Some("AsyncCopiaSync::delta differs from CopiaSync::delta".into()); }
        None
    });
    match r { Ok(x) => x, Err(_) => Some("an engine panicked".into()) }.map(|w| format!("{w} (signature block size {bs}, basis {:?}, source {:?})", String::from_utf8_lossy(&basis), String::from_utf8_lossy(&src)))
}
pub fn search_pairs(greedy_only: bool, seed: u64, budget: u64, as_twin: bool) -> i32 {
    let t0 = Instant::now();
    let mut cases = 0u64;
    if !greedy_only {
        for bs in [1usize, 2, 3, 5] { for shape in 0..15u32 {
            cases += 1;
            if let Some(what) = check_small_bs(bs, shape) {
                println!("WITNESS {{\"kind\":\"pair-small\",\"bs\":{bs},\"shape\":{shape},\"what\":\"{}\"}}", what.replace('"', "'"));
                if as_twin { println!("CASES {cases}"); }
                return 1;
            }
        } }
    }
    let mut round = 0u32;
    loop {
        let bs = BLOCK_SIZES[(round as usize) % if round < 48 { 3 } else { 8 }];
        let (basis, src) = pair(round, bs, seed + round as u64);
        cases += 1;
        if let Some(what) = check_pair(&basis, &src, bs, greedy_only) {
            println!("WITNESS {{\"kind\":\"pair\",\"greedy_only\":{},\"round\":{round},\"bs\":{bs},\"seed\":{},\"what\":\"{} (basis {} bytes, source {} bytes, block size {bs}, pair kind {round})\"}}", greedy_only as u8, seed + round as u64, what.replace('"', "'"), basis.len(), src.len());
            if as_twin { println!("CASES {cases}"); }
            return 1;
        }
        round += 1;
        // identical high-sum file at the large block sizes (C16 corollary)
        if round % 16 == 0 {
            let bs = BLOCK_SIZES[4 + (round as usize / 16) % 4];
            let b = gen(1, 3 * bs, 0);
            cases += 1;
            if let Some(what) = check_pair(&b, &b, bs, greedy_only) {
                println!("WITNESS {{\"kind\":\"pair\",\"greedy_only\":{},\"round\":100000,\"bs\":{bs},\"seed\":0,\"what\":\"{} (identical {} bytes of 0xFF, block size {bs})\"}}", greedy_only as u8, what.replace('"', "'"), b.len());
                if as_twin { println!("CASES {cases}"); }
                return 1;
            }
        }
        // long slide runs (see `pair`, kinds >= 1000): 44 insert lengths up to ~11 KB at a small and a mid block size; every
        // block size in the thorough tier
        if round == 48 || (round == 96 && budget > 30) {
            let sizes: &[usize] = if round == 48 { &[512, 4096] } else { &BLOCK_SIZES };
            for &bs in sizes { for k in 0..44u32 {
                let kind = 1000 + k;
                let (basis, src) = pair(kind, bs, seed + u64::from(k));
                cases += 1;
                if let Some(what) = check_pair(&basis, &src, bs, greedy_only) {
                    println!("WITNESS {{\"kind\":\"pair\",\"greedy_only\":{},\"round\":{kind},\"bs\":{bs},\"seed\":{},\"what\":\"{} (basis {} bytes; source = the basis with {} fresh bytes inserted in the middle of its second block, block size {bs})\"}}", greedy_only as u8, seed + u64::from(k), what.replace('"', "'"), basis.len(), src.len() - basis.len());
                    if as_twin { println!("CASES {cases}"); }
                    return 1;
                }
            } }
        }
        if round >= 64 && t0.elapsed() > Duration::from_secs(budget) { break; }
        if t0.elapsed() > Duration::from_secs(budget * 3 + 5) { break; }
    }
    if as_twin { println!("CASES {cases}"); }
    0
}

pub fn run_pair_small(w: &str) -> i32 {
    match check_small_bs(json_u64(w, "bs").unwrap_or(1) as usize, json_u64(w, "shape").unwrap_or(0) as u32) { Some(what) => { println!("REPRODUCED: {what}"); 1 } None => { println!("not reproduced"); 0 } }
}
pub fn run_pair(w: &str) -> i32 {
    let round = json_u64(w, "round").unwrap_or(0) as u32;
    let bs = json_u64(w, "bs").unwrap_or(512) as usize;
    let seed = json_u64(w, "seed").unwrap_or(0);
    let g = json_str(w, "greedy_only").unwrap_or_default() == "1";
    let (basis, src) = if round == 100000 { let b = gen(1, 3 * bs, 0); (b.clone(), b) } else { pair(round, bs, seed) };
    match check_pair(&basis, &src, bs, g) {
        Some(what) => { println!("REPRODUCED: {what}"); 1 }
        None => { println!("not reproduced"); 0 }
    }
}
pub fn run_siggen(w: &str) -> i32 {
    let n = json_u64(w, "n").unwrap_or(0) as usize; let bs = json_u64(w, "bs").unwrap_or(512) as usize;
    let data = gen(json_u64(w, "gen").unwrap_or(0) as u32, n, json_u64(w, "seed").unwrap_or(0));
    match Signature::generate(&mut Cursor::new(&data), bs) {
        Ok(g) if g == ref_sig(&data, bs) => { println!("not reproduced"); 0 }
        _ => { println!("REPRODUCED: Signature::generate differs from the block-wise definition"); 1 }
    }
}
#[allow(dead_code)]
fn _unused(_: Delta) {}
