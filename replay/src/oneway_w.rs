//! crash oracle for one-way recursive `copia sync -r` on the REAL binary ($COPIA_BIN): C09.
//! For each direction (local->local, pull, push) the process is killed (SIGKILL injected by strace on syscall ENTRY,
//! i.e. before its k-th file-system / pipe write call executes), for every k until the run completes. `ssh` is a
//! stand-in on PATH that drops the host and runs the remote command with the local shell; strace detaches from it on
//! execve (-b execve), so the remote command is left to run to completion after its sender died - as the property says.
//! After each kill: every destination path other than a reserved staging name holds its complete previous bytes or the
//! complete source bytes; files outside the plan are unchanged; running the same command again exits 0 and yields the
//! destination of an uninterrupted run. Nothing here decides the property; it produces witnesses on the real code.
use crate::json_u64;
use std::collections::BTreeMap;
use std::path::{Path, PathBuf};
use std::process::{Command, Stdio};

type Tree = BTreeMap<String, Vec<u8>>;
pub const DIRS: [&str; 3] = ["local", "pull", "push"];
const SYSCALLS: &str = "write,pwrite64,writev,copy_file_range,sendfile,rename,renameat,renameat2,openat,creat,unlink,unlinkat,utimensat,mkdir,mkdirat,ftruncate";

fn tree(r: &Path) -> Tree {
    fn walk(root: &Path, d: &Path, out: &mut Tree) {
        if let Ok(rd) = std::fs::read_dir(d) { for e in rd.flatten() { let p = e.path(); if p.is_dir() { walk(root, &p, out) } else if let Ok(b) = std::fs::read(&p) { out.insert(p.strip_prefix(root).map(|x| x.to_string_lossy().into_owned()).unwrap_or_default(), b); } } }
    }
    let mut t = Tree::new(); walk(r, r, &mut t); t
}
fn pattern(n: usize, salt: u8) -> Vec<u8> { (0..n).map(|i| ((i * 31 + i / 251) as u8) ^ salt).collect() }

struct Env { dir: PathBuf, flags: std::cell::RefCell<Vec<String>>, src_name: std::cell::RefCell<String> }
impl Env {
    fn new(tagx: &str) -> Option<Env> {
        let d = std::env::temp_dir().join(format!("copia-verif-oneway-{}-{}", std::process::id(), tagx));
        let _ = std::fs::remove_dir_all(&d);
        std::fs::create_dir_all(d.join("bin")).ok()?;
        let shim = d.join("bin/ssh");
        // with COPIA_VERIF_REMOTE_FAULT set, a remote `cat FILE` delivers only the first 1000 bytes and then fails (link drop)
        std::fs::write(&shim, "#!/bin/bash\nshift\nif [ -n \"$COPIA_VERIF_REMOTE_FAULT\" ] && [[ \"$1\" == cat\\ \\$* ]]; then /bin/bash -c \"$1\" | head -c 1000; exit 255; fi\nexec /bin/bash -c \"$1\"\n").ok()?;
        use std::os::unix::fs::PermissionsExt;
        std::fs::set_permissions(&shim, std::fs::Permissions::from_mode(0o755)).ok()?;
        Some(Env { dir: d, flags: std::cell::RefCell::new(vec![]), src_name: std::cell::RefCell::new("src".into()) })
    }
    fn src(&self) -> PathBuf { self.dir.join(self.src_name.borrow().as_str())
    }
    /// source and destination trees of the scenario (sizes from 0 bytes to several 256 KiB transfer chunks)
    fn populate(&self, dst: &str) -> Option<()> {
        let (s, d) = (self.src(), self.dir.join(dst));
        let _ = std::fs::remove_dir_all(&s); let _ = std::fs::remove_dir_all(&d);
        std::fs::create_dir_all(s.join("sub")).ok()?; std::fs::create_dir_all(d.join("sub")).ok()?;
        std::fs::write(s.join("a.txt"), b"alpha-new\n").ok()?;
        std::fs::write(s.join("empty"), b"").ok()?;
        std::fs::write(s.join("sub/big.bin"), pattern(700_000, 0x5a)).ok()?;
        std::fs::write(s.join("sub/small.bin"), pattern(1000, 0x11)).ok()?;
        std::fs::write(s.join("sub/same.txt"), b"identical on both sides\n").ok()?;
        std::fs::write(d.join("a.txt"), b"alpha-OLD-content\n").ok()?;
        std::fs::write(d.join("sub/big.bin"), pattern(300_000, 0x33)).ok()?;
        std::fs::write(d.join("sub/unrelated.txt"), b"not in the plan\n").ok()?;
        std::fs::write(d.join("sub/same.txt"), b"identical on both sides\n").ok()?;
        std::fs::write(s.join("samemtime.txt"), b"the new, longer content of a file whose old copy has the very same mtime\n").ok()?;
        std::fs::write(d.join("samemtime.txt"), b"old\n").ok()?;
        let same = std::time::UNIX_EPOCH + std::time::Duration::from_secs(1_550_000_000);
        for r in [&s, &d] { if let Ok(f) = std::fs::File::options().write(true).open(r.join("samemtime.txt")) { let _ = f.set_modified(same); } }
        std::fs::write(s.join("readonly.txt"), b"new content for a file that is read-only at the destination\n").ok()?;
        std::fs::write(d.join("readonly.txt"), b"old read-only content\n").ok()?;
        { use std::os::unix::fs::PermissionsExt; let _ = std::fs::set_permissions(d.join("readonly.txt"), std::fs::Permissions::from_mode(0o444)); }
        let old = std::time::UNIX_EPOCH + std::time::Duration::from_secs(1_500_000_000);
        for (r, p) in [(&d, "a.txt"), (&d, "sub/big.bin"), (&d, "sub/same.txt"), (&s, "sub/same.txt")] { if let Ok(f) = std::fs::File::options().write(true).open(r.join(p)) { let _ = f.set_modified(old); } }
        Some(())
    }
    /// variant 2: a push with --delete whose delete list is longer than a pipe buffer (64 KiB). The list is written to the
    /// remote `xargs` in several write calls; the 65536-byte boundary falls inside the name of one stale file, and a file
    /// that is NOT in the plan (present and identical on both sides) carries exactly that truncated name.
    fn populate_big_delete(&self, dst: &str) -> Option<()> {
        let (s, d) = (self.dir.join("src"), self.dir.join(dst));
        let _ = std::fs::remove_dir_all(&s); let _ = std::fs::remove_dir_all(&d);
        std::fs::create_dir_all(s.join("s")).ok()?; std::fs::create_dir_all(d.join("s")).ok()?;
        let old = std::time::UNIX_EPOCH + std::time::Duration::from_secs(1_500_000_000);
        let both = |rel: &str, c: &[u8]| -> Option<()> { for r in [&s, &d] { std::fs::write(r.join(rel), c).ok()?; std::fs::File::options().write(true).open(r.join(rel)).ok()?.set_modified(old).ok()?; } Some(()) };
        both("keep.txt", b"same on both sides")?;
        let names: Vec<String> = (0..1500).map(|i| format!("s/{i:04}-{}", "x".repeat(50))).collect();
        for n in &names { std::fs::write(d.join(n), b"stale").ok()?; }
        // where does byte 65536 of the list `<dst>/<rel>\0...` fall?
        let root = d.to_string_lossy().into_owned();
        let mut pos = 0usize;
        for n in &names {
            let e = root.len() + 1 + n.len() + 1;
            if pos + e > 65536 {
                let o = 65536 - pos;                                   // bytes of this entry that fit
                if o > root.len() + 1 + 4 && o < root.len() + 1 + n.len() { both(&n[..o - (root.len() + 1)], b"an innocent file: present and identical on both sides, not in any plan")?; }
                break;
            }
            pos += e;
        }
        Some(())
    }
    fn args(&self, dir: &str, dst: &str) -> Vec<String> {
        let (s, d) = (self.src().to_string_lossy().into_owned(), self.dir.join(dst).to_string_lossy().into_owned());
        let mut v = vec!["sync".to_string(), "-r".into(), "-j".into(), "1".into()];
        v.extend(self.flags.borrow().iter().cloned());
        match dir { "pull" => { v.push(format!("fakehost:{s}")); v.push(d); } "push" => { v.push(s); v.push(format!("fakehost:{d}")); } _ => { v.push(s); v.push(d); } }
        v
    }
    fn path_env(&self) -> String { format!("{}:{}", self.dir.join("bin").display(), std::env::var("PATH").unwrap_or_default()) }
    /// run to completion; (exit code, output)
    fn run(&self, dir: &str, dst: &str) -> (Option<i32>, String) { self.run_env(dir, dst, false) }
    fn run_env(&self, dir: &str, dst: &str, fault: bool) -> (Option<i32>, String) {
        let b = std::env::var("COPIA_BIN").unwrap_or_default();
        let mut c = Command::new(b);
        if fault { c.env("COPIA_VERIF_REMOTE_FAULT", "1"); }
        match c.args(self.args(dir, dst)).env("PATH", self.path_env()).env("RUST_BACKTRACE", "0").env("TOKIO_WORKER_THREADS", "1").output() {
            Ok(o) => (o.status.code(), format!("{}{}", String::from_utf8_lossy(&o.stdout), String::from_utf8_lossy(&o.stderr))), Err(e) => (Some(-1), e.to_string()) }
    }
    /// run under the ptrace supervisor: killed right before its k-th file-system or pipe write call (k = 0: count only)
    fn run_killed(&self, dir: &str, dst: &str, k: usize) -> Option<crate::killer::Outcome> {
        let b = std::env::var("COPIA_BIN").unwrap_or_default();
        let mut c = Command::new(b);
        c.args(self.args(dir, dst)).env("PATH", self.path_env()).env("RUST_BACKTRACE", "0").env("TOKIO_WORKER_THREADS", "1").stdin(Stdio::null()).stdout(Stdio::null()).stderr(Stdio::null());
        crate::killer::run(&mut c, k)
    }
}
impl Drop for Env { fn drop(&mut self) { let _ = std::fs::remove_dir_all(&self.dir); } }

/// one direction, one kill point; None = property held here (or the run was not killed: k beyond the last call)
pub fn kill_point(dir: &str, k: usize) -> (Option<String>, bool) { kill_point_v(dir, k, 0) }
/// variant 0: default flags; variant 1: --delete (the destination-only file is in the plan: it may be gone, nothing else may)
pub fn kill_point_v(dir: &str, k: usize, variant: usize) -> (Option<String>, bool) {
    let Some(env) = Env::new(&format!("{dir}{k}v{variant}")) else { return (None, false) };
    if variant >= 1 { env.flags.borrow_mut().push("--delete".into()); }
    let dir_s = if variant == 1 { format!("{dir} --delete") } else if variant == 2 { format!("{dir} --delete, 1500 stale files") } else { dir.to_string() };
    let pop = |which: &str| if variant == 2 { env.populate_big_delete(which) } else { env.populate(which) };
    if pop("ref").is_none() { return (None, false); }
    let src = tree(&env.dir.join("src"));
    let (rc, out) = env.run(dir, "ref");
    if rc != Some(0) { return (Some(format!("[{dir}] the uninterrupted reference run failed (exit {rc:?}): {}", out.chars().take(160).collect::<String>())), false); }
    let reference = tree(&env.dir.join("ref"));
    if pop("dst").is_none() { return (None, false); }
    let before = tree(&env.dir.join("dst"));
    let Some(o) = env.run_killed(dir, "dst", k) else { return (None, false) };
    if !o.killed { return (None, false); }
    let at = o.last.replace(&env.dir.to_string_lossy().into_owned(), "");
    std::thread::sleep(std::time::Duration::from_millis(250));       // let the orphaned remote command finish
    let after = tree(&env.dir.join("dst"));
    if std::env::var("COPIA_VERIF_DEBUG").is_ok() { eprintln!("debug: k={k} killed before `{at}`; files before {} after {}; missing although in source: {:?}", before.len(), after.len(), before.keys().filter(|p| !after.contains_key(*p) && src.contains_key(*p)).collect::<Vec<_>>()); }
    for (p, v) in &after {
        if p.ends_with(".copia-tmp") { continue; }
        let old_ok = before.get(p) == Some(v); let new_ok = src.get(p) == Some(v);
        if !old_ok && !new_ok {
            return (Some(format!("[{dir}] killed right before its {k}-th file-system/pipe write call `{at}`: destination `{p}` holds {} bytes that are neither its previous content ({}) nor the complete source file ({} bytes) - a truncated or mixed file is visible at a live path (C09)", v.len(), before.get(p).map(|b| format!("{} bytes", b.len())).unwrap_or("absent".into()), src.get(p).map(|b| b.len()).unwrap_or(0))), true);
        }
        if !src.contains_key(p) && !old_ok { return (Some(format!("[{dir_s}] killed before call {k} `{at}`: `{p}`, which is outside the plan, changed (C09)")), true); }
    }
    for p in before.keys() { if !after.contains_key(p) && !(variant >= 1 && !src.contains_key(p)) { return (Some(format!("[{dir_s}] killed before call {k} `{at}`: `{p}` existed before the run and is gone (C09)")), true); } }
    let (rc2, out2) = env.run(dir, "dst");
    if rc2 != Some(0) { return (Some(format!("[{dir}] killed before call {k} `{at}`, then the same command was run again: it does not complete (exit {rc2:?}): {} (C09)", out2.lines().filter(|l| l.contains("FAIL") || l.contains("rror")).take(2).collect::<Vec<_>>().join(" | "))), true); }
    let fin = tree(&env.dir.join("dst"));
    if fin != reference {
        let d: Vec<&String> = fin.keys().chain(reference.keys()).filter(|p| fin.get(*p) != reference.get(*p)).collect();
        return (Some(format!("[{dir}] killed before call {k} `{at}`, re-run completed, but the destination differs from an uninterrupted run at {d:?} (C09)")), true);
    }
    (None, true)
}

/// pull with a remote end that fails mid-stream: nothing incomplete may be published, and the run must report failure
pub fn remote_fault() -> Option<String> {
    let env = Env::new("fault")?;
    env.populate("ref")?;
    let src = tree(&env.dir.join("src"));
    if env.run("pull", "ref").0 != Some(0) { return None; }
    let reference = tree(&env.dir.join("ref"));
    env.populate("dst")?;
    let before = tree(&env.dir.join("dst"));
    let (rc, _) = env.run_env("pull", "dst", true);
    let after = tree(&env.dir.join("dst"));
    for (p, v) in &after {
        if p.ends_with(".copia-tmp") { continue; }
        if before.get(p) != Some(v) && src.get(p) != Some(v) { return Some(format!("[pull] the remote `cat` failed after 1000 bytes: destination `{p}` now holds {} bytes that are neither its previous content nor the complete source file ({} bytes) - an incomplete stream was published (C09)", v.len(), src.get(p).map(|b| b.len()).unwrap_or(0))); }
    }
    if rc == Some(0) && after != reference { return Some("[pull] the remote `cat` failed mid-stream for every file larger than 1000 bytes, yet the run reported success (C09)".into()); }
    let (rc2, _) = env.run("pull", "dst");
    if rc2 != Some(0) || tree(&env.dir.join("dst")) != reference { return Some("[pull] after a run with a failing remote end, running the same command again does not converge to the uninterrupted result (C09)".into()); }
    None
}
// ---- C04: a successful run delivers exactly its plan (bounded: one tree of awkward names, five flag sets, three directions) ----
const NAMES: [&str; 17] = ["nl\ndir/inside.txt", "report\\table.csv", "esc\\new\\0end", "plain.txt", "with space.txt", "quote'single.txt", "dq\"double.txt", "back\\slash.txt", "dollar$HOME.txt", "star*glob?.txt",
    "-leading-dash", "uni-\u{f8}-\u{6587}.txt", "new\nline.txt", "sub dir/nested file.txt", "sub dir/deep/x.log", ".hidden", "semi;colon&amp.txt"];
const SIBLINGS: [&str; 14] = ["reports/q1.txt", "reports.txt", "reports-old/q1.txt", "reports old/q1.txt", "v1/x", "v1.1/notes", "v1+/y", "img/a.png", "img!/a.png", "ab/c", "ab.c", "a/b", "a.b", "a-b/c"];
pub fn flag_sets() -> Vec<Vec<&'static str>> {
    vec![vec![], vec!["--delete"], vec!["--delete", "--exclude", "*.log"], vec!["--exclude", "sub dir"], vec!["--delete", "-j", "4"], vec!["--delete", "--exclude", "uni-?-?.txt", "--exclude", "?hidden"]]
}
type Stamp = BTreeMap<String, (Vec<u8>, u64)>;
struct PlanCase { sr: PathBuf, dr: PathBuf, flags: Vec<&'static str>, s0: Stamp, d0: Stamp, want: Stamp }
fn stamp_of(r: &Path) -> Stamp { tree(r).into_iter().map(|(p, b)| { let m = std::fs::metadata(r.join(&p)).and_then(|m| m.modified()).ok().and_then(|t| t.duration_since(std::time::UNIX_EPOCH).ok()).map(|d| d.as_secs()).unwrap_or(0); (p, (b, m)) }).collect() }
/// the C04 tree (awkward names, four destination states, sibling names, stale files) and the plan the property gives for it
fn plan_case(env: &Env, fi: usize) -> Option<PlanCase> { plan_case_v(env, fi, 0) }
/// variant 0: the tree above. variant 1: an EMPTY source (the directory exists, no file in it) against a populated destination.
/// variant 2: a path that is a regular file in the source and a non-empty DIRECTORY at the destination.
fn plan_case_v(env: &Env, fi: usize, variant: usize) -> Option<PlanCase> {
    let (sr, dr) = (env.dir.join("src"), env.dir.join("dst"));
    if variant != 0 {
        let t0 = 1_650_000_000u64;
        let wr = |root: &Path, rel: &str, c: &[u8], secs: u64| -> Option<()> { let f = root.join(rel); std::fs::create_dir_all(f.parent()?).ok()?; std::fs::write(&f, c).ok()?; std::fs::File::options().write(true).open(&f).ok()?.set_modified(std::time::UNIX_EPOCH + std::time::Duration::new(secs, 0)).ok() };
        std::fs::create_dir_all(&sr).ok()?; std::fs::create_dir_all(&dr).ok()?;
        if variant == 1 {
            for (i, n) in ["old.txt", "sub/stale.bin", "keep.log", "sub dir/x"].iter().enumerate() { wr(&dr, n, format!("destination only {i}").as_bytes(), t0 - 100)?; }
        } else {
            wr(&sr, "clash", b"a regular file in the source", t0)?; wr(&sr, "plain.txt", b"plain", t0 + 1)?;
            wr(&dr, "clash/inner.log", b"inside the directory", t0 - 5)?; wr(&dr, "clash/sub/data.bin", b"deeper", t0 - 6)?; wr(&dr, "other.txt", b"other", t0 - 7)?;
        }
        let flags = flag_sets()[fi.min(flag_sets().len() - 1)].clone();
        let excludes: Vec<String> = flags.iter().enumerate().filter(|(i, _)| *i > 0 && flags[i - 1] == "--exclude").map(|(_, x)| x.to_string()).collect();
        let delete = flags.contains(&"--delete");
        let (s0, d0) = (stamp_of(&sr), stamp_of(&dr));
        let ex = |p: &str| crate::plan::is_excluded(Path::new(p), &excludes);
        let mut want = d0.clone();
        for (p, (b, m)) in &s0 { if ex(p) { continue; } let send = match d0.get(p) { None => true, Some((b2, m2)) => b2.len() != b.len() || m2 != m }; if send { want.insert(p.clone(), (b.clone(), *m)); } }
        if delete { for p in d0.keys() { if !s0.contains_key(p) && !ex(p) { want.remove(p); } } }
        return Some(PlanCase { sr, dr, flags, s0, d0, want });
    }
    let t0 = 1_650_000_000u64;
    // every mtime ends just before the next second (.999999999): whole-second truncation must not round it up
    let wr = |root: &Path, rel: &str, c: &[u8], secs: u64| -> Option<()> { let f = root.join(rel); std::fs::create_dir_all(f.parent()?).ok()?; std::fs::write(&f, c).ok()?; std::fs::File::options().write(true).open(&f).ok()?.set_modified(std::time::UNIX_EPOCH + std::time::Duration::new(secs, 999_999_999)).ok() };
    std::fs::create_dir_all(&sr).ok()?; std::fs::create_dir_all(&dr).ok()?;
    for (i, n) in NAMES.iter().enumerate() {
        let c = format!("source content of file {i}: {n}").into_bytes();
        wr(&sr, n, &c, t0 + i as u64)?;
        match i % 4 {
            0 => {}                                                                    // absent at the destination
            1 => { let mut same = c.clone(); same[0] ^= 0x20; wr(&dr, n, &same, t0 + i as u64)?; }   // same size + mtime, other bytes: the quick check skips it
            2 => { wr(&dr, n, b"shorter", t0 + i as u64)?; }                           // different size
            _ => { let mut same = c.clone(); same[1] ^= 0x20; wr(&dr, n, &same, t0 - 500)?; }        // same size, different mtime
        }
    }
    // a source file stamped in second 0 of the epoch (a legal mtime: "at or after the epoch"), absent at the destination
    wr(&sr, "epoch second zero.txt", b"stamped at the very beginning of the epoch", 0)?;
    wr(&sr, "sub dir/epoch second one.txt", b"one second later", 1)?;
    // names that are neighbours in byte order but not in path-component order (`reports/...` vs `reports.txt` vs `reports-old/...`):
    // present and identical (bytes, size, mtime) on both sides - they are in no plan, whatever the flags
    for (i, n) in SIBLINGS.iter().enumerate() { let c = format!("identical on both sides {i}").into_bytes(); wr(&sr, n, &c, t0 - 77)?; wr(&dr, n, &c, t0 - 77)?; }
    for (i, n) in ["stale.txt", "stale new\nline", "sub dir/stale.log", "only here/old file"].iter().enumerate() { wr(&dr, n, format!("stale {i}").as_bytes(), t0 - 1000)?; }
    let flags = flag_sets()[fi.min(flag_sets().len() - 1)].clone();
    let excludes: Vec<String> = flags.iter().enumerate().filter(|(i, _)| *i > 0 && flags[i - 1] == "--exclude").map(|(_, x)| x.to_string()).collect();
    let delete = flags.contains(&"--delete");
    let (s0, d0) = (stamp_of(&sr), stamp_of(&dr));
    // the plan, from the property statement (exclusion by the real, proved, is_excluded)
    let ex = |p: &str| crate::plan::is_excluded(Path::new(p), &excludes);
    let mut want = d0.clone();
    for (p, (b, m)) in &s0 { if ex(p) { continue; } let send = match d0.get(p) { None => true, Some((b2, m2)) => b2.len() != b.len() || m2 != m }; if send { want.insert(p.clone(), (b.clone(), *m)); } }
    if delete { for p in d0.keys() { if !s0.contains_key(p) && !ex(p) { want.remove(p); } } }
    Some(PlanCase { sr, dr, flags, s0, d0, want })
}
fn dirs_of(r: &Path) -> Vec<String> {
    fn walk(root: &Path, d: &Path, out: &mut Vec<String>) { if let Ok(rd) = std::fs::read_dir(d) { for e in rd.flatten() { let p = e.path(); if p.is_dir() { out.push(p.strip_prefix(root).map(|x| x.to_string_lossy().into_owned()).unwrap_or_default()); walk(root, &p, out); } } } }
    let mut v = vec![]; walk(r, r, &mut v); v.sort(); v
}
/// C15: `sync -r --dry-run` changes no file, no mtime, no directory on either side, and prints exactly the planned actions:
/// every path a real run from this state sends or deletes is named on a line of its own, no other path of either tree is.
/// (Format-agnostic: a path counts as printed if stdout holds `<blank><path><newline>`.)
pub fn dry_run_is_inert(dir: &str, fi: usize) -> Option<String> { dry_run_is_inert_v(dir, fi, 0) }
pub fn dry_run_is_inert_v(dir: &str, fi: usize, variant: usize) -> Option<String> {
    let env = Env::new(&format!("dry{dir}{fi}v{variant}"))?;
    let pc = plan_case_v(&env, fi, variant)?;
    let (sr, dr, flags) = (&pc.sr, &pc.dr, &pc.flags);
    let (dirs_s, dirs_d) = (dirs_of(sr), dirs_of(dr));
    let cwd = env.dir.join("cwd"); std::fs::create_dir_all(&cwd).ok()?; std::fs::write(cwd.join("line"), b"bystander").ok()?;
    let b = std::env::var("COPIA_BIN").unwrap_or_default();
    let mut args: Vec<String> = vec!["sync".into(), "-r".into(), "--dry-run".into()];
    args.extend(flags.iter().map(|x| x.to_string()));
    let (ss, ds) = (sr.to_string_lossy().into_owned(), dr.to_string_lossy().into_owned());
    match dir { "pull" => { args.push(format!("fakehost:{ss}")); args.push(ds); } "push" => { args.push(ss); args.push(format!("fakehost:{ds}")); } _ => { args.push(ss); args.push(ds); } }
    let out = Command::new(b).args(&args).current_dir(&cwd).env("PATH", env.path_env()).env("RUST_BACKTRACE", "0").output().ok()?;
    let tag = format!("[{dir} --dry-run, flags {flags:?}{}]", ["", ", EMPTY source", ", a source file where the destination has a directory"][variant.min(2)]);
    let shown = |p: &str| p.replace('\\', "/BACKSLASH/").replace('\n', "<LF>").replace('\t', "<TAB>");
    let (s1, d1) = (stamp_of(sr), stamp_of(dr));
    if s1 != pc.s0 { return Some(format!("{tag} the source tree was modified (C15)")); }
    if d1 != pc.d0 { let p = d1.keys().chain(pc.d0.keys()).find(|p| d1.get(*p) != pc.d0.get(*p)).cloned().unwrap_or_default(); return Some(format!("{tag} the destination was modified by a dry run: `{}` (bytes or mtime changed, created or removed) (C15)", shown(&p))); }
    if dirs_of(sr) != dirs_s || dirs_of(dr) != dirs_d { return Some(format!("{tag} a dry run created or removed a directory (C15)")); }
    if std::fs::read(cwd.join("line")).ok().as_deref() != Some(b"bystander") { return Some(format!("{tag} a dry run touched a file in the working directory (C15)")); }
    if out.status.code() != Some(0) { return None; }       // a dry run may fail (it reported an error); it printed no plan to compare
    let so = format!("\n{}", String::from_utf8_lossy(&out.stdout));
    let printed = |p: &str| so.contains(&format!(" {p}\n")) || so.contains(&format!("\t{p}\n")) || so.contains(&format!("\n{p}\n"));
    let all: std::collections::BTreeSet<&String> = pc.s0.keys().chain(pc.d0.keys()).collect();
    for p in all {
        let action = pc.want.get(p) != pc.d0.get(p);
        if action && !printed(p) { return Some(format!("{tag} a real run from this state {} `{}`, the dry run does not print it (C15)", if pc.want.contains_key(p) { "sends" } else { "deletes" }, shown(p))); }
        if !action && printed(p) { return Some(format!("{tag} the dry run prints `{}` as an action; a real run from this state neither sends nor deletes it (C15)", shown(p))); }
    }
    None
}
pub fn dry_search(as_twin: bool) -> i32 {
    if std::env::var("COPIA_BIN").unwrap_or_default().is_empty() { eprintln!("COPIA_BIN not set"); if as_twin { println!("CASES 0"); } return 0; }
    let mut cases = 0;
    for (di, dir) in DIRS.iter().enumerate() { for fi in 0..flag_sets().len() {
        cases += 1;
        if let Some(what) = dry_run_is_inert(dir, fi) { println!("WITNESS {{\"kind\":\"oneway-dry\",\"dir\":{di},\"flags\":{fi},\"what\":\"{}\"}}", what.replace('"', "'").replace('\n', " ")); }
    } }
    for (di, dir) in DIRS.iter().enumerate() { for (variant, fi) in [(1usize, 0usize), (1, 1), (1, 2), (2, 0), (2, 3)] {
        cases += 1;
        if let Some(what) = dry_run_is_inert_v(dir, fi, variant) { println!("WITNESS {{\"kind\":\"oneway-dry\",\"dir\":{di},\"flags\":{fi},\"variant\":{variant},\"what\":\"{}\"}}", what.replace('"', "'").replace('\n', " ")); }
    } }
    if as_twin { println!("CASES {cases}"); }
    0
}
pub fn run_dry(w: &str) -> i32 {
    let dir = DIRS[(json_u64(w, "dir").unwrap_or(0) as usize).min(2)]; let fi = json_u64(w, "flags").unwrap_or(0) as usize;
    match dry_run_is_inert_v(dir, fi, json_u64(w, "variant").unwrap_or(0) as usize) { Some(what) => { println!("REPRODUCED: {what}"); 1 } None => { println!("not reproduced: direction {dir}, flag set {fi}: the dry run changes nothing and prints exactly the plan"); 0 } }
}
/// one direction, one flag set; None = the destination is exactly what the plan says
pub fn delivers_plan(dir: &str, fi: usize) -> Option<String> { delivers_plan_v(dir, fi, 0) }
pub fn delivers_plan_v(dir: &str, fi: usize, variant: usize) -> Option<String> {
    let env = Env::new(&format!("plan{dir}{fi}v{variant}"))?;
    let pc = plan_case_v(&env, fi, variant)?;
    let (sr, dr, flags, s0, d0, want) = (pc.sr.clone(), pc.dr.clone(), pc.flags.clone(), pc.s0.clone(), pc.d0.clone(), pc.want.clone());
    let stamp = |r: &Path| stamp_of(r);
    // run it, from a working directory that holds an innocent bystander
    let cwd = env.dir.join("cwd"); std::fs::create_dir_all(&cwd).ok()?; std::fs::write(cwd.join("line"), b"bystander").ok()?; std::fs::write(cwd.join("stale.txt"), b"bystander").ok()?;
    let b = std::env::var("COPIA_BIN").unwrap_or_default();
    let mut args: Vec<String> = vec!["sync".into(), "-r".into()];
    if !flags.contains(&"-j") { args.push("-j".into()); args.push("2".into()); }
    args.extend(flags.iter().map(|x| x.to_string()));
    let (ss, ds) = (sr.to_string_lossy().into_owned(), dr.to_string_lossy().into_owned());
    match dir { "pull" => { args.push(format!("fakehost:{ss}")); args.push(ds); } "push" => { args.push(ss); args.push(format!("fakehost:{ds}")); } _ => { args.push(ss); args.push(ds); } }
    let out = Command::new(b).args(&args).current_dir(&cwd).env("PATH", env.path_env()).env("RUST_BACKTRACE", "0").output().ok()?;
    let tag = format!("[{dir}, flags {flags:?}{}]", ["", ", EMPTY source", ", a source file where the destination has a directory"][variant.min(2)]);
    let shown = |p: &str| p.replace('\\', "/BACKSLASH/").replace('\n', "<LF>").replace('\t', "<TAB>").replace('\0', "<NUL>");
    let (s1, d1) = (stamp(&sr), stamp(&dr));
    if s1 != s0 { return Some(format!("{tag} the source tree was modified (C04)")); }
    // C15 "excludes protect": whatever the run did and however it ended, a destination path the patterns exclude is as it was
    let excludes: Vec<String> = flags.iter().enumerate().filter(|(i, _)| *i > 0 && flags[i - 1] == "--exclude").map(|(_, x)| x.to_string()).collect();
    if let Some(p) = d0.keys().find(|p| crate::plan::is_excluded(Path::new(p.as_str()), &excludes) && d1.get(*p) != d0.get(*p)) {
        return Some(format!("{tag} `{}` is excluded by the patterns and was {} by the run (exit {:?}) - excludes protect (C15)", shown(p), if d1.contains_key(p) { "changed" } else { "removed" }, out.status.code()));
    }
    if !flags.contains(&"--delete") { if let Some(p) = d0.keys().find(|p| !d1.contains_key(*p) && !s0.contains_key(*p)) {
        return Some(format!("{tag} `{}` exists only at the destination and was removed by a run without --delete (C15)", shown(p)));
    } }
    if out.status.code() != Some(0) {
        // the property allows a run to fail - then an error must have been reported, and still nothing outside the plan
        // (other than staging names) may have been touched: every destination path is as before or as planned
        if out.stderr.is_empty() { return Some(format!("{tag} the run exits {:?} without reporting an error (C04)", out.status.code())); }
        for p in d0.keys().chain(d1.keys()) {
            if p.ends_with(".copia-tmp") { continue; }
            let (b, a) = (d0.get(p), d1.get(p));
            if a == b || a == want.get(p) || (a.is_none() && !want.contains_key(p)) { continue; }
            if let (Some(a), Some(w)) = (a, want.get(p)) { if a.0 == w.0 { continue; } }       // bytes delivered, mtime step cut short by the failure
            return Some(format!("{tag} the run failed (exit {:?}) AND `{}` at the destination is neither as before nor as planned: something outside the plan was touched (C04)", out.status.code(), shown(p)));
        }
        let by: Vec<String> = ["line", "stale.txt"].iter().filter(|f| std::fs::read(cwd.join(f)).ok().as_deref() != Some(b"bystander")).map(|f| f.to_string()).collect();
        if !by.is_empty() { return Some(format!("{tag} the run failed AND files outside the destination tree were touched: {by:?} (C04)")); }
        return None;
    }
    if let Some(p) = d1.keys().find(|p| p.ends_with(".copia-tmp")) { return Some(format!("{tag} a staging file remains after a successful run: `{}` (C04)", shown(p))); }
    for p in want.keys().chain(d1.keys()) {
        match (want.get(p), d1.get(p)) {
            (Some(w), Some(g)) if w == g => {}
            (Some(w), Some(g)) if w.0 == g.0 => return Some(format!("{tag} `{}` has the planned bytes but mtime {} instead of {} (C04/C14)", shown(p), g.1, w.1)),
            (Some(_), Some(_)) => return Some(format!("{tag} `{}` at the destination does not hold what the plan says (a file the quick check matched must be left as it was; a planned file must be byte-identical) (C04)", shown(p))),
            (Some(_), None) => return Some(format!("{tag} `{}` should be at the destination after the run and is not (C04)", shown(p))),
            (None, Some(_)) => return Some(format!("{tag} `{}` should have been removed by --delete (or never created) and is there (C04)", shown(p))),
            (None, None) => {}
        }
    }
    let by: Vec<String> = ["line", "stale.txt"].iter().filter(|f| std::fs::read(cwd.join(f)).ok().as_deref() != Some(b"bystander")).map(|f| f.to_string()).collect();
    if !by.is_empty() { return Some(format!("{tag} files OUTSIDE the destination tree were touched: {by:?} in the working directory of the (remote) command are gone or changed (C04)")); }
    None
}
pub fn plan_search(as_twin: bool) -> i32 {
    if std::env::var("COPIA_BIN").unwrap_or_default().is_empty() { eprintln!("COPIA_BIN not set"); if as_twin { println!("CASES 0"); } return 0; }
    let mut cases = 0;
    for (di, dir) in DIRS.iter().enumerate() { for fi in 0..flag_sets().len() {
        cases += 1;
        if let Some(what) = delivers_plan(dir, fi) { println!("WITNESS {{\"kind\":\"oneway-plan\",\"dir\":{di},\"flags\":{fi},\"what\":\"{}\"}}", what.replace('"', "'").replace('\n', " ")); }
    } }
    // an empty source (flag sets: none, --delete, --delete --exclude '*.log') and a file-vs-directory clash (none, --exclude 'sub dir',
    // --delete, --delete --exclude '*.log': the directory in the way holds an excluded file)
    for (di, dir) in DIRS.iter().enumerate() { for (variant, fi) in [(1usize, 0usize), (1, 1), (1, 2), (2, 0), (2, 3), (2, 1), (2, 2)] {
        cases += 1;
        if let Some(what) = delivers_plan_v(dir, fi, variant) { println!("WITNESS {{\"kind\":\"oneway-plan\",\"dir\":{di},\"flags\":{fi},\"variant\":{variant},\"what\":\"{}\"}}", what.replace('"', "'").replace('\n', " ")); }
    } }
    if as_twin { println!("CASES {cases}"); }
    0
}
pub fn run_plan(w: &str) -> i32 {
    let dir = DIRS[(json_u64(w, "dir").unwrap_or(0) as usize).min(2)]; let fi = json_u64(w, "flags").unwrap_or(0) as usize;
    match delivers_plan_v(dir, fi, json_u64(w, "variant").unwrap_or(0) as usize) { Some(what) => { println!("REPRODUCED: {what}"); 1 } None => { println!("not reproduced: direction {dir}, flag set {fi}: the destination is exactly the plan"); 0 } }
}

/// C14: right after a successful run, the same command again transfers nothing and changes nothing (bytes and whole-second
/// mtimes), in this direction. Source mtimes include a sub-second part, the epoch itself and a far-future value.
/// root directory names a shell would trip over (quotes of both kinds, a backslash, a space, a dollar sign)
pub const ROOTS: [(&str, &str); 5] = [("src", "dst"), ("src:a", "dst:with:colons"), ("the source's", "bob's backup"), ("src \"quoted\" $HOME", "back\\slash dst"), ("src", "it's 'twice' quoted")];
pub fn second_run_is_noop(dir: &str) -> Option<String> { for ri in 0..ROOTS.len() { if let Some(w) = second_run_is_noop_r(dir, ri) { return Some(w); } } second_run_is_noop_links(dir) }
pub fn second_run_is_noop_r(dir: &str, ri: usize) -> Option<String> {
    let env = Env::new(&format!("noop{dir}{ri}"))?;
    let (sname, dname) = ROOTS[ri.min(ROOTS.len() - 1)];
    *env.src_name.borrow_mut() = sname.to_string();
    let dir_l = if ri == 0 { dir.to_string() } else { format!("{dir}, roots named {sname:?} -> {dname:?}") };
    let r = second_run_is_noop_in(&env, dir, dname);
    r.map(|w| w.replacen(&format!("[{dir}]"), &format!("[{dir_l}]"), 1))
}
/// roots that are SYMLINKS to the real directories, named without a trailing slash
pub fn second_run_is_noop_links(dir: &str) -> Option<String> {
    let env = Env::new(&format!("nooplink{dir}"))?;
    *env.src_name.borrow_mut() = "src-link".to_string();
    let r = second_run_is_noop_in2(&env, dir, "dst-link", true);
    r.map(|w| w.replacen(&format!("[{dir}]"), &format!("[{dir}, both roots are symlinks to directories]"), 1))
}
fn second_run_is_noop_in(env: &Env, dir: &str, dname: &str) -> Option<String> { second_run_is_noop_in2(env, dir, dname, false) }
fn second_run_is_noop_in2(env: &Env, dir: &str, dname: &str, links: bool) -> Option<String> {
    env.populate(dname)?;
    if links {
        for n in [env.src_name.borrow().clone(), dname.to_string()] {
            let (l, real) = (env.dir.join(&n), env.dir.join(format!("{n}.real")));
            std::fs::rename(&l, &real).ok()?; std::os::unix::fs::symlink(&real, &l).ok()?;
        }
    }
    let src = env.src();
    let set = |p: &str, secs: u64, nanos: u32| { if let Ok(f) = std::fs::File::options().write(true).open(src.join(p)) { let _ = f.set_modified(std::time::UNIX_EPOCH + std::time::Duration::new(secs, nanos)); } };
    // names ending in white space (a listing parser that trims its records loses them)
    for n in ["draft ", "tab\t", "sub/trailing newline\n"] { let _ = std::fs::write(src.join(n), b"x"); }
    set("a.txt", 1_600_000_000, 750_000_000); set("empty", 0, 0); set("sub/big.bin", 4_000_000_000, 1); set("sub/small.bin", 1_700_000_000, 999_999_999); set("draft ", 500, 500_000_000);
    let stamp = |r: &Path| -> BTreeMap<String, (Vec<u8>, u64)> { tree(r).into_iter().map(|(p, b)| { let m = std::fs::metadata(r.join(&p)).and_then(|m| m.modified()).ok().and_then(|t| t.duration_since(std::time::UNIX_EPOCH).ok()).map(|d| d.as_secs()).unwrap_or(0); (p, (b, m)) }).collect() };
    let (rc, out) = env.run(dir, dname);
    if rc != Some(0) { let _ = out; return None; }      // the property speaks about what follows a SUCCESSFUL run
    let (d1, s1) = (stamp(&env.dir.join(dname)), stamp(&src));
    let inodes = |r: &Path| -> BTreeMap<String, u64> { use std::os::unix::fs::MetadataExt; tree(r).keys().filter_map(|p| std::fs::metadata(r.join(p)).ok().map(|m| (p.clone(), m.ino()))).collect() };
    let i1 = inodes(&env.dir.join(dname));
    for (p, (b, m)) in &s1 { match d1.get(p) { Some((b2, m2)) if b2 == b && m2 == m => {}, o => return Some(format!("[{dir}] after a successful run `{p}` at the destination has mtime {:?}, the source has {m} (whole seconds): the next quick check cannot match it (C14)", o.map(|x| x.1))) } }
    let (rc2, out2) = env.run(dir, dname);
    if rc2 != Some(0) { return Some(format!("[{dir}] the second run failed (exit {rc2:?}) (C14)")); }
    if stamp(&env.dir.join(dname)) != d1 || stamp(&src) != s1 { return Some(format!("[{dir}] the second run changed a file or an mtime (C14)")); }
    // a transfer publishes by rename: a re-sent file has a new inode, whatever the run prints
    let i2 = inodes(&env.dir.join(dname));
    if let Some(p) = i1.keys().find(|p| i2.get(*p) != i1.get(*p)) { return Some(format!("[{dir}] running the same command again right after a successful run transferred `{}` again (the destination file was replaced): {} (C14)", p.replace('\n', "<LF>").replace('\t', "<TAB>"), out2.lines().find(|l| l.starts_with("Plan")).unwrap_or(""))); }
    None
}
pub fn noop_search(as_twin: bool) -> i32 {
    if std::env::var("COPIA_BIN").unwrap_or_default().is_empty() { eprintln!("COPIA_BIN not set"); if as_twin { println!("CASES 0"); } return 0; }
    for (di, dir) in DIRS.iter().enumerate() { if let Some(what) = second_run_is_noop(dir) { println!("WITNESS {{\"kind\":\"oneway-noop\",\"dir\":{di},\"what\":\"{}\"}}", what.replace('"', "'")); } }
    if as_twin { println!("CASES 3"); }
    0
}
pub fn run_noop(w: &str) -> i32 {
    let dir = DIRS[(json_u64(w, "dir").unwrap_or(0) as usize).min(2)];
    match second_run_is_noop(dir) { Some(what) => { println!("REPRODUCED: {what}"); 1 } None => { println!("not reproduced: the second run in direction {dir} transfers nothing and changes nothing"); 0 } }
}
/// number of file-system / pipe write calls of an uninterrupted run in this direction
pub fn count_calls(dir: &str) -> usize { count_calls_v(dir, 0) }
pub fn count_calls_v(dir: &str, variant: usize) -> usize {
    let Some(env) = Env::new(&format!("{dir}count{variant}")) else { return 0 };
    if variant >= 1 { env.flags.borrow_mut().push("--delete".into()); }
    if (if variant == 2 { env.populate_big_delete("dst") } else { env.populate("dst") }).is_none() { return 0; }
    env.run_killed(dir, "dst", 0).map(|o| if o.exit == Some(0) { o.calls } else { 0 }).unwrap_or(0)
}
pub fn search(as_twin: bool, thorough: bool) -> i32 {
    if std::env::var("COPIA_BIN").unwrap_or_default().is_empty() { eprintln!("COPIA_BIN not set"); if as_twin { println!("CASES 0"); } return 0; }
    let mut cases = 1;
    if let Some(what) = remote_fault() { println!("WITNESS {{\"kind\":\"oneway\",\"dir\":9,\"k\":0,\"what\":\"{}\"}}", what.replace('"', "'")); }
    for (di, dir) in DIRS.iter().enumerate() {
        let n = count_calls(dir);
        if n == 0 { println!("WITNESS {{\"kind\":\"oneway\",\"dir\":{di},\"k\":0,\"what\":\"[{dir}] an uninterrupted run under the supervisor did not complete (C09)\"}}"); continue; }
        let mut reported = 0;
        // quick: every kill point up to 40, then every 3rd; thorough: every kill point
        let mut k = 1;
        while k <= n {
            let (w, killed) = kill_point(dir, k);
            if killed { cases += 1; }
            if let Some(what) = w {
                if reported < 2 { println!("WITNESS {{\"kind\":\"oneway\",\"dir\":{di},\"k\":{k},\"what\":\"{}\"}}", what.replace('"', "'").replace('\n', " ")); }
                reported += 1;
            }
            k += if thorough || k < 40 { 1 } else { 3 };
        }
        eprintln!("oneway {dir}: {n} kill points, {reported} violating");
        if *dir == "push" {
            // a delete list longer than a pipe buffer: killed between its write calls, the remote must not act on a truncated entry
            let n = count_calls_v(dir, 2);
            let mut reported = 0;
            for k in 1..=n {
                let (w, killed) = kill_point_v(dir, k, 2);
                if killed { cases += 1; }
                if let Some(what) = w { if reported < 2 { println!("WITNESS {{\"kind\":\"oneway\",\"dir\":{di},\"k\":{k},\"variant\":2,\"what\":\"{}\"}}", what.replace('"', "'").replace('\n', " ")); } reported += 1; }
            }
            eprintln!("oneway push --delete (1500 stale files): {n} kill points, {reported} violating");
        }
        if thorough {
            // thorough: the same with --delete
            let n = count_calls_v(dir, 1);
            let mut reported = 0;
            for k in 1..=n {
                let (w, killed) = kill_point_v(dir, k, 1);
                if killed { cases += 1; }
                if let Some(what) = w { if reported < 2 { println!("WITNESS {{\"kind\":\"oneway\",\"dir\":{di},\"k\":{k},\"variant\":1,\"what\":\"{}\"}}", what.replace('"', "'").replace('\n', " ")); } reported += 1; }
            }
            eprintln!("oneway {dir} --delete: {n} kill points, {reported} violating");
        }
    }
    if as_twin { println!("CASES {cases}"); }
    0
}
pub fn run_w(w: &str) -> i32 {
    let di = json_u64(w, "dir").unwrap_or(0) as usize; let k = json_u64(w, "k").unwrap_or(1) as usize;
    if di == 9 { return match remote_fault() { Some(what) => { println!("REPRODUCED: {what}"); 1 } None => { println!("not reproduced: a failing remote end publishes nothing incomplete"); 0 } }; }
    let dir = DIRS[di.min(2)];
    match kill_point_v(dir, k, json_u64(w, "variant").unwrap_or(0) as usize) { (Some(what), _) => { println!("REPRODUCED: {what}"); 1 } (None, killed) => { println!("not reproduced: direction {dir}, kill point {k} (killed: {killed}) leaves only complete files and the re-run converges"); 0 } }
}
