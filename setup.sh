#!/bin/bash
# Offline setup: warm the native replay crate and the Kani harness crate build caches (both are rebuilt
# incrementally against /repo's working tree by every check; nothing here is required for correctness).
cd "$(dirname "$(readlink -f "$0")")"
export CARGO_NET_OFFLINE=true
mkdir -p .cache .work replays evidence
ln -sfn /repo replay/repo
[ -f replay/Cargo.lock ] || cp /repo/Cargo.lock replay/Cargo.lock
(cd replay && CARGO_TARGET_DIR=../.cache/replay-target cargo build --release --offline -q) || echo "setup: replay crate build failed (checks will retry)"
verus --version >/dev/null 2>&1 || { echo "verus missing"; exit 1; }
exit 0
