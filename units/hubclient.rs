// unit: hubclient — C13 (what HubClient::put puts on the wire)
#![allow(unused_imports, unused_variables, dead_code, non_snake_case, unused_mut, unused_assignments)]
use vstd::prelude::*;
use vstd::std_specs::btree::*;
use std::collections::BTreeMap;
use std::ffi::{OsStr, OsString};
use std::io::{Read, Seek, SeekFrom, Write, BufReader, BufWriter};
use std::path::{Path, PathBuf};
use std::process::{Child, ChildStdin, ChildStdout, Command, Stdio};
verus! {
global size_of usize == 8;
//@include lib/ext_ioerror.rs
//@include lib/io_model.rs
//@include lib/path_algebra.rs
//@include lib/hubclient_fns.rs
}
fn main() {}
