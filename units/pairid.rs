// unit: pairid — C07 (the archive identifier of a directory pair)
#![allow(unused_imports, unused_variables, dead_code, non_snake_case, unused_mut, unused_assignments)]
use vstd::prelude::*;
use std::io::{Read, Seek, SeekFrom, Write};
use std::path::{Path, PathBuf};
verus! {
global size_of usize == 8;
//@include lib/ext_ioerror.rs
//@include lib/io_model.rs
//@include lib/pairid_fns.rs
}
fn main() {}
