// unit: planrun — C04 (delete application and remote command lists of a recursive one-way sync)
#![allow(unused_imports, unused_variables, dead_code, non_snake_case, unused_mut, unused_assignments)]
use vstd::prelude::*;
use vstd::std_specs::btree::*;
use std::collections::BTreeMap;
use std::path::{Path, PathBuf};
use std::ffi::{OsStr, OsString};
verus! {
global size_of usize == 8;
//@include lib/ext_ioerror.rs
//@include lib/oneway_world.rs
//@include lib/verr.rs
//@include lib/xargs_fns.rs
}
fn main() {}
