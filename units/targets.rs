// unit: targets - `host:path` / `host:root` argument parsing (C04 one-way targets in main.rs, C13 hub targets in hub.rs)
#![allow(unused_imports, unused_variables, dead_code, non_snake_case, unused_mut, unused_assignments)]
use vstd::prelude::*;
use std::path::{Path, PathBuf};
verus! {
global size_of usize == 8;
//@include lib/targets_fns.rs
}
fn main() {}
