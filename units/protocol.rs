// unit: protocol — C20 (frame header / message type / framed codec)
#![allow(unused_imports, unused_variables, dead_code, non_snake_case, unused_mut, unused_assignments)]
use vstd::prelude::*;
use std::io::{Read, Seek, SeekFrom, Write};
verus! {
global size_of usize == 8;
//@include lib/ext_ioerror.rs
//@include lib/io_model.rs
//@include lib/hash_fns.rs
//@include lib/delta_fns.rs
//@include lib/sig_items.rs
//@include lib/proto_fns.rs
}
fn main() {}
