// unit: delta — C01 (round trip, both engines), C16 (no more literals than textbook greedy); includes the patch and
// checksum units so that every contract consumed here is discharged in the same run
#![allow(unused_imports, unused_variables, dead_code, non_snake_case, unused_mut, unused_assignments)]
use vstd::prelude::*;
use vstd::arithmetic::div_mod::*;
use std::io::{Read, Seek, SeekFrom, Write};
verus! {
global size_of usize == 8;
//@include lib/checksum_spec.rs
//@include lib/checksum_fns.rs
//@include lib/ext_ioerror.rs
//@include lib/io_model.rs
//@include lib/hash_fns.rs
//@include lib/delta_fns.rs
//@include lib/patch_fns.rs
//@include lib/sig_fns.rs
//@include lib/greedy_spec.rs
//@include lib/engine_fns.rs
//@include lib/async_sig_fns.rs
}
fn main() {}
