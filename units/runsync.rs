// unit: runsync - the recursive one-way sync driver run_local / run_remote (src/bin/copia/incremental.rs) over the one-way
// world: --dry-run is inert (C15), nothing is removed without --delete (C15), every effect of a run belongs to its plan
// (C04, C09 frame). The planner and the per-file delivery are included so that every contract consumed here is discharged
// in the same run; the tokio orchestration region (Semaphore + spawn + join) is summarised, see lib/runsync_fns.rs.
#![allow(unused_imports, unused_variables, dead_code, non_snake_case, unused_mut, unused_assignments)]
use vstd::prelude::*;
use vstd::std_specs::btree::*;
use std::collections::BTreeMap;
use std::path::{Path, PathBuf};
use std::ffi::{OsStr, OsString};
use std::time::Instant;
verus! {
global size_of usize == 8;
//@include lib/ext_ioerror.rs
//@include lib/oneway_world.rs
//@include lib/sort_model.rs
//@include lib/glob_spec.rs
//@include lib/glob_fns.rs
//@include lib/excl_fns.rs
//@include lib/plan_fns.rs
//@include lib/verr.rs
//@include lib/oneway_fns.rs
//@include lib/xargs_fns.rs
//@include lib/runsync_fns.rs
}
fn main() {}
