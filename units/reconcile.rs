// unit: reconcile — whole-tree 3-way reconcile (C18)
#![feature(allocator_api)]
#![allow(unused_imports, unused_variables, dead_code, non_snake_case, unused_mut, unused_assignments)]
use vstd::prelude::*;
use vstd::std_specs::btree::*;
use std::collections::BTreeMap;
use std::path::{Path, PathBuf};
verus! {
global size_of usize == 8;
//@include lib/path_model.rs
//@include lib/reconcile_fns.rs
}
fn main() {}
