// unit: serve — hub server (C03, C10, C11, C12)
#![allow(unused_imports, unused_variables, dead_code, non_snake_case, unused_mut, unused_assignments)]
use vstd::prelude::*;
use vstd::std_specs::btree::*;
use std::collections::BTreeMap;
use std::io::{Read, Seek, SeekFrom, Write};
use std::path::{Path, PathBuf};
use std::ffi::{OsStr, OsString};
verus! {
global size_of usize == 8;
//@include lib/ext_ioerror.rs
//@include lib/io_model.rs
//@include lib/serve_world.rs
//@include lib/serve_fns.rs
}
fn main() {}
