// unit: checksum — C17 (and the checksum contracts consumed by C16/C01)
#![allow(unused_imports, unused_variables, dead_code, non_snake_case, unused_mut, unused_assignments)]
use vstd::prelude::*;
use vstd::arithmetic::div_mod::*;
verus! {
global size_of usize == 8;
//@include lib/checksum_spec.rs
//@include lib/checksum_fns.rs
}
fn main() {}
