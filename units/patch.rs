// unit: patch — C05 (both engines) ; also the patch half of C01
#![allow(unused_imports, unused_variables, dead_code, non_snake_case, unused_mut, unused_assignments)]
use vstd::prelude::*;
use std::io::{Read, Seek, SeekFrom, Write};
verus! {
global size_of usize == 8;
//@include lib/io_model.rs
//@include lib/hash_fns.rs
//@include lib/delta_fns.rs
//@include lib/patch_fns.rs
}
fn main() {}
