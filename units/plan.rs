// unit: plan — one-way planner and its matcher (C19, C15)
#![allow(unused_imports, unused_variables, dead_code, non_snake_case, unused_mut, unused_assignments)]
use vstd::prelude::*;
use vstd::std_specs::btree::*;
use std::collections::BTreeMap;
use std::path::{Path, PathBuf};
verus! {
global size_of usize == 8;
//@include lib/path_model.rs
//@include lib/sort_model.rs
//@include lib/glob_spec.rs
//@include lib/glob_fns.rs
//@include lib/excl_fns.rs
//@include lib/plan_fns.rs
}
fn main() {}
