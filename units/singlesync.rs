// unit: singlesync - the single-file `sync` command's engine, AsyncCopiaSync::sync_files (C01), over a ghost file system;
// includes the delta and patch units so that every contract consumed here is discharged in the same run
#![allow(unused_imports, unused_variables, dead_code, non_snake_case, unused_mut, unused_assignments)]
use vstd::prelude::*;
use vstd::arithmetic::div_mod::*;
use std::io::{Read, Seek, SeekFrom, Write};
use std::path::{Path, PathBuf};
use std::ffi::{OsStr, OsString};
use vstd::std_specs::btree::*;
use std::collections::BTreeMap;
verus! {
global size_of usize == 8;
//@include lib/checksum_spec.rs
//@include lib/checksum_fns.rs
//@include lib/ext_ioerror.rs
//@include lib/io_model.rs
//@include lib/hash_fns.rs
//@include lib/delta_fns.rs
//@include lib/patch_fns.rs
//@include lib/sig_fns.rs
//@include lib/greedy_spec.rs
//@include lib/engine_fns.rs
//@include lib/single_pre.rs
//@include lib/path_algebra.rs
//@include lib/verr.rs
//@include lib/single_world.rs
//@include lib/single_fns.rs
}
fn main() {}
