// unit: glob — wildcard matcher of C15/C19
#![allow(unused_imports, unused_variables, dead_code, non_snake_case, unused_mut, unused_assignments)]
use vstd::prelude::*;
verus! {
global size_of usize == 8;
//@include lib/glob_spec.rs
//@include lib/glob_fns.rs
}
fn main() {}
