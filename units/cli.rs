// unit: cli — `copia signature|delta|patch` wrappers (C20 hostile-file clause, C05 CLI clause)
#![allow(unused_imports, unused_variables, dead_code, non_snake_case, unused_mut, unused_assignments)]
use vstd::prelude::*;
use vstd::arithmetic::div_mod::*;
use std::io::{Read, Seek, SeekFrom, Write};
use std::path::{Path, PathBuf};
verus! {
global size_of usize == 8;
#[verifier::external_type_specification] #[verifier::external_body] pub struct ExPathBuf(PathBuf);
#[verifier::external_type_specification] #[verifier::external_body] pub struct ExPath(Path);
//@include lib/checksum_spec.rs
//@include lib/checksum_fns.rs
//@include lib/ext_ioerror.rs
//@include lib/io_model.rs
//@include lib/hash_fns.rs
//@include lib/delta_fns.rs
//@include lib/patch_fns.rs
//@include lib/sig_fns.rs
//@include lib/greedy_spec.rs
//@include lib/engine_fns.rs
//@include lib/async_sig_fns.rs
//@include lib/cli_fns.rs
//@include lib/cli_run_fns.rs
}
fn main() {}
