// ---- std::path algebra and BTreeMap<PathBuf,_> key model (ASSUMED, A) ----
#[verifier::external_type_specification] #[verifier::external_body] pub struct ExPathBuf(PathBuf);
#[verifier::external_type_specification] #[verifier::external_body] pub struct ExPath(Path);
#[verifier::external_type_specification] #[verifier::external_body] pub struct ExOsString(OsString);
#[verifier::external_type_specification] #[verifier::external_body] pub struct ExOsStr(OsStr);

// path algebra: a path is its byte string; join = concatenation with '/'
pub type PathV = Seq<u8>;
pub uninterp spec fn pv(p: &Path) -> PathV;
pub uninterp spec fn pbv(p: &PathBuf) -> PathV;
pub uninterp spec fn osv(p: &OsStr) -> PathV;
pub uninterp spec fn osbv(p: &OsString) -> PathV;
pub uninterp spec fn strv(s: Seq<char>) -> PathV;   // UTF-8 bytes of a string
pub uninterp spec fn asp<P>(p: P) -> PathV;         // AsRef<Path> / AsRef<OsStr> view
pub open spec fn SEP() -> PathV { seq![47u8] }
pub open spec fn joinv(a: PathV, b: PathV) -> PathV { a + SEP() + b }
pub open spec fn TMP() -> PathV { strv(".copia-tmp"@) }       // reserved staging suffix of data files
pub open spec fn ATMP() -> PathV { strv(".tmp"@) }            // staging suffix of the archive file
pub open spec fn BAK() -> PathV { strv(".bak"@) }

pub broadcast axiom fn asp_path(p: &Path) ensures #[trigger] asp::<&Path>(p) == pv(p);
pub broadcast axiom fn asp_pathbuf(p: &PathBuf) ensures #[trigger] asp::<&PathBuf>(p) == pbv(p);
pub broadcast axiom fn asp_pathbuf_val(p: PathBuf) ensures #[trigger] asp::<PathBuf>(p) == pbv(&p);
pub broadcast axiom fn asp_str(p: &str) ensures #[trigger] asp::<&str>(p) == strv(p@);
pub broadcast axiom fn asp_string(p: String) ensures #[trigger] asp::<String>(p) == strv(p@);
pub broadcast axiom fn ax_strv_len(s: Seq<char>) ensures #[trigger] strv(s).len() >= s.len();
pub broadcast axiom fn ax_strv_inj(a: Seq<char>, b: Seq<char>) ensures #[trigger] strv(a) == #[trigger] strv(b) ==> a == b;   // UTF-8 is injective

pub assume_specification<P: AsRef<Path>> [Path::join] (a: &Path, b: P) -> (r: PathBuf) ensures pbv(&r) == joinv(pv(a), asp(b));
pub assume_specification [<PathBuf as core::ops::Deref>::deref] (a: &PathBuf) -> (r: &Path) ensures pv(r) == pbv(a);
pub assume_specification [<PathBuf as Clone>::clone] (a: &PathBuf) -> (r: PathBuf) ensures r == *a;
pub assume_specification [Path::to_path_buf] (a: &Path) -> (r: PathBuf) ensures pbv(&r) == pv(a);
pub assume_specification [Path::as_os_str] (a: &Path) -> (r: &OsStr) ensures osv(r) == pv(a);
pub uninterp spec fn parent_rel(child: PathV, parent: PathV) -> bool;
pub assume_specification [Path::parent] (a: &Path) -> (r: Option<&Path>) ensures r is Some ==> parent_rel(pv(a), pv(r->Some_0));
pub assume_specification [OsStr::to_owned] (a: &OsStr) -> (r: OsString) ensures osbv(&r) == osv(a);
pub assume_specification<T: AsRef<OsStr>> [OsString::push] (a: &mut OsString, s: T) ensures osbv(final(a)) == osbv(old(a)) + asp(s);
pub assume_specification [<PathBuf as From<OsString>>::from] (a: OsString) -> (r: PathBuf) ensures pbv(&r) == osbv(&a);

pub broadcast proof fn lemma_join_suffix(a: PathV, x: PathV, t: PathV)
    ensures #[trigger] (joinv(a, x) + t) =~= joinv(a, x + t)
{ }
pub proof fn lemma_tmp_nonempty() ensures TMP().len() > 0, ATMP().len() > 0, BAK().len() > 0
{ broadcast use ax_strv_len; reveal_strlit(".copia-tmp"); reveal_strlit(".tmp"); reveal_strlit(".bak"); assert(".copia-tmp"@.len() == 10); assert(".tmp"@.len() == 4); assert(".bak"@.len() == 4); }
pub proof fn lemma_prefix_inj(x: PathV, t1: PathV, t2: PathV)
    ensures (x + t1 == x + t2) ==> t1 == t2
{
    if x + t1 == x + t2 {
        assert((x + t1).subrange(x.len() as int, (x + t1).len() as int) =~= t1);
        assert((x + t2).subrange(x.len() as int, (x + t2).len() as int) =~= t2);
    }
}
pub proof fn lemma_join_inj(a: PathV, x: PathV, y: PathV)
    ensures joinv(a, x) == joinv(a, y) ==> x == y
{
    if joinv(a, x) == joinv(a, y) {
        assert(joinv(a, x).subrange(a.len() as int + 1, joinv(a, x).len() as int) =~= x);
        assert(joinv(a, y).subrange(a.len() as int + 1, joinv(a, y).len() as int) =~= y);
    }
}
pub proof fn lemma_suffix_inj(x: PathV, y: PathV, t: PathV)
    ensures (x + t == y + t) ==> x == y
{
    if x + t == y + t {
        assert((x + t).len() == (y + t).len());
        assert((x + t).subrange(0, x.len() as int) =~= x);
        assert((y + t).subrange(0, y.len() as int) =~= y);
    }
}

// BTreeMap<PathBuf,_> keyed by byte view (A): PathBuf's Ord/Eq agree with the byte view
pub broadcast axiom fn ax_pathbuf_keys()
    ensures #[trigger] borrowed_key_ordering_matches::<PathBuf, Path>(), key_obeys_cmp_spec::<PathBuf>(),
        borrowed_key_ordering_matches::<PathBuf, PathBuf>();
pub broadcast axiom fn ax_pbv_inj(a: PathBuf, b: PathBuf)
    ensures #[trigger] pbv(&a) == #[trigger] pbv(&b) ==> a == b;
pub open spec fn mget<V>(m: Map<PathBuf, V>, p: PathV) -> Option<V> {
    if exists|k: PathBuf| m.contains_key(k) && pbv(&k) == p {
        Some(m[choose|k: PathBuf| m.contains_key(k) && pbv(&k) == p])
    } else { None }
}
pub broadcast axiom fn ax_contains_borrowed<V>(m: Map<PathBuf, V>, q: &Path)
    ensures #[trigger] contains_borrowed_key::<PathBuf, V, Path>(m, q) == (mget(m, pv(q)) is Some);
pub broadcast axiom fn ax_maps_borrowed<V>(m: Map<PathBuf, V>, q: &Path, v: V)
    ensures #[trigger] maps_borrowed_key_to_value::<PathBuf, V, Path>(m, q, v) == (mget(m, pv(q)) == Some(v));
pub broadcast axiom fn ax_removed_borrowed<V>(m: Map<PathBuf, V>, n: Map<PathBuf, V>, q: &Path)
    ensures #[trigger] borrowed_key_removed::<PathBuf, V, Path>(m, n, q)
        == (forall|p: PathV| #[trigger] mget(n, p) == (if p == pv(q) { None } else { mget(m, p) }));
pub broadcast axiom fn ax_contains_borrowed_pb<V>(m: Map<PathBuf, V>, q: &PathBuf)
    ensures #[trigger] contains_borrowed_key::<PathBuf, V, PathBuf>(m, q) == (mget(m, pbv(q)) is Some);
pub broadcast axiom fn ax_maps_borrowed_pb<V>(m: Map<PathBuf, V>, q: &PathBuf, v: V)
    ensures #[trigger] maps_borrowed_key_to_value::<PathBuf, V, PathBuf>(m, q, v) == (mget(m, pbv(q)) == Some(v));

pub proof fn lemma_mget_insert<V>(m: Map<PathBuf, V>, k: PathBuf, v: V, p: PathV)
    ensures mget(m.insert(k, v), p) == (if p == pbv(&k) { Some(v) } else { mget(m, p) })
{
    broadcast use ax_pbv_inj;
    let n = m.insert(k, v);
    if p == pbv(&k) {
        assert(n.contains_key(k) && pbv(&k) == p);
        let c = choose|c: PathBuf| n.contains_key(c) && pbv(&c) == p;
        assert(c == k);
    } else {
        if exists|c: PathBuf| m.contains_key(c) && pbv(&c) == p {
            let c0 = choose|c: PathBuf| m.contains_key(c) && pbv(&c) == p;
            assert(n.contains_key(c0) && pbv(&c0) == p);
            let c1 = choose|c: PathBuf| n.contains_key(c) && pbv(&c) == p;
            assert(c1 == c0);
        } else {
            assert forall|c: PathBuf| !(n.contains_key(c) && pbv(&c) == p) by { }
        }
    }
}
pub proof fn lemma_mget_key<V>(m: Map<PathBuf, V>, k: PathBuf)
    requires m.contains_key(k)
    ensures mget(m, pbv(&k)) == Some(m[k])
{
    broadcast use ax_pbv_inj;
    let c = choose|c: PathBuf| m.contains_key(c) && pbv(&c) == pbv(&k);
    assert(c == k);
}
pub proof fn lemma_mget_empty<V>(p: PathV)
    ensures mget(Map::<PathBuf, V>::empty(), p) is None
{ }
