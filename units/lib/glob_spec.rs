// ---- wildcard semantics of C15/C19 and the lemmas the matcher's loop invariant needs ----
// wildcard semantics: '*' any run, '?' exactly one, everything else literal
pub open spec fn gm(p: Seq<char>, t: Seq<char>) -> bool
    decreases p.len(), t.len()
{
    if p.len() == 0 { t.len() == 0 }
    else if p[0] == '*' { gm(p.skip(1), t) || (t.len() > 0 && gm(p, t.skip(1))) }
    else { t.len() > 0 && (p[0] == '?' || p[0] == t[0]) && gm(p.skip(1), t.skip(1)) }
}

pub open spec fn starfree(p: Seq<char>, lo: int, hi: int) -> bool {
    forall|k: int| lo <= k < hi ==> p[k] != '*'
}
pub open spec fn pointwise(p: Seq<char>, t: Seq<char>, plo: int, tlo: int, n: int) -> bool {
    forall|k: int| 0 <= k < n ==> (#[trigger] p[plo + k] == '?' || p[plo + k] == t[tlo + k])
}
pub open spec fn allstars(p: Seq<char>, lo: int) -> bool {
    forall|k: int| lo <= k < p.len() ==> p[k] == '*'
}

// L1: a star-free, pointwise-matching prefix of length n can be peeled off both sides
pub proof fn lemma_peel(p: Seq<char>, t: Seq<char>, n: int)
    requires 0 <= n <= p.len(), n <= t.len(), starfree(p, 0, n), pointwise(p, t, 0, 0, n)
    ensures gm(p, t) == gm(p.skip(n), t.skip(n))
    decreases n
{
    if n == 0 {
        assert(p.skip(0) =~= p); assert(t.skip(0) =~= t);
    } else {
        assert(p[0] != '*');
        assert(p[0int + 0int] == '?' || p[0int + 0int] == t[0int + 0int]);
        let p1 = p.skip(1); let t1 = t.skip(1);
        assert forall|k: int| 0 <= k < n - 1 implies (#[trigger] p1[0 + k] == '?' || p1[0 + k] == t1[0 + k]) by {
            assert(p[0 + (k + 1)] == '?' || p[0 + (k + 1)] == t[0 + (k + 1)]);
        }
        lemma_peel(p1, t1, n - 1);
        assert(p1.skip(n - 1) =~= p.skip(n));
        assert(t1.skip(n - 1) =~= t.skip(n));
    }
}

// L2: star-free prefix of length n forces the text to have >= n chars and to match pointwise
pub proof fn lemma_prefix_forced(p: Seq<char>, t: Seq<char>, n: int)
    requires 0 <= n <= p.len(), starfree(p, 0, n), gm(p, t)
    ensures n <= t.len(), pointwise(p, t, 0, 0, n), gm(p.skip(n), t.skip(n))
    decreases n
{
    if n == 0 {
        assert(p.skip(0) =~= p); assert(t.skip(0) =~= t);
    } else {
        assert(p[0] != '*');
        let p1 = p.skip(1); let t1 = t.skip(1);
        lemma_prefix_forced(p1, t1, n - 1);
        assert(p1.skip(n - 1) =~= p.skip(n));
        assert(t1.skip(n - 1) =~= t.skip(n));
        assert forall|k: int| 0 <= k < n implies (#[trigger] p[0 + k] == '?' || p[0 + k] == t[0 + k]) by {
            if k > 0 { assert(p1[0 + (k - 1)] == '?' || p1[0 + (k - 1)] == t1[0 + (k - 1)]); }
        }
    }
}

// L3: a leading star: gm(['*'] + r, t) <==> exists j. gm(r, t.skip(j))
pub proof fn lemma_star_intro(p: Seq<char>, t: Seq<char>, j: int)
    requires p.len() > 0, p[0] == '*', 0 <= j <= t.len(), gm(p.skip(1), t.skip(j))
    ensures gm(p, t)
    decreases j
{
    if j == 0 { assert(t.skip(0) =~= t); }
    else {
        assert(t.skip(1).skip(j - 1) =~= t.skip(j));
        lemma_star_intro(p, t.skip(1), j - 1);
    }
}
pub proof fn lemma_star_elim(p: Seq<char>, t: Seq<char>) -> (j: int)
    requires p.len() > 0, p[0] == '*', gm(p, t)
    ensures 0 <= j <= t.len(), gm(p.skip(1), t.skip(j))
    decreases t.len()
{
    if gm(p.skip(1), t) { assert(t.skip(0) =~= t); 0 }
    else {
        let j1 = lemma_star_elim(p, t.skip(1));
        assert(t.skip(1).skip(j1) =~= t.skip(j1 + 1));
        j1 + 1
    }
}
// L4: pattern of only stars matches iff ... and non-star count bound
pub proof fn lemma_allstars(p: Seq<char>)
    requires allstars(p, 0)
    ensures gm(p, Seq::<char>::empty())
    decreases p.len()
{
    if p.len() > 0 {
        assert(p[0] == '*');
        assert forall|k: int| 0 <= k < p.skip(1).len() implies p.skip(1)[k] == '*' by { assert(p[k + 1] == '*'); }
        lemma_allstars(p.skip(1));
    }
}
pub proof fn lemma_empty_text(p: Seq<char>)
    requires gm(p, Seq::<char>::empty())
    ensures allstars(p, 0)
    decreases p.len()
{
    if p.len() > 0 {
        let e = Seq::<char>::empty();
        assert(p[0] == '*');
        assert(gm(p.skip(1), e));
        lemma_empty_text(p.skip(1));
        assert forall|k: int| 0 <= k < p.len() implies p[k] == '*' by { if k > 0 { assert(p.skip(1)[k - 1] == '*'); } }
    }
}


pub open spec fn ginv(p: Seq<char>, t: Seq<char>, pi: int, ti: int, star: Option<usize>, mark: int) -> bool {
    &&& 0 <= pi <= p.len() && 0 <= mark <= ti <= t.len()
    &&& star is None ==> (mark == 0 && pi == ti && starfree(p, 0, pi) && pointwise(p, t, 0, 0, pi)
            && gm(p, t) == gm(p.skip(pi), t.skip(ti)))
    &&& star is Some ==> ({
            let s = star->Some_0 as int;
            &&& 0 <= s < pi && p[s] == '*'
            &&& starfree(p, s + 1, pi)
            &&& ti - mark == pi - (s + 1)
            &&& pointwise(p, t, s + 1, mark, pi - (s + 1))
            &&& gm(p, t) == (exists|k: int| mark <= k <= t.len() && #[trigger] gm(p.skip(s + 1), t.skip(k)))
        })
}

// facts about the part of the pattern after the last star, used by several cases
pub proof fn lemma_tail(p: Seq<char>, t: Seq<char>, pi: int, ti: int, s: int, mark: int)
    requires ginv(p, t, pi, ti, Some(s as usize), mark), 0 <= s <= usize::MAX
    ensures
        gm(p.skip(s + 1), t.skip(mark)) == gm(p.skip(pi), t.skip(ti)),
        forall|k: int| mark <= k <= t.len() && #[trigger] gm(p.skip(s + 1), t.skip(k))
            ==> k + (pi - (s + 1)) <= t.len() && gm(p.skip(pi), t.skip(k + (pi - (s + 1)))),
{
    let q = p.skip(s + 1);
    let n = pi - (s + 1);
    let u = t.skip(mark);
    assert forall|k: int| 0 <= k < n implies (#[trigger] q[0 + k] == '?' || q[0 + k] == u[0 + k]) by {
        assert(p[(s + 1) + k] == '?' || p[(s + 1) + k] == t[mark + k]);
    }
    assert(starfree(q, 0, n)) by { assert forall|k: int| 0 <= k < n implies q[k] != '*' by { assert(p[s + 1 + k] != '*'); } }
    lemma_peel(q, u, n);
    assert(q.skip(n) =~= p.skip(pi));
    assert(u.skip(n) =~= t.skip(ti));
    assert forall|k: int| mark <= k <= t.len() && #[trigger] gm(p.skip(s + 1), t.skip(k))
        implies k + n <= t.len() && gm(p.skip(pi), t.skip(k + n)) by {
        lemma_prefix_forced(q, t.skip(k), n);
        assert(t.skip(k).skip(n) =~= t.skip(k + n));
    }
}

pub proof fn lemma_mismatch(p: Seq<char>, t: Seq<char>, pi: int, ti: int)
    requires 0 <= pi <= p.len(), 0 <= ti < t.len(),
        !(pi < p.len() && p[pi] == '*'),
        !(pi < p.len() && (p[pi] == '?' || p[pi] == t[ti])),
    ensures !gm(p.skip(pi), t.skip(ti))
{
    let a = p.skip(pi); let b = t.skip(ti);
    assert(b.len() > 0);
    if pi < p.len() { assert(a[0] == p[pi]); assert(b[0] == t[ti]); }
}

// one iteration of the main loop preserves ginv (case split mirrors the code's conditions, not its statements)
pub proof fn lemma_step(p: Seq<char>, t: Seq<char>, pi: int, ti: int, star: Option<usize>, mark: int)
    requires ginv(p, t, pi, ti, star, mark), ti < t.len(), p.len() <= usize::MAX,
    ensures
        (pi < p.len() && p[pi] == '*') ==> ginv(p, t, pi + 1, ti, Some(pi as usize), ti),
        (pi < p.len() && p[pi] != '*' && (p[pi] == '?' || p[pi] == t[ti])) ==> ginv(p, t, pi + 1, ti + 1, star, mark),
        (!(pi < p.len() && p[pi] == '*') && !(pi < p.len() && (p[pi] == '?' || p[pi] == t[ti])) && star is Some)
            ==> ginv(p, t, star->Some_0 + 1, mark + 1, star, mark + 1),
        (!(pi < p.len() && p[pi] == '*') && !(pi < p.len() && (p[pi] == '?' || p[pi] == t[ti])) && star is None)
            ==> !gm(p, t),
{
    if pi < p.len() && p[pi] == '*' {
        // new star at pi: gm(p,t) <==> exists k >= ti. gm(p.skip(pi+1), t.skip(k))
        let a = p.skip(pi);
        assert(a[0] == '*');
        assert(a.skip(1) =~= p.skip(pi + 1));
        let rhs = exists|k: int| ti <= k <= t.len() && #[trigger] gm(p.skip(pi + 1), t.skip(k));
        // (A) gm(p.skip(pi), t.skip(x)) <==> exists j..  for any x
        if star is None {
            if gm(p, t) {
                let j = lemma_star_elim(a, t.skip(ti));
                assert(t.skip(ti).skip(j) =~= t.skip(ti + j));
                assert(gm(p.skip(pi + 1), t.skip(ti + j)));
            }
            if rhs {
                let k = choose|k: int| ti <= k <= t.len() && #[trigger] gm(p.skip(pi + 1), t.skip(k));
                assert(t.skip(ti).skip(k - ti) =~= t.skip(k));
                lemma_star_intro(a, t.skip(ti), k - ti);
            }
        } else {
            let s = star->Some_0 as int;
            lemma_tail(p, t, pi, ti, s, mark);
            let n = pi - (s + 1);
            if gm(p, t) {
                let k = choose|k: int| mark <= k <= t.len() && #[trigger] gm(p.skip(s + 1), t.skip(k));
                let j = lemma_star_elim(a, t.skip(k + n));
                assert(t.skip(k + n).skip(j) =~= t.skip(k + n + j));
                assert(gm(p.skip(pi + 1), t.skip(k + n + j)));
            }
            if rhs {
                let k = choose|k: int| ti <= k <= t.len() && #[trigger] gm(p.skip(pi + 1), t.skip(k));
                assert(t.skip(ti).skip(k - ti) =~= t.skip(k));
                lemma_star_intro(a, t.skip(ti), k - ti);
                assert(gm(p.skip(s + 1), t.skip(mark)));
            }
        }
        assert(pointwise(p, t, pi + 1, ti, 0));
    } else if pi < p.len() && (p[pi] == '?' || p[pi] == t[ti]) {
        if star is None {
            assert(pointwise(p, t, 0, 0, pi + 1)) by {
                assert forall|k: int| 0 <= k < pi + 1 implies (#[trigger] p[0 + k] == '?' || p[0 + k] == t[0 + k]) by {
                    if k < pi { assert(p[0 + k] == '?' || p[0 + k] == t[0 + k]); }
                }
            }
            lemma_peel(p, t, pi + 1);
        } else {
            let s = star->Some_0 as int;
            let n = pi - (s + 1);
            assert(pointwise(p, t, s + 1, mark, n + 1)) by {
                assert forall|k: int| 0 <= k < n + 1 implies (#[trigger] p[(s + 1) + k] == '?' || p[(s + 1) + k] == t[mark + k]) by {
                    if k < n { assert(p[(s + 1) + k] == '?' || p[(s + 1) + k] == t[mark + k]); }
                }
            }
        }
    } else {
        lemma_mismatch(p, t, pi, ti);
        if star is Some {
            let s = star->Some_0 as int;
            lemma_tail(p, t, pi, ti, s, mark);
            assert(!gm(p.skip(s + 1), t.skip(mark)));
            assert(pointwise(p, t, s + 1, mark + 1, 0));
            assert(starfree(p, s + 1, s + 1));
            // the witness set loses k == mark only
            assert((exists|k: int| mark <= k <= t.len() && #[trigger] gm(p.skip(s + 1), t.skip(k)))
                == (exists|k: int| mark + 1 <= k <= t.len() && #[trigger] gm(p.skip(s + 1), t.skip(k))));
        }
    }
}

// after the text is exhausted and trailing stars are skipped
pub proof fn lemma_final(p: Seq<char>, t: Seq<char>, pi0: int, pi: int, star: Option<usize>, mark: int)
    requires ginv(p, t, pi0, t.len() as int, star, mark), pi0 <= pi <= p.len(),
        forall|k: int| pi0 <= k < pi ==> p[k] == '*',
        pi < p.len() ==> p[pi] != '*',
    ensures (pi == p.len()) == gm(p, t)
{
    let e = Seq::<char>::empty();
    let a = p.skip(pi0);
    assert(t.skip(t.len() as int) =~= e);
    if pi == p.len() {
        assert(allstars(a, 0)) by { assert forall|k: int| 0 <= k < a.len() implies a[k] == '*' by { assert(p[pi0 + k] == '*'); } }
        lemma_allstars(a);
    } else {
        if gm(a, e) { lemma_empty_text(a); assert(a[pi - pi0] == '*'); assert(false); }
    }
    // now gm(a, e) == (pi == p.len())
    if star is Some {
        let s = star->Some_0 as int;
        lemma_tail(p, t, pi0, t.len() as int, s, mark);
        let n = pi0 - (s + 1);
        if gm(p, t) {
            let k = choose|k: int| mark <= k <= t.len() && #[trigger] gm(p.skip(s + 1), t.skip(k));
            assert(k + n <= t.len());
            assert(k == mark);
        }
    }
}

