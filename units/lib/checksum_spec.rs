// ---- checksum vocabulary (DESIGN §2.3): exact sums over the window, as mathematical naturals ----
pub open spec fn sa(s: Seq<u8>) -> nat decreases s.len() {
    if s.len() == 0 { 0 } else { sa(s.drop_last()) + s.last() as nat }
}
pub open spec fn sb(s: Seq<u8>) -> nat decreases s.len() {
    if s.len() == 0 { 0 } else { sb(s.drop_last()) + sa(s) }
}
// weighted partial sum as accumulated by `new`: sum_{j<i} (l-j)*s[j]
pub open spec fn sbw(s: Seq<u8>, l: nat, i: nat) -> nat decreases i {
    if i == 0 || i > s.len() { 0 } else { sbw(s, l, (i - 1) as nat) + ((l - (i - 1)) as nat) * (s[i - 1] as nat) }
}
// the digest the property defines: ((b mod 65521) << 16) | (a mod 65521)
pub open spec fn dig(w: Seq<u8>) -> u32 { (((sb(w) % 65521) as u32) << 16) | ((sa(w) % 65521) as u32) }

pub proof fn lemma_push(w: Seq<u8>, x: u8)
    ensures sa(w.push(x)) == sa(w) + x as nat, sb(w.push(x)) == sb(w) + sa(w) + x as nat
{ assert(w.push(x).drop_last() =~= w); }

pub proof fn lemma_front(w: Seq<u8>)
    requires w.len() > 0
    ensures sa(w) == w[0] as nat + sa(w.skip(1)), sb(w) == w.len() * (w[0] as nat) + sb(w.skip(1))
    decreases w.len()
{
    let d = w.drop_last();
    let x = w[0] as nat;
    if d.len() == 0 {
        assert(w.skip(1).len() == 0);
        assert(sa(d) == 0 && sb(d) == 0);
        assert(sa(w) == x);
        assert(sb(w) == x);
        assert(w.len() * x == x) by(nonlinear_arith) requires w.len() == 1;
    } else {
        lemma_front(d);
        let t = w.skip(1); let dt = d.skip(1); let last = w.last();
        assert(t =~= dt.push(last));
        lemma_push(dt, last);
        assert(d[0] == w[0]);
        assert(sa(w) == sa(d) + last as nat);
        assert(sb(w) == sb(d) + sa(w));
        let dl = d.len(); let wl = w.len();
        assert(sb(d) == dl * x + sb(dt));
        assert(sa(d) == x + sa(dt));
        assert(sa(t) == sa(dt) + last as nat);
        assert(sb(t) == sb(dt) + sa(dt) + last as nat);
        assert(dl * x + x == wl * x) by(nonlinear_arith) requires dl + 1 == wl;
    }
}
pub proof fn lemma_sbw(s: Seq<u8>, l: nat, i: nat)
    requires i <= s.len(), i <= l
    ensures sbw(s, l, i) == sb(s.take(i as int)) + (l - i) * sa(s.take(i as int))
    decreases i
{
    if i == 0 {
        assert(s.take(0).len() == 0);
        assert(sa(s.take(0)) == 0);
        assert((l - 0) * 0 == 0) by(nonlinear_arith);
    } else {
        lemma_sbw(s, l, (i - 1) as nat);
        let t = s.take(i as int); let p = s.take(i - 1);
        assert(t.drop_last() =~= p);
        assert(t.last() == s[i - 1]);
        let x = s[i - 1] as nat;
        let A = sa(p); let B = sb(p); let d = (l - i) as nat;
        assert(sa(t) == A + x);
        assert(sb(t) == B + A + x);
        let e = (l - (i - 1)) as nat;
        assert(e == d + 1);
        assert(sbw(s, l, (i - 1) as nat) == B + (l - (i - 1)) * A);
        assert((l - (i - 1)) * A == e * A);
        assert(sbw(s, l, i) == sbw(s, l, (i - 1) as nat) + e * x);
        assert(B + e * A + e * x == B + A + x + d * (A + x)) by(nonlinear_arith) requires e == d + 1;
        assert((l - i) * sa(t) == d * (A + x));
    }
}
pub proof fn lemma_sbw_full(s: Seq<u8>)
    ensures sbw(s, s.len(), s.len()) == sb(s)
{
    lemma_sbw(s, s.len(), s.len());
    assert(s.take(s.len() as int) =~= s);
    assert((s.len() - s.len()) * sa(s) == 0) by(nonlinear_arith);
}
pub proof fn lemma_sbw_step(s: Seq<u8>, l: nat, k: nat)
    requires k < s.len(), k < l
    ensures sbw(s, l, k + 1) == sbw(s, l, k) + (l - k) * (s[k as int] as nat),
            sa(s.take(k as int + 1)) == sa(s.take(k as int)) + s[k as int] as nat
{
    assert(s.take(k as int + 1).drop_last() =~= s.take(k as int));
    assert(s.take(k as int + 1).last() == s[k as int]);
}

pub proof fn lemma_mod_shift(x: int, k: int, m: int)
    requires m > 0
    ensures ((x % m) + k) % m == (x + k) % m
{
    lemma_add_mod_noop(x, k, m);
    lemma_add_mod_noop(x % m, k, m);
    lemma_mod_twice(x, m);
}
// one accumulation step with the weight reduced first: ((B%m) + (wt%m)*x) % m == (B + wt*x) % m
pub proof fn lemma_step_mod(B: int, wt: int, x: int, m: int)
    requires m > 0
    ensures ((B % m) + (wt % m) * x) % m == (B + wt * x) % m
{
    lemma_mod_shift(B, (wt % m) * x, m);
    lemma_mul_mod_noop_left(wt, x, m);
    lemma_add_mod_noop(B, (wt % m) * x, m);
    lemma_add_mod_noop(B, wt * x, m);
}
pub proof fn lemma_roll_mod(A: int, B: int, o: int, n: int, c: int, cnt: int)
    requires 0 <= o <= 255, 0 <= n <= 255, A >= 0, B >= 0, c >= 0, cnt == c % 65521,
    ensures ({
        let m = 65521int;
        let a1 = ((A % m) + m - o + n) % m;
        let b1 = ((B % m) + m - (cnt * o) % m + a1) % m;
        &&& a1 == (A - o + n) % m
        &&& b1 == (B - c * o + (A - o + n)) % m
    })
{
    let m = 65521int;
    let a1 = ((A % m) + m - o + n) % m;
    lemma_mod_shift(A, m - o + n, m);
    assert(a1 == (A + (m - o + n)) % m);
    lemma_mod_add_multiples_vanish(A - o + n, m);
    assert(A + (m - o + n) == m + (A - o + n));
    assert(a1 == (A - o + n) % m);
    let S = A - o + n;
    let co = c * o;
    lemma_mul_mod_noop_left(c, o, m);
    let x = (cnt * o) % m;
    assert(x == co % m);
    let b1 = ((B % m) + m - x + a1) % m;
    lemma_mod_shift(B, m - x + a1, m);
    assert(b1 == (B + m - x + a1) % m);
    lemma_add_mod_noop(B + m - x, S, m);
    lemma_add_mod_noop(B + m - x, a1, m);
    lemma_mod_twice(S, m);
    assert(b1 == (B + m - x + S) % m);
    lemma_mod_add_multiples_vanish(B - x + S, m);
    assert(B + m - x + S == m + (B - x + S));
    assert(b1 == (B - x + S) % m);
    lemma_sub_mod_noop(B + S, co, m);
    lemma_sub_mod_noop(B + S, x, m);
    lemma_mod_twice(co, m);
    assert((B + S - x) % m == (B + S - co) % m);
}
pub proof fn lemma_sa_bound(s: Seq<u8>) ensures sa(s) <= 255 * s.len() decreases s.len()
{ if s.len() > 0 { lemma_sa_bound(s.drop_last()); } }

pub proof fn lemma_sbw_bound(s: Seq<u8>, l: nat, i: nat)
    requires i <= s.len(), i <= l
    ensures sbw(s, l, i) <= 255 * l * i
    decreases i
{
    if i > 0 {
        lemma_sbw_bound(s, l, (i - 1) as nat);
        let e = (l - (i - 1)) as nat; let x = s[i - 1] as nat;
        assert(e * x <= 255 * l) by(nonlinear_arith) requires e <= l, x <= 255;
        assert(255 * l * (i - 1) + 255 * l == 255 * l * i) by(nonlinear_arith);
    } else {
        assert(255 * l * 0 == 0) by(nonlinear_arith);
    }
}

pub proof fn lemma_roll(w: Seq<u8>, y: u8)
    requires w.len() > 0
    ensures ({ let v = w.skip(1).push(y);
        &&& v.len() == w.len()
        &&& sa(v) + w[0] as nat == sa(w) + y as nat
        &&& sb(v) + w.len() * (w[0] as nat) == sb(w) + sa(v) })
{
    lemma_front(w); lemma_push(w.skip(1), y);
}

// lazy-mod bounds of FastRollingChecksum (window length bound CMAX = 2^24)
pub open spec fn CMAX() -> int { 0x100_0000 }
pub open spec fn ASTEP() -> int { 65521int + 256 }
pub open spec fn BSTEP() -> int { 65521int * 0x100_0000 + 65521 + 5000 * (65521 + 256) }
