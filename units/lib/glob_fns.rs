//@extract file=src/bin/copia/plan.rs fn=glob_match
//@ret r
//@ensures
    r == gm(pat@, text@),
//@at before /while ti < t\.len\(\)/
    proof { assert(p@.skip(0) =~= p@); assert(t@.skip(0) =~= t@); }
//@loop 0 invariant
            p@ == pat@, t@ == text@,
            ginv(p@, t@, pi as int, ti as int, star, mark as int),
//@loop 0 decreases
            t.len() - mark, (p.len() - pi) + (t.len() - ti)
//@at loop 0 entry
        proof { lemma_step(p@, t@, pi as int, ti as int, star, mark as int); }
//@at after loop 0
    let ghost pi0 = pi as int;
//@loop 1 invariant
            pi0 <= pi <= p.len(), forall|k: int| pi0 <= k < pi ==> p@[k] == '*',
//@loop 1 decreases
            p.len() - pi
//@at end
    proof { lemma_final(p@, t@, pi0, pi as int, star, mark as int); }
//@end
