// std::io::Error as an opaque external type
#[verifier::external_type_specification] #[verifier::external_body] pub struct ExIoError(std::io::Error);
#[verifier::external_body] pub fn vfmt() -> String { String::new() }    // R3: diagnostics text is opaque
