// ---- patch: src/sync.rs (trait impl emitted as inherent method, R0') and src/async_sync.rs (async erased, R4) ----
//@item file=src/sync.rs kind=struct name=SyncConfig
//@item file=src/sync.rs kind=struct name=CopiaSync
//@item file=src/async_sync.rs kind=struct name=AsyncCopiaSync

impl CopiaSync {
    pub closed spec fn verify(&self) -> bool { self.config.verify_checksum }
    pub closed spec fn bs(&self) -> usize { self.config.block_size }
//@extract file=src/sync.rs impl="Sync for CopiaSync" fn=patch
//@sections patch_contract.sec
//@loop 0 invariant
                bytes_written as nat == total_len(delta.ops@.take(it.index() as int)),
//@end
}
impl AsyncCopiaSync {
    pub closed spec fn verify(&self) -> bool { self.config.verify_checksum }
    pub closed spec fn bs(&self) -> usize { self.config.block_size }
//@extract file=src/async_sync.rs impl="AsyncCopiaSync" fn=patch
//@sig /pub async fn/ => pub fn
//@sig /AsyncRead \+ AsyncSeek \+ Unpin/ => Read + Seek
//@sig /AsyncWrite \+ Unpin/ => Write
//@replace /\.await/ =>  #all
//@replace /std::io::SeekFrom/ => SeekFrom
//@sections patch_contract.sec
//@end
}
