// ---- ghost file system for single-file sync (C01): a path's content only. A model of tokio::fs, not of copia. ASSUMED (A).
// Nothing here speaks about atomicity or durability (those are C08/C09's worlds); only WHICH BYTES are at WHICH PATH.
pub struct SW { pub files: Map<PathV, Seq<u8>> }
// domain clause: the block index of a signature is a u32, so a basis has fewer than 2^32 blocks - every file is below
// 2 TiB (0xFFFF_FFFF blocks of the smallest legal block size, 512 bytes)
pub open spec fn idx_domain(w: SW) -> bool { forall|p: PathV| w.files.contains_key(p) ==> (#[trigger] w.files[p]).len() < 0xFFFF_FFFF * 512 }
pub uninterp spec fn aspr<P>(p: &P) -> PathV;         // AsRef<Path> view of a borrowed generic path argument
// R5 shim for `p.as_ref()` on a generic P: AsRef<Path> (its body is that very call)
#[verifier::external_body]
pub fn as_path<'a, P: AsRef<Path>>(p: &'a P) -> (r: &'a Path) ensures pv(r) == aspr(p) { p.as_ref() }
#[verifier::external_body]
pub fn vfs_try_exists(p: &Path, Tracked(w): Tracked<&SW>) -> (r: std::io::Result<bool>)
    ensures r is Ok ==> r->Ok_0 == w.files.contains_key(pv(p)), io_ok() ==> r is Ok { unimplemented!() }
#[verifier::external_body]
pub fn vfs_read(p: &Path, Tracked(w): Tracked<&SW>) -> (r: std::io::Result<Vec<u8>>)
    ensures r is Ok ==> w.files.contains_key(pv(p)) && r->Ok_0@ == w.files[pv(p)] { unimplemented!() }
// tokio::fs::write: create/truncate + write_all. On failure the named path may hold anything; no other path changes.
#[verifier::external_body]
pub fn vfs_write<P: AsRef<Path>>(p: P, data: &Vec<u8>, Tracked(w): Tracked<&mut SW>) -> (r: std::io::Result<()>)
    ensures r is Ok ==> final(w).files == old(w).files.insert(asp(p), data@),
        forall|q: PathV| q != asp(p) ==> (#[trigger] final(w).files.contains_key(q)) == old(w).files.contains_key(q) && (final(w).files.contains_key(q) ==> final(w).files[q] == old(w).files[q]),
{ unimplemented!() }
#[verifier::external_body]
pub fn vfs_rename<P: AsRef<Path>, Q: AsRef<Path>>(from: P, to: Q, Tracked(w): Tracked<&mut SW>) -> (r: std::io::Result<()>)
    ensures r is Ok ==> old(w).files.contains_key(asp(from)) && final(w).files == old(w).files.remove(asp(from)).insert(asp(to), old(w).files[asp(from)]),
        r is Err ==> final(w).files == old(w).files,
{ unimplemented!() }
pub assume_specification<T, E> [std::result::Result::<T, E>::unwrap_or] (r: std::result::Result<T, E>, d: T) -> (o: T)
    where E: std::marker::Destruct, T: std::marker::Destruct,
    ensures o == (match r { Ok(v) => v, Err(_) => d });
pub assume_specification<S: AsRef<OsStr>> [Path::with_extension] (a: &Path, e: S) -> (r: PathBuf);
// R5 shims: `Cursor::new(&v)` (a reader over exactly v, at position 0) and `a == b` on Vec<u8>
#[verifier::external_type_specification] #[verifier::external_body] #[verifier::reject_recursive_types(T)] pub struct ExCursor<T>(std::io::Cursor<T>);
#[verifier::external_body]
pub fn cursor_of<'a>(v: &'a Vec<u8>) -> (r: std::io::Cursor<&'a Vec<u8>>)
    ensures stream_of(&r) == v@, r_content(&r) == v@, r_pos(&r) == 0 { std::io::Cursor::new(v) }
#[verifier::external_body]
pub fn vec_eq(a: &Vec<u8>, b: &Vec<u8>) -> (r: bool) ensures r == (a@ == b@) { a == b }
