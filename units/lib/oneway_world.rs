// ---- ghost file-system world for one-way delivery (C09): a model of the OS and of the remote end, not of copia. ASSUMED (A).
// The crash in C09 is a process kill (not a power cut): bytes written are kept, an operation is either done or not.
// Discipline the primitives demand of their callers:
//   * NON-atomic writes (copy, create/truncate, streaming) only ever target a reserved staging name (*.copia-tmp);
//   * a staging file is renamed into place only if it is WHOLE: it holds every byte of the one source it was filled
//     from (a successful local copy, or a remote `cat` that reported success);
//   * every effect is logged in program order: the states a kill can expose are exactly the prefixes of the log.
//@include path_algebra.rs
pub struct FileS { pub bytes: Seq<u8>, pub whole: bool, pub mtime: int }      // mtime: whole epoch seconds, as meta::mtime_secs reads it (C14)
pub uninterp spec fn io_ok() -> bool;
pub open spec fn mkfile(bytes: Seq<u8>, whole: bool, mtime: int) -> FileS { FileS { bytes, whole, mtime } }       // "no injected I/O fault": a hypothesis, never an axiom
pub enum Eff { Mkdir(PathV), Write(PathV), Rename(PathV, PathV), Unlink(PathV), Touch(PathV) }
pub struct World { pub files: Map<PathV, FileS>, pub log: Seq<Eff> }
pub open spec fn ends_with(p: PathV, suf: PathV) -> bool { exists|q: PathV| p == #[trigger] (q + suf) }
pub open spec fn is_staging(p: PathV) -> bool { ends_with(p, TMP()) }
// new and old agree on every path outside s
pub open spec fn same_except(new: Map<PathV, FileS>, old: Map<PathV, FileS>, s: Set<PathV>) -> bool {
    forall|p: PathV| !s.contains(p) ==> (#[trigger] new.dom().contains(p)) == old.dom().contains(p)
        && (new.dom().contains(p) ==> new[p].bytes == old[p].bytes)
}
// what the remote end holds (for pull): the file `ssh host cat path` would print in full
pub uninterp spec fn remote_content(host: Seq<char>, path: Seq<char>) -> Seq<u8>;

// tokio::fs::copy / std::fs::copy - NON-ATOMIC: only onto a staging name; on failure the staging name may hold anything
#[verifier::external_body]
pub fn vfs_copy<P: AsRef<Path>, Q: AsRef<Path>>(from: P, to: Q, Tracked(w): Tracked<&mut World>) -> (r: std::io::Result<u64>)
    requires is_staging(asp(to)),
    ensures
        final(w).log == old(w).log.push(Eff::Write(asp(to))),
        r is Ok ==> old(w).files.contains_key(asp(from)) && r->Ok_0 == old(w).files[asp(from)].bytes.len()
            && exists|m: int| final(w).files == old(w).files.insert(asp(to), #[trigger] mkfile(old(w).files[asp(from)].bytes, true, m)),
        r is Err ==> same_except(final(w).files, old(w).files, set![asp(to)])
            && (final(w).files.contains_key(asp(to)) ==> !final(w).files[asp(to)].whole),
{ unimplemented!() }

// rename(2) - ATOMIC. A staging file is published only when it is whole.
#[verifier::external_body]
pub fn vfs_rename<P: AsRef<Path>, Q: AsRef<Path>>(from: P, to: Q, Tracked(w): Tracked<&mut World>) -> (r: std::io::Result<()>)
    requires old(w).files.contains_key(asp(from)) ==> old(w).files[asp(from)].whole,
    ensures
        r is Ok ==> old(w).files.contains_key(asp(from))
            && final(w).files == old(w).files.remove(asp(from)).insert(asp(to), old(w).files[asp(from)])
            && final(w).log == old(w).log.push(Eff::Rename(asp(from), asp(to))),
        r is Err ==> final(w).files == old(w).files && final(w).log == old(w).log,
{ unimplemented!() }

#[verifier::external_body]
pub fn vfs_create_dir_all<P: AsRef<Path>>(p: P, Tracked(w): Tracked<&mut World>) -> (r: std::io::Result<()>)
    ensures final(w).files == old(w).files, final(w).log == old(w).log.push(Eff::Mkdir(asp(p))),
{ unimplemented!() }

// meta::set_local_mtime (open without create/truncate + set_modified): changes no byte of any file; on success the file's
// whole-second mtime is max(secs, 0) - what meta::mtime_secs will read back (C14)
pub open spec fn clamp0(t: int) -> int { if t >= 0 { t } else { 0 } }
// std::fs::File::options().write(true).open(path)?.set_modified(t): opens WITHOUT create/truncate, stamps the time (A)
#[verifier::external_type_specification] #[verifier::external_body] pub struct ExSystemTime(std::time::SystemTime);
pub uninterp spec fn time_secs(t: std::time::SystemTime) -> int;      // whole seconds since the epoch
#[verifier::external_body]
pub fn vfs_set_modified(path: &Path, t: std::time::SystemTime, Tracked(w): Tracked<&mut World>) -> (r: std::io::Result<()>)
    ensures final(w).log == old(w).log.push(Eff::Touch(pv(path))),
        r is Ok ==> old(w).files.contains_key(pv(path)) && final(w).files == old(w).files.insert(pv(path),
            FileS { bytes: old(w).files[pv(path)].bytes, whole: old(w).files[pv(path)].whole, mtime: time_secs(t) }),
        r is Err ==> final(w).files == old(w).files,
        (io_ok() && old(w).files.contains_key(pv(path))) ==> r is Ok,
{ unimplemented!() }
pub assume_specification<T, E> [std::result::Result::<T, E>::unwrap_or] (r: std::result::Result<T, E>, d: T) -> (o: T)
    where E: std::marker::Destruct, T: std::marker::Destruct,
    ensures o == (match r { Ok(v) => v, Err(_) => d });
// R5 shims for the time arithmetic of meta::set_local_mtime
#[verifier::external_body] pub fn epoch_plus_secs(n: u64) -> (r: std::time::SystemTime) ensures time_secs(r) == n { unimplemented!() }      // UNIX_EPOCH + Duration::from_secs(n)
#[verifier::external_body] pub fn i64_max(a: i64, b: i64) -> (r: i64) ensures r == (if a >= b { a } else { b }) { unimplemented!() }              // a.max(b)
#[verifier::external_body] pub fn u64_try_from_i64(x: i64) -> (r: Result<u64, ()>) ensures r is Ok <==> x >= 0, r is Ok ==> r->Ok_0 == x { unimplemented!() }

#[verifier::external_body]
pub fn vfs_exists(p: &Path, Tracked(w): Tracked<&World>) -> (r: bool) ensures r == w.files.contains_key(pv(p)) { unimplemented!() }
#[verifier::external_body]
pub fn vfs_remove_file<P: AsRef<Path>>(p: P, Tracked(w): Tracked<&mut World>) -> (r: std::io::Result<()>)
    ensures
        r is Ok ==> final(w).files == old(w).files.remove(asp(p)) && final(w).log == old(w).log.push(Eff::Unlink(asp(p))),
        r is Err ==> final(w).files == old(w).files && final(w).log == old(w).log,
        (io_ok() && old(w).files.contains_key(asp(p))) ==> r is Ok,
{ unimplemented!() }

pub mod vfs {
    use super::*;
    #[verifier::external_body] pub struct File { _p: () }
    impl File {
        pub uninterp spec fn path(&self) -> PathV;
        // tokio::fs::File::create - NON-ATOMIC truncate+create: staging names only
        #[verifier::external_body]
        pub fn create<P: AsRef<Path>>(p: P, Tracked(w): Tracked<&mut World>) -> (r: std::io::Result<File>)
            requires is_staging(asp(p)),
            ensures final(w).log == old(w).log.push(Eff::Write(asp(p))),
                r is Ok ==> r->Ok_0.path() == asp(p) && exists|m: int| final(w).files == old(w).files.insert(asp(p), #[trigger] mkfile(Seq::empty(), false, m)),
                r is Err ==> same_except(final(w).files, old(w).files, set![asp(p)]) && (final(w).files.contains_key(asp(p)) ==> !final(w).files[asp(p)].whole),
        { unimplemented!() }
        #[verifier::external_body]
        pub fn flush(&mut self) -> (r: std::io::Result<()>) ensures final(self).path() == old(self).path() { unimplemented!() }
    }
}
