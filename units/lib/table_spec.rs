// the documented per-path table (C18), as a definition over equality of (BLAKE3, entry type) pairs
pub open spec fn fp_eq(x: Option<Fingerprint>, y: Option<Fingerprint>) -> bool {
    x is Some && y is Some && x->Some_0.blake3 == y->Some_0.blake3 && x->Some_0.ftype == y->Some_0.ftype
}
pub open spec fn table(a: Option<Fingerprint>, b: Option<Fingerprint>, z: Option<Fingerprint>) -> Action {
    if a is None && b is None { Action::Noop }
    else if a is Some && b is Some {
        if fp_eq(a, b) { if fp_eq(a, z) { Action::Noop } else { Action::ConvergeIdentical } }
        else if !fp_eq(a, z) && fp_eq(b, z) { Action::PropagateAtoB }
        else if fp_eq(a, z) && !fp_eq(b, z) { Action::PropagateBtoA }
        else { Action::Conflict(ConflictKind::BothChanged) }
    } else if a is Some {
        if z is None { Action::PropagateAtoB } else if fp_eq(a, z) { Action::DeleteA } else { Action::Conflict(ConflictKind::DeleteVsModify) }
    } else {
        if z is None { Action::PropagateBtoA } else if fp_eq(b, z) { Action::DeleteB } else { Action::Conflict(ConflictKind::DeleteVsModify) }
    }
}
