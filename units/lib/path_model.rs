// ---- assumed model of std::path types (A): a path is identified with an abstract byte view ----
#[verifier::external_type_specification] #[verifier::external_body] pub struct ExPathBuf(PathBuf);
#[verifier::external_type_specification] #[verifier::external_body] pub struct ExPath(Path);
pub type PathV = Seq<u8>;
pub uninterp spec fn pv(p: &Path) -> PathV;
pub uninterp spec fn pbv(p: &PathBuf) -> PathV;
pub assume_specification [<PathBuf as core::ops::Deref>::deref] (a: &PathBuf) -> (r: &Path) ensures pv(r) == pbv(a);
pub assume_specification [<PathBuf as Clone>::clone] (a: &PathBuf) -> (r: PathBuf) ensures r == *a;
// PathBuf keys obey vstd's BTreeMap key model (Ord is a total order consistent with Eq)
pub broadcast axiom fn ax_pathbuf_keys()
    ensures #[trigger] borrowed_key_ordering_matches::<PathBuf, PathBuf>(), key_obeys_cmp_spec::<PathBuf>();
