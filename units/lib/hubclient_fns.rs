// ---- src/bin/copia/hub.rs HubClient::{send, recv, list, put} at the level of wire bytes (C13, C12 from the client's side) ----
//@item file=src/bin/copia/reconcile.rs kind=enum name=FileType
//@item file=src/bin/copia/reconcile.rs kind=struct name=Fingerprint
//@item file=src/bin/copia/wire.rs kind=type name=Hash
//@item file=src/bin/copia/wire.rs kind=enum name=Request
//@item file=src/bin/copia/wire.rs kind=enum name=Response nosuper
#[verifier::external_type_specification] #[verifier::external_body] pub struct ExChild(std::process::Child);
#[verifier::external_type_specification] #[verifier::external_body] pub struct ExChildStdin(std::process::ChildStdin);
#[verifier::external_type_specification] #[verifier::external_body] pub struct ExChildStdout(std::process::ChildStdout);
#[verifier::external_type_specification] #[verifier::external_body] #[verifier::reject_recursive_types(W)] pub struct ExBufWriter<W: ?Sized + std::io::Write>(std::io::BufWriter<W>);
#[verifier::external_type_specification] #[verifier::external_body] #[verifier::reject_recursive_types(R)] pub struct ExBufReader<R: ?Sized>(std::io::BufReader<R>);
//@item file=src/bin/copia/hub.rs kind=struct name=HubClient

// framing BY CONTRACT here - the bodies of write_frame / read_frame are proved against these very clauses in unit `serve`
pub trait CborMsg {}
impl CborMsg for Request {}
impl CborMsg for Response {}
pub uninterp spec fn cbor_of<T>(m: T) -> Seq<u8>;
pub uninterp spec fn cbor_parse<T>(b: Seq<u8>) -> Option<T>;
pub open spec fn be4(n: u32) -> Seq<u8> { seq![(n >> 24) as u8, ((n >> 16) & 0xff) as u8, ((n >> 8) & 0xff) as u8, (n & 0xff) as u8] }
pub open spec fn frame_of<T>(m: T) -> Seq<u8> { be4(cbor_of(m).len() as u32) + cbor_of(m) }
#[verifier::external_body]
pub fn write_frame<W: Write, T: CborMsg>(w: &mut W, msg: &T) -> (r: std::io::Result<()>)
    ensures r is Ok ==> cbor_of(*msg).len() <= 0x10_0000 && w_written(&*final(w)) == w_written(&*old(w)) + frame_of(*msg),
{ unimplemented!() }
#[verifier::external_body]
pub fn read_frame<R: Read, T: CborMsg>(r: &mut R) -> (res: std::io::Result<Option<T>>)
    ensures res is Ok && res->Ok_0 is Some ==> exists|n: u32| n <= 0x10_0000 && ({
        let c = r_content(&*old(r)); let p = r_pos(&*old(r)) as int;
        &&& r_content(&*final(r)) == c && r_pos(&*final(r)) == p + 4 + n && p + 4 + n <= c.len()
        &&& #[trigger] be4(n) == c.subrange(p, p + 4)
        &&& cbor_parse::<T>(c.subrange(p + 4, p + 4 + n)) == Some(res->Ok_0->Some_0)
    }),
{ unimplemented!() }
// local file access (A): the file's bytes do not change during the run
pub uninterp spec fn file_bytes(p: Seq<u8>) -> Seq<u8>;
#[verifier::external_body] pub fn file_len(local: &Path) -> (r: std::io::Result<u64>) ensures r is Ok ==> r->Ok_0 == file_bytes(pv(local)).len() { unimplemented!() }      // std::fs::metadata(local)?.len()
// R5 shim for `let mut f = std::fs::File::open(local)?; std::io::copy(&mut f, &mut self.w)?;` : stream the whole file into the writer
#[verifier::external_body]
pub fn copy_file_into<W: Write>(local: &Path, w: &mut W) -> (r: std::io::Result<u64>)
    ensures r is Ok ==> w_written(&*final(w)) == w_written(&*old(w)) + file_bytes(pv(local)),
{ unimplemented!() }
#[verifier::external_body] pub fn str_to_string(s: &str) -> (r: String) ensures r@ == s@ { unimplemented!() }
#[verifier::external_body] pub fn io_invalid_data() -> std::io::Error { unimplemented!() }
#[verifier::external_body] pub fn io_eof() -> std::io::Error { unimplemented!() }

impl HubClient {
    pub closed spec fn wire(&self) -> Seq<u8> { w_written(&self.w) }                  // everything written to the hub so far
    pub closed spec fn inbox(&self) -> (Seq<u8>, nat) { (r_content(&self.r), r_pos(&self.r)) }
//@extract file=src/bin/copia/hub.rs impl="HubClient" fn=send
//@ret r
//@ensures
    r is Ok ==> final(self).wire() == old(self).wire() + frame_of(*req),
    final(self).inbox() == old(self).inbox(),
//@end
//@extract file=src/bin/copia/hub.rs impl="HubClient" fn=recv
//@ret res
//@ensures
    final(self).wire() == old(self).wire(),
//@replace /(?s)\.ok_or_else\(\|\| std::io::Error::new\(std::io::ErrorKind::UnexpectedEof, "hub closed"\)\)/ => .ok_or(io_eof())
//@end
//@extract file=src/bin/copia/hub.rs impl="HubClient" fn=put
//@ret res
//@ensures
    // one Put frame whose `len` is the length of exactly the bytes that follow it: the hub's stream stays in step, and the
    // announced hash/expected are the caller's; the result is the `committed` flag of the hub's reply
    res is Ok ==> exists|m: Request| final(self).wire() == old(self).wire() + #[trigger] frame_of(m) + file_bytes(pv(local))
        && m is Put && m->Put_path@ == rel@ && m->Put_expected == expected && m->Put_len == file_bytes(pv(local)).len() && m->Put_hash == hash,
//@at entry
        let ghost w0 = self.wire();
//@at before /let mut f = std::fs::File::open/
        let ghost w1 = self.wire();
//@at before /match self\.recv\(\)\?/
        proof { assert(self.wire() == w1 + file_bytes(pv(local))); }
//@replace /std::fs::metadata\(local\)\?\.len\(\)/ => file_len(local)?
//@replace /rel\.to_string\(\)/ => str_to_string(rel)
//@replace /(?s)let mut f = std::fs::File::open\(local\)\?;\s*std::io::copy\(&mut f, &mut self\.w\)\?;/ => copy_file_into(local, &mut self.w)?;
//@replace /(?s)std::io::Error::new\(\s*std::io::ErrorKind::InvalidData,\s*format!\("expected PutResult, got \{other:\?\}"\),\s*\)/ => io_invalid_data()
//@end
}
