// ---- src/bin/copia/archive.rs: the recorded common state (C07, C08) ----
//@item file=src/bin/copia/reconcile.rs kind=enum name=FileType
//@item file=src/bin/copia/reconcile.rs kind=struct name=Fingerprint
//@item file=src/bin/copia/reconcile.rs kind=type name=FpMap
//@item file=src/bin/copia/archive.rs kind=const name=FORMAT_VERSION
//@item file=src/bin/copia/archive.rs kind=struct name=Archive

// serde_json by contract only (A): a total parser, and a printer that the parser inverts
pub uninterp spec fn parse_archive(b: Seq<u8>) -> Option<Archive>;
#[verifier::external_body] pub struct JsonErr { _p: () }
#[verifier::external_body]
pub fn json_from_slice(b: &[u8]) -> (r: std::result::Result<Archive, JsonErr>)
    ensures r is Ok ==> parse_archive(b@) == Some(r->Ok_0), r is Err ==> parse_archive(b@) is None
{ unimplemented!() }
#[verifier::external_body]
pub fn json_to_vec_pretty(a: &Archive) -> (r: std::io::Result<Vec<u8>>) ensures r is Ok ==> parse_archive(r->Ok_0@) == Some(*a) { unimplemented!() }
// R5 shim for `String == &str`
#[verifier::external_body]
pub fn string_eq_str(a: &String, b: &str) -> (r: bool) ensures r == (a@ == b@) { unimplemented!() }
#[verifier::external_body]
pub fn fpmap_new() -> (r: FpMap) ensures r@ == Map::<PathBuf, Fingerprint>::empty() { unimplemented!() }

// what a save appends to the effect log: everything stays on the archive's own names, the publishing rename is last
pub open spec fn archive_effect(e: Eff, path: PathV) -> bool {
    match e {
        Eff::Mkdir(_) => true,
        Eff::Sync(_) => true,
        Eff::Write(p) => p == path + ATMP(),
        Eff::Rename(f, t) => (f == path && t == path + BAK()) || (f == path + ATMP() && t == path),
        Eff::Unlink(_) => false,
    }
}

impl Archive {
//@extract file=src/bin/copia/archive.rs impl="Archive" fn=fresh
//@ret r
//@ensures
        r.format_version == 1, r.root_pair_hash == root_pair_hash, r.epoch == 0, r.host_id == host_id, r.entries@ == Map::<PathBuf, Fingerprint>::empty(),
//@replace /FpMap::new\(\)/ => fpmap_new()
//@end
//@extract file=src/bin/copia/archive.rs impl="Archive" fn=load
//@ret r
//@param+
    Tracked(w): Tracked<&World>
//@ensures
        // C07: an archive is trusted only if the file AT THIS PATH exists, parses, has format version 1 and names this pair
        r is Some ==> w.files.contains_key(pv(path)) && parse_archive(w.files[pv(path)].bytes) == Some(r->Some_0)
            && r->Some_0.format_version == 1 && r->Some_0.root_pair_hash@ == expected_pair@,
//@replace /std::fs::read\(path\)/ => vfs_read(path, Tracked(w))
//@replace /serde_json::from_slice\(&bytes\)/ => json_from_slice(&bytes)
//@replace? /a\.root_pair_hash == expected_pair/ => string_eq_str(&a.root_pair_hash, expected_pair) #all
//@replace? /a\.root_pair_hash != expected_pair/ => !string_eq_str(&a.root_pair_hash, expected_pair) #all
//@at entry
        broadcast use asp_path, asp_pathbuf, asp_str;
//@end
//@extract file=src/bin/copia/archive.rs impl="Archive" fn=save
//@ret r
//@param+
    Tracked(w): Tracked<&mut World>
//@requires
        !is_staging(pv(path)),
//@ensures
        final(w).reliable == old(w).reliable,
        // C08: on success the new record is in place, parses back to this value, and was flushed BEFORE being renamed in
        r is Ok ==> final(w).files.contains_key(pv(path)) && parse_archive(final(w).files[pv(path)].bytes) == Some(*self)
            && final(w).files[pv(path)].synced,
        // frame: only the archive's own names change ...
        same_except(final(w).files, old(w).files, set![pv(path), pv(path) + ATMP(), pv(path) + BAK()]),
        // ... the live record changes only by a rename (it is the old one or the new one, never partial) ...
        r is Err ==> (final(w).files.contains_key(pv(path)) ==> old(w).files.contains_key(pv(path)) && final(w).files[pv(path)].bytes == old(w).files[pv(path)].bytes)
            || (final(w).files.contains_key(pv(path)) && parse_archive(final(w).files[pv(path)].bytes) == Some(*self)),
        // ... and every effect is an archive effect
        old(w).log.len() <= final(w).log.len(), forall|i: int| 0 <= i < old(w).log.len() ==> #[trigger] final(w).log[i] == old(w).log[i],
        forall|i: int| old(w).log.len() <= i < final(w).log.len() ==> archive_effect(#[trigger] final(w).log[i], pv(path)),
//@replace /std::fs::create_dir_all\(parent\)/ => vfs_create_dir_all(parent, Tracked(w))
//@replace /serde_json::to_vec_pretty\(self\)\s*\.map_err\(\|e\| std::io::Error::new\(std::io::ErrorKind::InvalidData, e\)\)/ => json_to_vec_pretty(self)
//@replace /std::fs::File::create\(&tmp\)/ => vfs::File::create(&tmp, Tracked(w))
//@replace /f\.write_all\(&json\)/ => f.write_all(&json, Tracked(w))
//@replace /f\.sync_all\(\)/ => f.sync_all(Tracked(w))
//@replace /path\.exists\(\)/ => vfs_exists(path, Tracked(&*w))
//@replace /std::fs::rename\(path, PathBuf::from\(bak\)\)/ => vfs_rename(path, PathBuf::from(bak), Tracked(w))
//@replace /std::fs::rename\(&tmp, path\)/ => vfs_rename(&tmp, path, Tracked(w))
//@replace /std::fs::File::open\(parent\)/ => vfs::File::open(parent, Tracked(&*w))
//@replace /dir\.sync_all\(\)/ => dir.sync_all(Tracked(w))
//@at entry
        broadcast use asp_path, asp_pathbuf, asp_pathbuf_val, asp_str;
        proof { lemma_tmp_nonempty(); lemma_archive_names(pv(path)); }
        let ghost w0 = *w;
//@at after /let mut f = std::fs::File::create\(&tmp\)\?;/
            proof { assert(f.path() == pbv(&tmp)); assert(w.files.contains_key(pbv(&tmp)) && w.files[pbv(&tmp)].bytes == Seq::<u8>::empty()); }
//@at after /f\.write_all\(&json\)\?;/
            proof { assert(w.files.contains_key(pbv(&tmp))); assert(w.files[pbv(&tmp)].bytes == Seq::<u8>::empty() + json@); }
//@at after /f\.sync_all\(\)\?;/
            proof { assert(w.files.contains_key(pbv(&tmp))); assert(w.files[pbv(&tmp)].bytes == Seq::<u8>::empty() + json@); assert(w.files[pbv(&tmp)].synced); }
//@at before /if path\.exists\(\)/
        proof {
            assert(pbv(&tmp) == pv(path) + ATMP());
            assert(Seq::<u8>::empty() + json@ =~= json@);
            assert(w.files.contains_key(pbv(&tmp)) && w.files[pbv(&tmp)].bytes == json@ && w.files[pbv(&tmp)].synced);
        }
//@at before /std::fs::rename\(&tmp, path\)\?;/
        proof { assert(w.files.contains_key(pbv(&tmp)) && w.files[pbv(&tmp)].bytes == json@ && w.files[pbv(&tmp)].synced); }
//@at after /std::fs::rename\(&tmp, path\)\?;/
        proof { assert(w.files.contains_key(pv(path)) && w.files[pv(path)].bytes == json@ && w.files[pv(path)].synced); }
//@at before /let _ = dir\.sync_all\(\);/
                let ghost wc = *w;
//@at after /let _ = dir\.sync_all\(\);/
                proof {
                    assert(same_except(w.files, wc.files, Set::empty()));
                    assert(!Set::<PathV>::empty().contains(pv(path)));
                    assert(w.files.dom().contains(pv(path)) == wc.files.dom().contains(pv(path)));
                    assert(w.files.contains_key(pv(path)) && w.files[pv(path)].bytes == json@ && w.files[pv(path)].synced);
                }
//@at before /Ok\(\(\)\)/
        proof { assert(w.files.contains_key(pv(path)) && w.files[pv(path)].bytes == json@ && w.files[pv(path)].synced); }
//@end
}
