// ---- one-way planner (C19, C15): build_plan and needs_transfer, text extracted from src/bin/copia/plan.rs ----
//@item file=src/bin/copia/plan.rs kind=struct name=FileMeta
//@item file=src/bin/copia/plan.rs kind=type name=MetaMap
//@item file=src/bin/copia/plan.rs kind=struct name=SyncPlan

// R5 shim for `SyncPlan::default()` (derived Default: empty vectors, zero count)
pub fn syncplan_default() -> (r: SyncPlan)
    ensures r.transfer@.len() == 0, r.skipped == 0, r.delete@.len() == 0
{ SyncPlan { transfer: Vec::new(), skipped: 0, delete: Vec::new() } }


pub open spec fn needs(src: FileMeta, dst: Option<FileMeta>) -> bool {
    dst is None || src.size != dst->Some_0.size || src.mtime != dst->Some_0.mtime
}
pub open spec fn dget(dst: Map<PathBuf, FileMeta>, p: PathBuf) -> Option<FileMeta> {
    if dst.contains_key(p) { Some(dst[p]) } else { None }
}
// the set definitions of C19
pub open spec fn want_transfer(src: Map<PathBuf, FileMeta>, dst: Map<PathBuf, FileMeta>, excludes: Seq<String>, p: PathBuf) -> bool {
    src.contains_key(p) && !ex(pbv(&p), excludes) && needs(src[p], dget(dst, p))
}
pub open spec fn want_delete(src: Map<PathBuf, FileMeta>, dst: Map<PathBuf, FileMeta>, excludes: Seq<String>, p: PathBuf) -> bool {
    dst.contains_key(p) && !src.contains_key(p) && !ex(pbv(&p), excludes)
}
pub open spec fn not_ex(excludes: Seq<String>) -> spec_fn(PathBuf) -> bool { |p: PathBuf| !ex(pbv(&p), excludes) }

//@extract file=src/bin/copia/plan.rs fn=needs_transfer
//@ret r
//@ensures
    r == needs(src, dst),
//@replace /\|d\| (.*)\)(\s*)$/ => |d: FileMeta| -> (b: bool) ensures b == (\1) { \1 })\2
//@end

// facts vstd gives about BTreeMap::iter()'s ghost sequence, packaged as one predicate
pub open spec fn iter_facts(m: Map<PathBuf, FileMeta>, s: Seq<(&PathBuf, &FileMeta)>) -> bool {
    &&& s.len() == m.len()
    &&& s.no_duplicates()
    &&& forall|i: int| 0 <= i < s.len() ==> m.contains_key(*(#[trigger] s[i]).0) && m[*s[i].0] == *s[i].1
    &&& forall|k: PathBuf| m.contains_key(k) ==> exists|i: int| 0 <= i < s.len() && *(#[trigger] s[i]).0 == k
}
pub open spec fn keys_facts(m: Map<PathBuf, FileMeta>, s: Seq<&PathBuf>) -> bool {
    &&& s.len() == m.len()
    &&& s.no_duplicates()
    &&& m.dom().finite()
    &&& forall|k: PathBuf| m.contains_key(k) ==> exists|i: int| 0 <= i < s.len() && *(#[trigger] s[i]) == k
}
// every element of the keys() sequence is a key (counting argument: no duplicates, same length, covers the domain)
pub proof fn lemma_keys_rev<K>(dom: Set<K>, s: Seq<&K>)
    requires dom.finite(), s.len() == dom.len(), s.no_duplicates(),
        forall|k: K| dom.contains(k) ==> exists|i: int| 0 <= i < s.len() && *(#[trigger] s[i]) == k,
    ensures forall|i: int| 0 <= i < s.len() ==> dom.contains(*(#[trigger] s[i])),
{
    let t = s.map_values(|r: &K| *r);
    assert(t.no_duplicates()) by {
        assert forall|i: int, j: int| 0 <= i < t.len() && 0 <= j < t.len() && i != j implies t[i] != t[j] by {
            assert(s[i] != s[j]);
        }
    }
    t.unique_seq_to_set();
    let ts = t.to_set();
    assert(dom.subset_of(ts)) by {
        assert forall|k: K| dom.contains(k) implies ts.contains(k) by {
            let i = choose|i: int| 0 <= i < s.len() && *(#[trigger] s[i]) == k;
            assert(t[i] == k);
        }
    }
    vstd::set_lib::lemma_subset_equality(dom, ts);
    assert forall|i: int| 0 <= i < s.len() implies dom.contains(*(#[trigger] s[i])) by {
        assert(t[i] == *s[i]);
        assert(ts.contains(t[i]));
    }
}

//@extract file=src/bin/copia/plan.rs fn=build_plan
//@attr
#[verifier::spinoff_prover]     // own solver instance: the loop proof is sensitive to what was verified before it in a shared one
//@ret plan
//@requires
    src@.len() < usize::MAX,
//@ensures
    // transfer = the non-excluded source paths absent from the destination or differing in size/mtime, sorted
    forall|p: PathBuf| plan.transfer@.contains(p) <==> want_transfer(src@, dst@, excludes@, p),
    plan.transfer@.no_duplicates(), sorted(plan.transfer@),
    // skipped = the number of remaining non-excluded source paths
    plan.skipped + plan.transfer@.len() == src@.dom().filter(not_ex(excludes@)).len(),
    // delete only when requested: destination paths absent from the source and not excluded, sorted
    !with_delete ==> plan.delete@.len() == 0,
    with_delete ==> (forall|p: PathBuf| plan.delete@.contains(p) <==> want_delete(src@, dst@, excludes@, p)),
    plan.delete@.no_duplicates(), sorted(plan.delete@),
//@replace /SyncPlan::default\(\)/ => syncplan_default()
//@replace /for \(path, smeta\) in src(?= \{)/ => for (path, smeta) in it: src.iter()
//@at entry
    broadcast use group_btree_axioms, ax_pathbuf_keys;
    let ghost mut seen: Set<PathBuf> = Set::empty();
    let ghost f = not_ex(excludes@);
//@at before /for \(path, smeta\) in src/
    proof { assert(seen.filter(f) =~= Set::<PathBuf>::empty()); }
//@loop 0 invariant
            f == not_ex(excludes@),
            forall|x: PathBuf| seen.contains(x) <==> (exists|i: int| 0 <= i < it.index() && *(#[trigger] it.seq()[i]).0 == x),
            iter_facts(src@, it.seq()), src@.len() < usize::MAX,
            forall|p: PathBuf| plan.transfer@.contains(p) <==> seen.contains(p) && want_transfer(src@, dst@, excludes@, p),
            plan.transfer@.no_duplicates(),
            plan.skipped + plan.transfer@.len() == seen.filter(f).len(),
            seen.finite(), seen.len() == it.index(), seen.filter(f).len() <= seen.len(),
            plan.delete@.len() == 0,
            (it.index() == it.seq().len()) ==> seen =~= src@.dom(),
//@at loop 0 entry
        broadcast use group_btree_axioms, ax_pathbuf_keys;
        let ghost seen0 = seen;
        let ghost tr0 = plan.transfer@;
        proof {
            let i0 = it.index() as int;
            assert(!seen.contains(*path)) by {
                if seen.contains(*path) {
                    let j = choose|j: int| 0 <= j < i0 && *(#[trigger] it.seq()[j]).0 == *path;
                    assert(*it.seq()[j].0 == *it.seq()[i0].0);
                    assert(src@[*it.seq()[j].0] == *it.seq()[j].1);
                    assert(*it.seq()[j].1 == *it.seq()[i0].1);
                    assert(it.seq()[j] == it.seq()[i0]);
                }
            }
            let s2 = seen.insert(*path);
            assert(s2.filter(f) =~= if f(*path) { seen.filter(f).insert(*path) } else { seen.filter(f) });
            seen.lemma_len_filter(f);
            s2.lemma_len_filter(f);
            seen = s2;
            assert(src@.contains_key(*path) && src@[*path] == *smeta);
            assert forall|x: PathBuf| seen.contains(x) <==> (exists|i: int| 0 <= i < i0 + 1 && *(#[trigger] it.seq()[i]).0 == x) by {
                if seen0.contains(x) { let j = choose|j: int| 0 <= j < i0 && *(#[trigger] it.seq()[j]).0 == x; assert(0 <= j < i0 + 1 && *it.seq()[j].0 == x); }
                if x == *path { assert(*it.seq()[i0].0 == x); }
            }
        }
        proof {
            let i0 = it.index() as int;
            assert(i0 + 1 == it.seq().len() ==> seen =~= src@.dom()) by {
                if i0 + 1 == it.seq().len() {
                    assert forall|k: PathBuf| src@.dom().contains(k) implies seen.contains(k) by {
                        let i = choose|i: int| 0 <= i < it.seq().len() && *(#[trigger] it.seq()[i]).0 == k;
                    }
                }
            }
        }
//@at loop 0 end
        proof {
            assert(dget(dst@, *path) == (match dst@.get(*path) { Some(x) => Some(x), None => None }));
            assert forall|p: PathBuf| plan.transfer@.contains(p) <==> seen.contains(p) && want_transfer(src@, dst@, excludes@, p) by {
                if plan.transfer@ =~= tr0 {
                } else {
                    assert(plan.transfer@ =~= tr0.push(*path));
                    if p != *path { assert(tr0.push(*path).contains(p) == tr0.contains(p)) by {
                        if tr0.push(*path).contains(p) { let i = choose|i: int| 0 <= i < tr0.len() + 1 && tr0.push(*path)[i] == p; assert(tr0[i] == p); }
                        if tr0.contains(p) { let i = choose|i: int| 0 <= i < tr0.len() && tr0[i] == p; assert(tr0.push(*path)[i] == p); }
                    } } else { assert(tr0.push(*path)[tr0.len() as int] == p); }
                }
            }
        }
//@loop 1 iter kit
//@at before /for path in dst\.keys\(\)/
            let ghost mut seen2: Set<PathBuf> = Set::empty();
//@loop 1 invariant
                forall|x: PathBuf| seen2.contains(x) <==> (exists|i: int| 0 <= i < kit.index() && *(#[trigger] kit.seq()[i]) == x),
                keys_facts(dst@, kit.seq()),
                forall|p: PathBuf| plan.delete@.contains(p) <==> seen2.contains(p) && want_delete(src@, dst@, excludes@, p),
                plan.delete@.no_duplicates(),
                (kit.index() == kit.seq().len()) ==> seen2 =~= dst@.dom(),
                forall|p: PathBuf| plan.transfer@.contains(p) <==> want_transfer(src@, dst@, excludes@, p),
                plan.transfer@.no_duplicates(),
                plan.skipped + plan.transfer@.len() == src@.dom().filter(not_ex(excludes@)).len(),
//@at loop 1 entry
                broadcast use group_btree_axioms, ax_pathbuf_keys;
                let ghost seen20 = seen2;
                let ghost dl0 = plan.delete@;
                proof {
                    let i0 = kit.index() as int;
                    lemma_keys_rev(dst@.dom(), kit.seq());
                    assert(dst@.contains_key(*kit.seq()[i0]));
                    assert(!seen2.contains(*path)) by {
                        if seen2.contains(*path) {
                            let j = choose|j: int| 0 <= j < i0 && *(#[trigger] kit.seq()[j]) == *path;
                            assert(kit.seq()[j] == kit.seq()[i0]);
                        }
                    }
                    seen2 = seen2.insert(*path);
                    assert forall|x: PathBuf| seen2.contains(x) <==> (exists|i: int| 0 <= i < i0 + 1 && *(#[trigger] kit.seq()[i]) == x) by {
                        if seen20.contains(x) { let j = choose|j: int| 0 <= j < i0 && *(#[trigger] kit.seq()[j]) == x; assert(0 <= j < i0 + 1 && *kit.seq()[j] == x); }
                        if x == *path { assert(*kit.seq()[i0] == x); }
                    }
                }
                proof {
                    let i0 = kit.index() as int;
                    assert(i0 + 1 == kit.seq().len() ==> seen2 =~= dst@.dom()) by {
                        if i0 + 1 == kit.seq().len() {
                            assert forall|k: PathBuf| dst@.dom().contains(k) implies seen2.contains(k) by {
                                let i = choose|i: int| 0 <= i < kit.seq().len() && *(#[trigger] kit.seq()[i]) == k;
                            }
                        }
                    }
                }
//@at loop 1 end
                proof {
                    assert forall|p: PathBuf| plan.delete@.contains(p) <==> seen2.contains(p) && want_delete(src@, dst@, excludes@, p) by {
                        if plan.delete@ =~= dl0 {
                        } else {
                            assert(plan.delete@ =~= dl0.push(*path));
                            if p != *path { assert(dl0.push(*path).contains(p) == dl0.contains(p)) by {
                                if dl0.push(*path).contains(p) { let i = choose|i: int| 0 <= i < dl0.len() + 1 && dl0.push(*path)[i] == p; assert(dl0[i] == p); }
                                if dl0.contains(p) { let i = choose|i: int| 0 <= i < dl0.len() && dl0[i] == p; assert(dl0.push(*path)[i] == p); }
                            } } else { assert(dl0.push(*path)[dl0.len() as int] == p); }
                        }
                    }
                }
//@end
