// ---- command-line targets: main.rs FileLocation::parse (sync SRC DST) and hub.rs split_target (hub-sync LOCAL TARGET) ----
// A &str is seen through its BYTES (what ssh and the file system get); `find` / slicing work on byte offsets. ASSUMED (A), R5
// shims whose body is the replaced expression:
#[verifier::external_type_specification] #[verifier::external_body] pub struct ExPathBuf(PathBuf);
pub uninterp spec fn sb(s: &str) -> Seq<u8>;
pub uninterp spec fn stb(s: &String) -> Seq<u8>;
pub uninterp spec fn pbb(p: &PathBuf) -> Seq<u8>;
pub open spec fn COLON() -> u8 { 58u8 }
pub open spec fn SLASH() -> u8 { 47u8 }
pub open spec fn BSLASH() -> u8 { 92u8 }
pub open spec fn hasb(s: Seq<u8>, b: u8) -> bool { exists|i: int| 0 <= i < s.len() && s[i] == b }
// s.find(C): byte offset of the FIRST occurrence; s.rfind(C): of the LAST
#[verifier::external_body]
pub fn str_find(s: &str, b: u8) -> (r: Option<usize>)
    ensures sb(s).len() <= 0x7fff_ffff_ffff_ffff,      // Rust guarantee: no allocation exceeds isize::MAX bytes
        r is Some ==> r->Some_0 < sb(s).len() && sb(s)[r->Some_0 as int] == b && forall|j: int| 0 <= j < r->Some_0 ==> sb(s)[j] != b,
        r is None ==> !hasb(sb(s), b),
{ s.find(b as char) }
#[verifier::external_body]
pub fn str_rfind(s: &str, b: u8) -> (r: Option<usize>)
    ensures sb(s).len() <= 0x7fff_ffff_ffff_ffff,
        r is Some ==> r->Some_0 < sb(s).len() && sb(s)[r->Some_0 as int] == b && forall|j: int| r->Some_0 < j < sb(s).len() ==> sb(s)[j] != b,
        r is None ==> !hasb(sb(s), b),
{ s.rfind(b as char) }
// &s[..i] and &s[i..] at an offset next to an ASCII byte (always a character boundary)
#[verifier::external_body]
pub fn str_to<'a>(s: &'a str, i: usize) -> (r: &'a str) requires i <= sb(s).len() ensures sb(r) == sb(s).subrange(0, i as int) { &s[..i] }
#[verifier::external_body]
pub fn str_from<'a>(s: &'a str, i: usize) -> (r: &'a str) requires i <= sb(s).len() ensures sb(r) == sb(s).subrange(i as int, sb(s).len() as int) { &s[i..] }
#[verifier::external_body]
pub fn str_has(s: &str, b: u8) -> (r: bool) ensures r == hasb(sb(s), b) { s.contains(b as char) }
#[verifier::external_body]
pub fn str_is_empty(s: &str) -> (r: bool) ensures r == (sb(s).len() == 0) { s.is_empty() }
#[verifier::external_body]
pub fn str_blen(s: &str) -> (r: usize) ensures r == sb(s).len() { s.len() }
#[verifier::external_body]
pub fn str_owned(s: &str) -> (r: String) ensures stb(&r) == sb(s) { s.to_string() }
#[verifier::external_body]
pub fn pathbuf_of(s: &str) -> (r: PathBuf) ensures pbb(&r) == sb(s) { PathBuf::from(s) }

// what "TARGET names HOST and REST" means: the text is host ++ ":" ++ rest, cut at its FIRST colon
pub open spec fn cut_at_first_colon(t: Seq<u8>, host: Seq<u8>, rest: Seq<u8>) -> bool { t == host + seq![COLON()] + rest && !hasb(host, COLON()) }

//@item file=src/bin/copia/main.rs kind=enum name=FileLocation
impl FileLocation {
//@extract file=src/bin/copia/main.rs impl="FileLocation" fn=parse
//@ret r
//@ensures
    // remote <=> there is a colon, and what precedes the FIRST one is longer than one byte and has neither '/' nor '\';
    // then host = that prefix, path = everything after that colon (later colons belong to the path)
    r is Remote ==> cut_at_first_colon(sb(s), stb(&r->Remote_host), stb(&r->Remote_path))
        && stb(&r->Remote_host).len() > 1 && !hasb(stb(&r->Remote_host), SLASH()) && !hasb(stb(&r->Remote_host), BSLASH()),
    // otherwise the whole argument, unchanged, is a local path
    r is Local ==> pbb(&r->Local_0) == sb(s)
        && forall|h: Seq<u8>, p: Seq<u8>| cut_at_first_colon(sb(s), h, p) ==> h.len() <= 1 || hasb(h, SLASH()) || hasb(h, BSLASH()),
//@replace? /s\.find\(':'\)/ => str_find(s, 58u8) #all
//@replace? /s\.rfind\(':'\)/ => str_rfind(s, 58u8) #all
//@replace? /&s\[\.\.(\w+)\]/ => str_to(s, \1) #all
//@replace? /s\[(\w+) \+ 1\.\.\]\.to_string\(\)/ => str_owned(str_from(s, \1 + 1)) #all
//@replace? /(\w+)\.to_string\(\)/ => str_owned(\1) #all
//@replace? /(\w+)\.len\(\) > 1/ => str_blen(\1) > 1 #all
//@replace? /(\w+)\.contains\('\/'\)/ => str_has(\1, 47u8) #all
//@replace? /(\w+)\.contains\('\\\\'\)/ => str_has(\1, 92u8) #all
//@replace? /PathBuf::from\(s\)/ => pathbuf_of(s) #all
//@at? before /let before_colon/
            proof { lemma_cut_unique(sb(s), colon_pos as int); }
//@at end
    proof { if !hasb(sb(s), COLON()) { assert forall|h: Seq<u8>, p: Seq<u8>| !cut_at_first_colon(sb(s), h, p) by { if cut_at_first_colon(sb(s), h, p) { assert(sb(s)[h.len() as int] == COLON()); } } } }
//@end
}
// the cut at the first colon is unique: any (h, p) with t == h ++ ":" ++ p and no colon in h has |h| == the first colon's offset
pub proof fn lemma_cut_unique(t: Seq<u8>, i: int)
    requires 0 <= i < t.len(), t[i] == COLON(), forall|j: int| 0 <= j < i ==> t[j] != COLON(),
    ensures cut_at_first_colon(t, t.subrange(0, i), t.subrange(i + 1, t.len() as int)),
        forall|h: Seq<u8>, p: Seq<u8>| cut_at_first_colon(t, h, p) ==> h == t.subrange(0, i) && p == t.subrange(i + 1, t.len() as int),
{
    assert(t =~= t.subrange(0, i) + seq![COLON()] + t.subrange(i + 1, t.len() as int));
    assert(!hasb(t.subrange(0, i), COLON()));
    assert forall|h: Seq<u8>, p: Seq<u8>| cut_at_first_colon(t, h, p) implies h == t.subrange(0, i) && p == t.subrange(i + 1, t.len() as int) by {
        let n = h.len() as int;
        assert(t[n] == COLON());
        if n < i { assert(false); }
        if n > i { assert(h[i] == t[i]); assert(hasb(h, COLON())); assert(false); }
        assert(h =~= t.subrange(0, i)); assert(p =~= t.subrange(i + 1, t.len() as int));
    }
}

//@extract file=src/bin/copia/hub.rs fn=split_target
//@ret r
//@ensures
    // Some <=> there is a colon and what precedes the FIRST one is non-empty and has no '/'; then (host, root) is the cut there
    r is Some ==> cut_at_first_colon(sb(t), sb(r->Some_0.0), sb(r->Some_0.1)) && sb(r->Some_0.0).len() > 0 && !hasb(sb(r->Some_0.0), SLASH()),
    r is None ==> forall|h: Seq<u8>, p: Seq<u8>| cut_at_first_colon(sb(t), h, p) ==> h.len() == 0 || hasb(h, SLASH()),
//@replace? /t\.find\(':'\)/ => str_find(t, 58u8) #all
//@replace? /t\.rfind\(':'\)/ => str_rfind(t, 58u8) #all
//@replace? /&t\[\.\.(\w+)\]/ => str_to(t, \1) #all
//@replace? /&t\[(\w+) \+ 1\.\.\]/ => str_from(t, \1 + 1) #all
//@replace? /(\w+)\.is_empty\(\)/ => str_is_empty(\1) #all
//@replace? /(\w+)\.contains\('\/'\)/ => str_has(\1, 47u8) #all
//@at? before /let host = /
    proof { lemma_cut_unique(sb(t), idx as int); }
//@at entry
    proof { if !hasb(sb(t), COLON()) { assert forall|h: Seq<u8>, p: Seq<u8>| !cut_at_first_colon(sb(t), h, p) by { if cut_at_first_colon(sb(t), h, p) { assert(sb(t)[h.len() as int] == COLON()); } } } }
//@end
