// ---- src/delta.rs: op constructors, whole-view contracts of push_*, validate ----
//@item file=src/delta.rs kind=enum name=DeltaOp
//@item file=src/delta.rs kind=struct name=Delta
//@include delta_spec.rs
impl DeltaOp {
//@extract file=src/delta.rs impl="DeltaOp" fn=copy
//@ret r
//@ensures
        r == (DeltaOp::Copy { offset, len }),
//@end
//@extract file=src/delta.rs impl="DeltaOp" fn=literal
//@ret r
//@ensures
        r == DeltaOp::Literal(data),
//@end
//@extract file=src/delta.rs impl="DeltaOp" fn=literal_from_slice
//@ret r
//@ensures
        r is Literal, r->Literal_0@ == data@,
//@end
}
impl Delta {
//@extract file=src/delta.rs impl="Delta" fn=with_checksum
//@ret r
//@ensures
        r.block_size == block_size, r.source_size == source_size, r.basis_size == basis_size, r.checksum == checksum, r.ops@.len() == 0,
//@end
//@extract file=src/delta.rs impl="Delta" fn=push_copy
//@requires
        len > 0, ops_nooverflow(old(self).ops@), offset + len <= u64::MAX,
//@ensures
        final(self).block_size == old(self).block_size, final(self).source_size == old(self).source_size,
        final(self).basis_size == old(self).basis_size, final(self).checksum == old(self).checksum,
        ops_nooverflow(final(self).ops@),
        (ops_ok(old(self).ops@, old(self).basis_size as int) && offset + len <= old(self).basis_size) ==> ops_ok(final(self).ops@, final(self).basis_size as int),
        lit(final(self).ops@) == lit(old(self).ops@),
        cpy(final(self).ops@) == cpy(old(self).ops@) + len,
        // whole-view: the meaning of the ENTIRE program grows by exactly the copied range (merging must not change it)
        forall|basis: Seq<u8>| (ops_ok(old(self).ops@, basis.len() as int) && offset + len <= basis.len()) ==>
            #[trigger] out(final(self).ops@, basis) == out(old(self).ops@, basis) + basis.subrange(offset as int, offset + len),
//@at entry
        let ghost ops0 = self.ops@;
//@at before /return;/
                    proof {
                        let n = ops0.len() as int;
                        let po = ops0[n - 1]->Copy_offset; let pl = ops0[n - 1]->Copy_len;
                        assert(self.ops@ =~= ops0.drop_last().push(DeltaOp::Copy { offset: po, len: new_len }));
                        assert(self.ops@.drop_last() =~= ops0.drop_last());
                        assert forall|basis: Seq<u8>| (ops_ok(ops0, basis.len() as int) && offset + len <= basis.len()) implies
                            #[trigger] out(self.ops@, basis) == out(ops0, basis) + basis.subrange(offset as int, offset + len) by {
                            assert(op_ok(ops0[n - 1], basis.len() as int));
                            assert(basis.subrange(po as int, po + new_len) =~= basis.subrange(po as int, po + pl) + basis.subrange(offset as int, offset + len));
                        }
                    }
//@at end
        proof { assert(self.ops@.drop_last() =~= ops0); }
//@end
//@extract file=src/delta.rs impl="Delta" fn=push_literal
//@ensures
        final(self).block_size == old(self).block_size, final(self).source_size == old(self).source_size,
        final(self).basis_size == old(self).basis_size, final(self).checksum == old(self).checksum,
        ops_nooverflow(old(self).ops@) ==> ops_nooverflow(final(self).ops@),
        ops_ok(old(self).ops@, old(self).basis_size as int) ==> ops_ok(final(self).ops@, final(self).basis_size as int),
        lit(final(self).ops@) == lit(old(self).ops@) + data@.len(),
        cpy(final(self).ops@) == cpy(old(self).ops@),
        forall|basis: Seq<u8>| #[trigger] out(final(self).ops@, basis) == out(old(self).ops@, basis) + data@,
//@at entry
        let ghost ops0 = self.ops@;
//@at before /return;/ #0
            proof { assert forall|basis: Seq<u8>| #[trigger] out(ops0, basis) == out(ops0, basis) + data@ by { assert(out(ops0, basis) + data@ =~= out(ops0, basis)); } }
//@at before /return;/ #1
            proof {
                let n = ops0.len() as int;
                assert(self.ops@.drop_last() =~= ops0.drop_last());
                assert forall|basis: Seq<u8>| #[trigger] out(self.ops@, basis) == out(ops0, basis) + data@ by {
                    assert(out(ops0.drop_last(), basis) + (ops0[n - 1]->Literal_0@ + data@) =~= out(ops0, basis) + data@);
                }
            }
//@at end
        proof { assert(self.ops@.drop_last() =~= ops0); }
//@end
//@extract file=src/delta.rs impl="Delta" fn=push_literal_byte
//@ensures
        final(self).block_size == old(self).block_size, final(self).source_size == old(self).source_size,
        final(self).basis_size == old(self).basis_size, final(self).checksum == old(self).checksum,
        ops_nooverflow(old(self).ops@) ==> ops_nooverflow(final(self).ops@),
        ops_ok(old(self).ops@, old(self).basis_size as int) ==> ops_ok(final(self).ops@, final(self).basis_size as int),
        lit(final(self).ops@) == lit(old(self).ops@) + 1,
        cpy(final(self).ops@) == cpy(old(self).ops@),
        forall|basis: Seq<u8>| #[trigger] out(final(self).ops@, basis) == out(old(self).ops@, basis).push(byte),
//@at entry
        let ghost ops0 = self.ops@;
//@at before /return;/
            proof {
                let n = ops0.len() as int;
                assert(self.ops@.drop_last() =~= ops0.drop_last());
                assert forall|basis: Seq<u8>| #[trigger] out(self.ops@, basis) == out(ops0, basis).push(byte) by {
                    assert(out(ops0.drop_last(), basis) + ops0[n - 1]->Literal_0@.push(byte) =~= out(ops0, basis).push(byte));
                }
            }
//@at end
        proof {
            assert(self.ops@.drop_last() =~= ops0);
            assert forall|basis: Seq<u8>| #[trigger] out(self.ops@, basis) == out(ops0, basis).push(byte) by {
                assert(out(ops0, basis) + seq![byte] =~= out(ops0, basis).push(byte));
            }
        }
//@end
//@extract file=src/delta.rs impl="Delta" fn=validate
//@ret res
//@ensures
        // Ok  <=>  every Copy lies inside the DECLARED basis size (no overflow: saturating_add)
        res is Ok <==> valid_ops(self.ops@, self.basis_size),
//@loop 0 iter it
//@loop 0 invariant
            it.seq().len() == self.ops@.len(), forall|k: int| 0 <= k < it.seq().len() ==> *(#[trigger] it.seq()[k]) == self.ops@[k],
            forall|k: int| 0 <= k < it.index() ==> copy_in(#[trigger] self.ops@[k], self.basis_size),
//@at loop 0 entry
            assert(*op == self.ops@[it.index() as int]);
//@end
//@extract file=src/delta.rs impl="Delta" fn=is_empty
//@ret r
//@ensures
        r == (self.ops@.len() == 0),
//@end
    // iterator sums (.iter().map(..).sum()): outside Verus' reach, assumed (A); used only by assertions / the size check
    #[verifier::external_body]
    pub fn expected_output_size(&self) -> (r: u64)
        requires total_len(self.ops@) <= u64::MAX
        ensures r == total_len(self.ops@)
    { unimplemented!() }
}
