// ---- src/bin/copia/hub.rs hub_sync (C13, client side of one run) ----
//@item file=src/bin/copia/reconcile.rs kind=enum name=FileType
//@item file=src/bin/copia/reconcile.rs kind=struct name=Fingerprint
//@item file=src/bin/copia/wire.rs kind=type name=Hash
pub type FpMap = BTreeMap<PathBuf, Fingerprint>;
pub struct VErr { _p: () }      // R11: Box<dyn std::error::Error> => opaque error channel
impl From<std::io::Error> for VErr { #[verifier::external_body] fn from(e: std::io::Error) -> Self { VErr { _p: () } } }
#[verifier::external_body] pub fn string_into_verr(s: String) -> (r: VErr) { unimplemented!() }

// the requests one client run puts on its connection, in order, with what the hub answered (ghost, R7)
pub enum Req {
    List(Map<String, Fingerprint>),
    Put { path: Seq<char>, expected: Option<Hash>, local: PathV, hash: Hash, committed: bool },
    Bye,
}
pub struct ReqLog { pub reqs: Seq<Req> }
pub open spec fn mk_put(path: Seq<char>, expected: Option<Hash>, local: PathV, hash: Hash, committed: bool) -> Req { Req::Put { path, expected, local, hash, committed } }

// HubClient BY CONTRACT (A): a child process plus buffered pipes (std::process is outside the verifier's reach). Each method
// sends exactly the request it is named after; `put` also streams the file. Validated on the real binary by the twin.
#[verifier::external_body] pub struct HubClient { _p: () }
impl HubClient {
    #[verifier::external_body]
    pub fn connect(target: &str, Tracked(log): Tracked<&mut ReqLog>) -> (r: std::io::Result<HubClient>)
        ensures final(log).reqs == old(log).reqs,
    { unimplemented!() }
    #[verifier::external_body]
    pub fn list(&mut self, Tracked(log): Tracked<&mut ReqLog>) -> (r: std::io::Result<BTreeMap<String, Fingerprint>>)
        ensures r is Ok ==> final(log).reqs == old(log).reqs.push(Req::List(r->Ok_0@)), r is Err ==> final(log).reqs == old(log).reqs,
    { unimplemented!() }
    #[verifier::external_body]
    pub fn put(&mut self, rel: &str, expected: Option<Hash>, local: &Path, hash: Hash, Tracked(log): Tracked<&mut ReqLog>) -> (r: std::io::Result<bool>)
        ensures r is Ok ==> final(log).reqs == old(log).reqs.push(mk_put(rel@, expected, pv(local), hash, r->Ok_0)),
            // an I/O error may have cut the request anywhere: at most this one Put was (partly) sent, and nothing is known about its fate
            r is Err ==> final(log).reqs == old(log).reqs || exists|c: bool| final(log).reqs == old(log).reqs.push(#[trigger] mk_put(rel@, expected, pv(local), hash, c)),
    { unimplemented!() }
    #[verifier::external_body]
    pub fn bye(self, Tracked(log): Tracked<&mut ReqLog>)
        ensures final(log).reqs == old(log).reqs.push(Req::Bye),
    { unimplemented!() }
}
// meta::discover_local_fingerprints BY CONTRACT: the fingerprints of the regular files under root (a function of the tree)
pub uninterp spec fn fps_of(root: PathV) -> Map<PathBuf, Fingerprint>;
#[verifier::external_body]
pub fn discover_local_fingerprints(root: &Path) -> (r: std::result::Result<FpMap, VErr>)
    ensures r is Ok ==> r->Ok_0@ == fps_of(pv(root)) && r->Ok_0@.dom().finite(),
{ unimplemented!() }
// R5 shims: `rel.to_string_lossy().into_owned()` and `hub.get(&rel_s).map(|f| f.blake3)`
pub uninterp spec fn lossy(p: PathBuf) -> Seq<char>;
#[verifier::external_body] pub fn to_lossy_string(p: &PathBuf) -> (r: String) ensures r@ == lossy(*p) { unimplemented!() }
pub open spec fn listed(hub: Map<String, Fingerprint>, name: Seq<char>) -> Option<Hash> {
    if exists|k: String| hub.contains_key(k) && k@ == name { Some(hub[choose|k: String| hub.contains_key(k) && k@ == name].blake3) } else { None }
}
#[verifier::external_body]
pub fn listed_hash(hub: &BTreeMap<String, Fingerprint>, name: &String) -> (r: Option<Hash>) ensures r == listed(hub@, name@) { unimplemented!() }

// facts vstd gives about BTreeMap::iter()'s ghost sequence, packaged as one predicate
pub open spec fn iter_facts(m: Map<PathBuf, Fingerprint>, s: Seq<(&PathBuf, &Fingerprint)>) -> bool {
    &&& s.len() == m.len()
    &&& s.no_duplicates()
    &&& forall|i: int| 0 <= i < s.len() ==> m.contains_key(*(#[trigger] s[i]).0) && m[*s[i].0] == *s[i].1
    &&& forall|k: PathBuf| m.contains_key(k) ==> exists|i: int| 0 <= i < s.len() && *(#[trigger] s[i]).0 == k
}
// what one run may and must send for the local file p, given the listing it obtained
pub open spec fn up_to_date(hl: Map<String, Fingerprint>, l: Map<PathBuf, Fingerprint>, p: PathBuf) -> bool { listed(hl, lossy(p)) == Some(l[p].blake3) }
pub open spec fn put_of(e: Req, hl: Map<String, Fingerprint>, l: Map<PathBuf, Fingerprint>, root: PathV, p: PathBuf) -> bool {
    e is Put && l.contains_key(p) && !up_to_date(hl, l, p) && e->path == lossy(p) && e->expected == listed(hl, lossy(p))
        && e->hash == l[p].blake3 && e->local == joinv(root, pbv(&p))
}

// the entry is a Put this run is entitled to send
pub open spec fn justified(e: Req, hl: Map<String, Fingerprint>, l: Map<PathBuf, Fingerprint>, root: PathV) -> bool { exists|p: PathBuf| put_of(e, hl, l, root, p) }
// the needed Put for p is in the log (after position n0)
pub open spec fn was_put(reqs: Seq<Req>, n0: int, hl: Map<String, Fingerprint>, l: Map<PathBuf, Fingerprint>, root: PathV, p: PathBuf, need_commit: bool) -> bool {
    exists|i: int| n0 < i < reqs.len() && put_of(#[trigger] reqs[i], hl, l, root, p) && (need_commit ==> reqs[i]->committed)
}
//@extract file=src/bin/copia/hub.rs fn=hub_sync
//@sig /Box<dyn std::error::Error>/ => VErr
//@ret res
//@param+
    Tracked(log): Tracked<&mut ReqLog>
//@requires
    fps_of(pv(local_root)).dom().finite() ==> fps_of(pv(local_root)).len() < u64::MAX,
//@ensures
    // the run's requests: nothing before the listing; after it only compare-and-swap Puts, each for a local file whose
    // listed hash differs, carrying that listed hash as `expected` and the local hash as content hash; never a Delete;
    // a file the hub already has is not sent
    final(log).reqs.len() >= old(log).reqs.len(),
    forall|i: int| 0 <= i < old(log).reqs.len() ==> #[trigger] final(log).reqs[i] == old(log).reqs[i],
    final(log).reqs.len() > old(log).reqs.len() ==> final(log).reqs[old(log).reqs.len() as int] is List && ({
        let n0 = old(log).reqs.len() as int; let hl = final(log).reqs[n0]->List_0; let l = fps_of(pv(local_root));
        &&& forall|i: int| n0 < i < final(log).reqs.len() ==> (#[trigger] final(log).reqs[i]) is Bye || justified(final(log).reqs[i], hl, l, pv(local_root))
        // success: every local file the hub did not already have was Put and the hub COMMITTED it
        &&& res is Ok ==> forall|p: PathBuf| #[trigger] l.contains_key(p) && !up_to_date(hl, l, p) ==> was_put(final(log).reqs, n0, hl, l, pv(local_root), p, true)
    }),
//@replace /HubClient::connect\(target\)/ => HubClient::connect(target, Tracked(log))
//@replace /client\.list\(\)/ => client.list(Tracked(log)) #all
//@replace? /client\.put\(((?:[^()]|\([^()]*\))*)\)/ => client.put(\1, Tracked(log)) #all
//@replace? /client\.bye\(\)/ => client.bye(Tracked(log)) #all
//@replace /rel\.to_string_lossy\(\)\.into_owned\(\)/ => to_lossy_string(rel)
//@replace /hub\.get\(&rel_s\)\.map\(\|f\| f\.blake3\)/ => listed_hash(&hub, &rel_s)
//@replace /for \(rel, fp\) in &local(?= \{)/ => for (rel, fp) in it: local.iter()
//@replace /(?s)Err\(format!\("\{conflicts\} CAS conflict\(s\) — re-run to reconcile"\)\.into\(\)\)/ => Err(string_into_verr(vfmt()))
//@at entry
    broadcast use group_btree_axioms, ax_pathbuf_keys, asp_path, asp_pathbuf;
    let ghost log0 = log.reqs;
//@at before /let \(mut sent, mut skipped, mut conflicts\)/
    let ghost n0 = log0.len() as int;
    let ghost hl = hub@;
    let ghost l = local@;
    let ghost mut seen: Set<PathBuf> = Set::empty();
    proof { assert(log.reqs == log0.push(Req::List(hl))); }
//@loop 0 invariant
        log0 == old(log).reqs, n0 == log0.len(), hl == hub@, l == local@, l == fps_of(pv(local_root)), l.dom().finite(), l.len() < u64::MAX,
        iter_facts(local@, it.seq()),
        forall|x: PathBuf| seen.contains(x) <==> (exists|i: int| 0 <= i < it.index() && *(#[trigger] it.seq()[i]).0 == x),
        seen.finite(), seen.len() == it.index(), sent + skipped + conflicts == it.index(),
        log.reqs.len() > n0, log.reqs[n0] == Req::List(hl),
        forall|i: int| 0 <= i < n0 ==> #[trigger] log.reqs[i] == log0[i],
        forall|i: int| n0 < i < log.reqs.len() ==> justified(#[trigger] log.reqs[i], hl, l, pv(local_root)),
        // every local file seen so far is up to date, or was Put; and conflicts counts the Puts the hub did not commit
        forall|p: PathBuf| #[trigger] seen.contains(p) && !up_to_date(hl, l, p) ==> was_put(log.reqs, n0, hl, l, pv(local_root), p, conflicts == 0),
        (it.index() == it.seq().len()) ==> seen =~= l.dom(),
//@at loop 0 entry
        broadcast use group_btree_axioms, ax_pathbuf_keys, asp_path, asp_pathbuf;
        let ghost seen0 = seen;
        let ghost reqs0 = log.reqs;
        proof {
            let i0 = it.index() as int;
            assert(l.contains_key(*rel) && l[*rel] == *fp);
            assert(!seen.contains(*rel)) by {
                if seen.contains(*rel) {
                    let j = choose|j: int| 0 <= j < i0 && *(#[trigger] it.seq()[j]).0 == *rel;
                    assert(local@[*it.seq()[j].0] == *it.seq()[j].1);
                    assert(it.seq()[j] == it.seq()[i0]);
                }
            }
            seen = seen.insert(*rel);
            assert forall|x: PathBuf| seen.contains(x) <==> (exists|i: int| 0 <= i < i0 + 1 && *(#[trigger] it.seq()[i]).0 == x) by {
                if seen0.contains(x) { let j = choose|j: int| 0 <= j < i0 && *(#[trigger] it.seq()[j]).0 == x; assert(0 <= j < i0 + 1 && *it.seq()[j].0 == x); }
                if x == *rel { assert(*it.seq()[i0].0 == x); }
            }
            assert(i0 + 1 == it.seq().len() ==> seen =~= l.dom()) by {
                if i0 + 1 == it.seq().len() {
                    assert forall|k: PathBuf| l.dom().contains(k) implies seen.contains(k) by {
                        let i = choose|i: int| 0 <= i < it.seq().len() && *(#[trigger] it.seq()[i]).0 == k;
                    }
                }
            }
            assert(it.seq().len() == l.len());
        }
//@at after /skipped \+= 1;/
            proof {
                assert(log.reqs == reqs0);
                assert(up_to_date(hl, l, *rel));
                assert forall|p: PathBuf| #[trigger] seen.contains(p) && !up_to_date(hl, l, p) implies was_put(log.reqs, n0, hl, l, pv(local_root), p, conflicts == 0) by { assert(seen0.contains(p)); }
            }
//@at before /let committed = client\.put/
        proof {
            assert forall|c: bool| put_of(#[trigger] mk_put(rel_s@, expected, joinv(pv(local_root), pbv(rel)), fp.blake3, c), hl, l, pv(local_root), *rel) by { }
        }
        let ghost conflicts0 = conflicts;
//@at loop 0 end
        proof {
            let k = reqs0.len() as int;
            assert(log.reqs == reqs0.push(mk_put(rel_s@, expected, joinv(pv(local_root), pbv(rel)), fp.blake3, committed)));
            assert(put_of(log.reqs[k], hl, l, pv(local_root), *rel));
            assert forall|i: int| n0 < i < log.reqs.len() implies justified(#[trigger] log.reqs[i], hl, l, pv(local_root)) by {
                if i < k { assert(log.reqs[i] == reqs0[i]); }
            }
            assert forall|p: PathBuf| #[trigger] seen.contains(p) && !up_to_date(hl, l, p) implies was_put(log.reqs, n0, hl, l, pv(local_root), p, conflicts == 0) by {
                if p == *rel {
                    assert(n0 < k < log.reqs.len() && put_of(log.reqs[k], hl, l, pv(local_root), p) && (conflicts == 0 ==> log.reqs[k]->committed));
                } else {
                    assert(seen0.contains(p));
                    assert(was_put(reqs0, n0, hl, l, pv(local_root), p, conflicts0 == 0));
                    let i = choose|i: int| n0 < i < reqs0.len() && put_of(#[trigger] reqs0[i], hl, l, pv(local_root), p) && (conflicts0 == 0 ==> reqs0[i]->committed);
                    assert(log.reqs[i] == reqs0[i]);
                    assert(n0 < i < log.reqs.len() && put_of(log.reqs[i], hl, l, pv(local_root), p) && (conflicts == 0 ==> log.reqs[i]->committed));
                }
            }
        }
//@at after loop 0
    proof { assert(seen =~= l.dom()); }
    let ghost reqs1 = log.reqs;
//@at? after /client\.bye\(\);/
    proof {
        let m = reqs1.len() as int;
        assert(log.reqs.len() == m + 1 || log.reqs == reqs1);        // `bye` pushed one entry (or the call was removed)
        assert forall|i: int| n0 < i < log.reqs.len() implies (#[trigger] log.reqs[i]) is Bye || justified(log.reqs[i], hl, l, pv(local_root)) by {
            if i < m { assert(log.reqs[i] == reqs1[i]); }
        }
        if conflicts == 0 {
            assert forall|p: PathBuf| #[trigger] l.contains_key(p) && !up_to_date(hl, l, p) implies was_put(log.reqs, n0, hl, l, pv(local_root), p, true) by {
                assert(seen.contains(p));
                assert(was_put(reqs1, n0, hl, l, pv(local_root), p, true));
                let i = choose|i: int| n0 < i < reqs1.len() && put_of(#[trigger] reqs1[i], hl, l, pv(local_root), p) && reqs1[i]->committed;
                assert(log.reqs[i] == reqs1[i]);
            }
        }
        assert(log.reqs[n0] == Req::List(hl));
    }
//@end
