// ---- the two rolling-checksum types, function text extracted from src/checksum.rs ----
//@item file=src/checksum.rs kind=struct name=RollingChecksum

impl RollingChecksum {
//@item file=src/checksum.rs kind=const name=MOD impl="RollingChecksum"

    // representation invariant, tied to the ghost window w (C17)
    pub closed spec fn wf(&self, w: Seq<u8>) -> bool {
        &&& self.a as nat == sa(w) % 65521
        &&& self.b as nat == sb(w) % 65521
        &&& self.count == w.len()
    }
    proof fn lemma_wf_bounds(&self, w: Seq<u8>)
        requires self.wf(w)
        ensures self.a < 65521, self.b < 65521, self.count == w.len()
    { }

//@extract file=src/checksum.rs impl="RollingChecksum" fn=new
//@ret r
//@ensures
        r.wf(data@),
//@loop 0 invariant
            __k0 <= data@.len(), len == data@.len(),
            a as nat == sa(data@.take(__k0 as int)) % 65521,
            b as nat == sbw(data@, len as nat, __k0 as nat) % 65521,
//@loop 0 decreases
            data@.len() - __k0
//@at loop 0 entry
            proof {
                lemma_sbw_step(data@, len as nat, __k0 as nat);
                lemma_mod_shift(sa(data@.take(__k0 as int)) as int, data@[__k0 as int] as int, 65521);
                lemma_step_mod(sbw(data@, len as nat, __k0 as nat) as int, (len - __k0) as int, data@[__k0 as int] as int, 65521);
                lemma_mod_pos_bound((len - __k0) as int, 65521);
                assert((((len - __k0) as int) % 65521) * (data@[__k0 as int] as int) <= 65520 * 255) by(nonlinear_arith)
                    requires 0 <= ((len - __k0) as int) % 65521 <= 65520, 0 <= data@[__k0 as int] as int <= 255;
                assert(0 <= (((len - __k0) as int) % 65521) * (data@[__k0 as int] as int)) by(nonlinear_arith)
                    requires 0 <= ((len - __k0) as int) % 65521 <= 65520, 0 <= data@[__k0 as int] as int <= 255;
            }
//@at after loop 0
        proof {
            assert(data@.take(len as int) =~= data@);
            lemma_sbw_full(data@);
        }
//@end

//@extract file=src/checksum.rs impl="RollingChecksum" fn=empty
//@ret r
//@ensures
        r.wf(Seq::<u8>::empty()),
//@end

//@extract file=src/checksum.rs impl="RollingChecksum" fn=roll
//@requires
        exists|w: Seq<u8>| #[trigger] old(self).wf(w) && 0 < w.len() && w[0] == old_byte,
//@ensures
        forall|w: Seq<u8>| #[trigger] old(self).wf(w) && 0 < w.len() && w[0] == old_byte ==> final(self).wf(w.skip(1).push(new_byte)),
//@at entry
        let ghost s0 = *self;
        proof {
            lemma_mod_pos_bound(s0.count as int, 65521);
            assert(((s0.count as int) % 65521) * (old_byte as int) <= 65520 * 255) by(nonlinear_arith)
                requires 0 <= (s0.count as int) % 65521 <= 65520, 0 <= old_byte as int <= 255;
            assert(0 <= ((s0.count as int) % 65521) * (old_byte as int)) by(nonlinear_arith)
                requires 0 <= (s0.count as int) % 65521 <= 65520, 0 <= old_byte as int <= 255;
        }
//@at end
        proof {
            assert forall|w: Seq<u8>| #[trigger] s0.wf(w) && 0 < w.len() && w[0] == old_byte implies self.wf(w.skip(1).push(new_byte)) by {
                lemma_roll(w, new_byte);
                lemma_roll_mod(sa(w) as int, sb(w) as int, old_byte as int, new_byte as int, w.len() as int, (s0.count as int) % 65521);
            }
        }
//@end

//@extract file=src/checksum.rs impl="RollingChecksum" fn=push
//@requires
        exists|w: Seq<u8>| #[trigger] old(self).wf(w) && w.len() < usize::MAX,
//@ensures
        forall|w: Seq<u8>| #[trigger] old(self).wf(w) ==> final(self).wf(w.push(byte)),
//@at entry
        let ghost s0 = *self;
//@at end
        proof {
            assert forall|w: Seq<u8>| #[trigger] s0.wf(w) implies self.wf(w.push(byte)) by {
                lemma_push(w, byte);
                lemma_mod_shift(sa(w) as int, byte as int, 65521);
                lemma_mod_shift(sb(w) as int, (sa(w) + byte as nat) as int, 65521);
                lemma_add_mod_noop(sb(w) as int, (sa(w) + byte as nat) as int, 65521);
            }
        }
//@end

//@extract file=src/checksum.rs impl="RollingChecksum" fn=digest
//@ret r
//@ensures
        forall|w: Seq<u8>| #[trigger] self.wf(w) ==> r == dig(w),
//@end

//@extract file=src/checksum.rs impl="RollingChecksum" fn=len
//@ret r
//@ensures
        forall|w: Seq<u8>| #[trigger] self.wf(w) ==> r == w.len(),
//@end

//@extract file=src/checksum.rs impl="RollingChecksum" fn=is_empty
//@ret r
//@ensures
        forall|w: Seq<u8>| #[trigger] self.wf(w) ==> r == (w.len() == 0),
//@end

//@extract file=src/checksum.rs impl="RollingChecksum" fn=sum_a
//@ret r
//@ensures
        forall|w: Seq<u8>| #[trigger] self.wf(w) ==> r < 65521 && r as nat == sa(w) % 65521,
//@end

//@extract file=src/checksum.rs impl="RollingChecksum" fn=sum_b
//@ret r
//@ensures
        forall|w: Seq<u8>| #[trigger] self.wf(w) ==> r < 65521 && r as nat == sb(w) % 65521,
//@end
}

//@item file=src/checksum.rs kind=struct name=FastRollingChecksum

impl FastRollingChecksum {
//@item file=src/checksum.rs kind=const name=MOD impl="FastRollingChecksum"
//@item file=src/checksum.rs kind=const name=NORMALIZE_INTERVAL impl="FastRollingChecksum"

    pub closed spec fn wf(&self, w: Seq<u8>) -> bool {
        &&& self.a as int % 65521 == sa(w) as int % 65521
        &&& self.b as int % 65521 == sb(w) as int % 65521
        &&& self.count == w.len()
        &&& self.rolls < 5000
        &&& (self.a as int) < 65521 + self.rolls * ASTEP()
        &&& (self.b as int) < 65521 + self.rolls * BSTEP()
    }

//@extract file=src/checksum.rs impl="FastRollingChecksum" fn=new
//@ret r
//@requires
        data@.len() <= CMAX(),
//@ensures
        r.wf(data@),
//@loop 0 invariant
            __k0 <= data@.len(), len == data@.len(), len <= CMAX(),
            a as nat == sa(data@.take(__k0 as int)),
            b as nat == sbw(data@, len as nat, __k0 as nat),
//@loop 0 decreases
            data@.len() - __k0
//@at loop 0 entry
            proof {
                lemma_sbw_step(data@, len as nat, __k0 as nat);
                lemma_sa_bound(data@.take(__k0 + 1));
                lemma_sbw_bound(data@, len as nat, (__k0 + 1) as nat);
                assert(255 * (len as nat) * ((__k0 + 1) as nat) <= 255 * 0x100_0000 * 0x100_0000) by(nonlinear_arith)
                    requires len <= 0x100_0000, __k0 + 1 <= 0x100_0000;
                assert(((len - __k0) as int) * (data@[__k0 as int] as int) <= 0x100_0000 * 255) by(nonlinear_arith)
                    requires 0 <= len - __k0 <= 0x100_0000, 0 <= data@[__k0 as int] as int <= 255;
            }
//@at after loop 0
        proof {
            assert(data@.take(len as int) =~= data@);
            lemma_sbw_full(data@);
            lemma_mod_twice(sa(data@) as int, 65521);
            lemma_mod_twice(sb(data@) as int, 65521);
            lemma_mod_pos_bound(sa(data@) as int, 65521);
            lemma_mod_pos_bound(sb(data@) as int, 65521);
        }
//@end

//@extract file=src/checksum.rs impl="FastRollingChecksum" fn=empty
//@ret r
//@ensures
        r.wf(Seq::<u8>::empty()),
//@end

//@extract file=src/checksum.rs impl="FastRollingChecksum" fn=roll
//@requires
        exists|w: Seq<u8>| #[trigger] old(self).wf(w) && 0 < w.len() <= CMAX() && w[0] == old_byte,
//@ensures
        forall|w: Seq<u8>| #[trigger] old(self).wf(w) && 0 < w.len() <= CMAX() && w[0] == old_byte ==> final(self).wf(w.skip(1).push(new_byte)),
//@at entry
        let ghost s0 = *self;
        proof {
            let r = self.rolls as int;
            assert(r * ASTEP() <= 4999 * ASTEP()) by(nonlinear_arith) requires 0 <= r <= 4999;
            assert(r * BSTEP() <= 4999 * BSTEP()) by(nonlinear_arith) requires 0 <= r <= 4999;
            let c = self.count as int;
            assert(65521 * c <= 65521 * 0x100_0000) by(nonlinear_arith) requires 0 <= c <= 0x100_0000;
            assert(c * (old_byte as int) <= 65521 * c) by(nonlinear_arith) requires 0 <= c, 0 <= old_byte as int <= 255;
            assert(0 <= c * (old_byte as int)) by(nonlinear_arith) requires 0 <= c, 0 <= old_byte as int <= 255;
        }
//@at end
        proof {
            assert forall|w: Seq<u8>| #[trigger] s0.wf(w) && 0 < w.len() <= CMAX() && w[0] == old_byte implies self.wf(w.skip(1).push(new_byte)) by {
                lemma_roll(w, new_byte);
                let v = w.skip(1).push(new_byte);
                let m = 65521int; let c = w.len() as int; let o = old_byte as int; let n = new_byte as int;
                let a0 = s0.a as int; let b0 = s0.b as int;
                let a1 = a0 + m + n - o;
                let b1 = b0 + m * c + a1 - c * o;
                lemma_mod_add_multiples_vanish(a0 + n - o, m);
                assert(a1 == m + (a0 + n - o));
                lemma_add_mod_noop(a0, n - o, m);
                lemma_add_mod_noop(sa(w) as int, n - o, m);
                assert(a1 % m == (sa(v) as int) % m);
                lemma_mod_multiples_vanish(c, b0 + a1 - c * o, m);
                assert(b1 == m * c + (b0 + a1 - c * o));
                lemma_add_mod_noop(b0, a1 - c * o, m);
                lemma_add_mod_noop(sb(w) as int, a1 - c * o, m);
                lemma_add_mod_noop(sb(w) as int - c * o, a1, m);
                lemma_add_mod_noop(sb(w) as int - c * o, sa(v) as int, m);
                assert(b1 % m == (sb(v) as int) % m);
                let r1: int = s0.rolls as int + 1;
                assert(r1 * ASTEP() == s0.rolls * ASTEP() + ASTEP()) by(nonlinear_arith) requires r1 == s0.rolls + 1;
                assert(r1 * BSTEP() == s0.rolls * BSTEP() + BSTEP()) by(nonlinear_arith) requires r1 == s0.rolls + 1;
                assert(m * c <= m * 0x100_0000) by(nonlinear_arith) requires 0 <= c <= 0x100_0000, m == 65521;
                assert(0 <= c * o) by(nonlinear_arith) requires 0 <= c, 0 <= o;
                if r1 >= 5000int {
                    lemma_mod_twice(a1, m); lemma_mod_twice(b1, m);
                    lemma_mod_pos_bound(a1, m); lemma_mod_pos_bound(b1, m);
                }
            }
        }
//@end

//@extract file=src/checksum.rs impl="FastRollingChecksum" fn=push
//@requires
        exists|w: Seq<u8>| #[trigger] old(self).wf(w) && w.len() < usize::MAX,
//@ensures
        forall|w: Seq<u8>| #[trigger] old(self).wf(w) ==> final(self).wf(w.push(byte)),
//@at entry
        let ghost s0 = *self;
        proof {
            let r = self.rolls as int;
            assert(r * ASTEP() <= 4999 * ASTEP()) by(nonlinear_arith) requires 0 <= r <= 4999;
            assert(r * BSTEP() <= 4999 * BSTEP()) by(nonlinear_arith) requires 0 <= r <= 4999;
        }
//@at end
        proof {
            assert forall|w: Seq<u8>| #[trigger] s0.wf(w) implies self.wf(w.push(byte)) by {
                lemma_push(w, byte);
                let m = 65521int;
                let a0 = s0.a as int; let b0 = s0.b as int; let x = byte as int;
                let a1 = a0 + x; let b1 = b0 + a1;
                lemma_add_mod_noop(a0, x, m);
                lemma_add_mod_noop(sa(w) as int, x, m);
                lemma_add_mod_noop(b0, a1, m);
                lemma_add_mod_noop(sb(w) as int, a1, m);
                lemma_add_mod_noop(sb(w) as int, sa(w) as int + x, m);
                let r1: int = s0.rolls as int + 1;
                assert(r1 * ASTEP() == s0.rolls * ASTEP() + ASTEP()) by(nonlinear_arith) requires r1 == s0.rolls + 1;
                assert(r1 * BSTEP() == s0.rolls * BSTEP() + BSTEP()) by(nonlinear_arith) requires r1 == s0.rolls + 1;
                if r1 >= 5000int {
                    lemma_mod_twice(a1, m); lemma_mod_twice(b1, m);
                    lemma_mod_pos_bound(a1, m); lemma_mod_pos_bound(b1, m);
                }
            }
        }
//@end

//@extract file=src/checksum.rs impl="FastRollingChecksum" fn=digest
//@ret r
//@ensures
        forall|w: Seq<u8>| #[trigger] self.wf(w) ==> r == dig(w),
//@end

//@extract file=src/checksum.rs impl="FastRollingChecksum" fn=len
//@ret r
//@ensures
        forall|w: Seq<u8>| #[trigger] self.wf(w) ==> r == w.len(),
//@end

//@extract file=src/checksum.rs impl="FastRollingChecksum" fn=is_empty
//@ret r
//@ensures
        forall|w: Seq<u8>| #[trigger] self.wf(w) ==> r == (w.len() == 0),
//@end
}

// C17: "digest reached by any sequence of operations == digest of direct construction == the formula,
// and the same for both types" is the consequence of the representation invariants:
proof fn lemma_c17_digests_agree(r: RollingChecksum, f: FastRollingChecksum, r2: RollingChecksum, w: Seq<u8>)
    requires r.wf(w), f.wf(w), r2.wf(w)
    ensures r.a == r2.a, r.b == r2.b, r.count == r2.count
{ }
