// ---- src/bin/copia/incremental.rs + dir_sync.rs against the one-way world (C09) ----
// dir_sync::transfer_file_from_remote BY CONTRACT (A): it spawns `ssh host cat path` and streams its stdout into
// `local_path` (tokio process + async I/O are outside the verifier's reach). What its callers rely on, and what the crash
// oracle validates on the real binary: it writes NON-atomically to `local_path` and nowhere else - so it demands a staging
// name - and it returns Ok only when the remote `cat` reported success, i.e. the file holds the complete remote content.
#[verifier::external_body]
pub fn transfer_file_from_remote(host: &str, remote_path: &str, local_path: &Path, Tracked(w): Tracked<&mut World>) -> (r: Result<u64, String>)
    requires is_staging(pv(local_path)),
    ensures
        same_except(final(w).files, old(w).files, set![pv(local_path)]),
        forall|i: int| old(w).log.len() <= i < final(w).log.len() ==> #[trigger] final(w).log[i] == Eff::Write(pv(local_path)),
        old(w).log.len() <= final(w).log.len(), forall|i: int| 0 <= i < old(w).log.len() ==> #[trigger] final(w).log[i] == old(w).log[i],
        r is Ok ==> final(w).files.contains_key(pv(local_path))
            && final(w).files[pv(local_path)].bytes == remote_content(host@, remote_path@) && final(w).files[pv(local_path)].whole,
        r is Err ==> (final(w).files.contains_key(pv(local_path)) ==> !final(w).files[pv(local_path)].whole),
{ unimplemented!() }

// the effects a delivery may add to the log: non-atomic writes on the staging sibling only, ONE rename staging -> dst,
// a touch of dst. Never an unlink, never a write on a live name: so every prefix of the log (every kill point) leaves
// each live path with its old complete bytes or the new complete bytes.
pub open spec fn delivery_effect(e: Eff, tmp: PathV, dst: PathV) -> bool {
    e == Eff::Write(tmp) || e == Eff::Rename(tmp, dst) || e == Eff::Touch(dst)
}
pub open spec fn delivery_log(new: Seq<Eff>, old: Seq<Eff>, tmp: PathV, dst: PathV) -> bool {
    old.len() <= new.len() && (forall|i: int| 0 <= i < old.len() ==> #[trigger] new[i] == old[i])
        && forall|i: int| old.len() <= i < new.len() ==> delivery_effect(#[trigger] new[i], tmp, dst)
}
// dst afterwards: untouched, or exactly `content`; everything but dst and its staging sibling is unchanged
pub open spec fn delivered_or_untouched(new: Map<PathV, FileS>, old: Map<PathV, FileS>, tmp: PathV, dst: PathV, content: Seq<u8>) -> bool {
    &&& same_except(new, old, set![tmp, dst])
    &&& (old.contains_key(dst) ==> new.contains_key(dst))
    &&& (new.contains_key(dst) ==> (old.contains_key(dst) && new[dst].bytes == old[dst].bytes) || new[dst].bytes == content)
}

//@extract file=src/bin/copia/meta.rs fn=set_local_mtime
//@ret r
//@param+
    Tracked(w): Tracked<&mut World>
//@ensures
    // C14: on success the file's whole-second mtime is max(secs, 0) and no byte of any file changed
    final(w).log == old(w).log || final(w).log == old(w).log.push(Eff::Touch(pv(path))),
    r is Ok ==> old(w).files.contains_key(pv(path)) && final(w).files == old(w).files.insert(pv(path),
        FileS { bytes: old(w).files[pv(path)].bytes, whole: old(w).files[pv(path)].whole, mtime: clamp0(secs as int) }),
    r is Err ==> final(w).files == old(w).files,
    (io_ok() && old(w).files.contains_key(pv(path))) ==> r is Ok,
//@replace /UNIX_EPOCH \+ Duration::from_secs\(/ => epoch_plus_secs(
//@replace? /u64::try_from\(((?:[^()]|\([^()]*\))*)\)/ => u64_try_from_i64(\1) #all
//@replace? /secs\.max\(0\)/ => i64_max(secs, 0) #all
//@replace /(?s)std::fs::File::options\(\)\s*\.write\(true\)\s*\.open\(path\)\?\s*\.set_modified\(t\)/ => vfs_set_modified(path, t, Tracked(w))
//@end

//@extract file=src/bin/copia/incremental.rs fn=tmp_path
//@ret r
//@ensures
    pbv(&r) == pv(dst) + TMP(), is_staging(pbv(&r)), pbv(&r) != pv(dst),
//@at entry
    broadcast use asp_path, asp_pathbuf, asp_str;
//@at end
    proof { lemma_tmp_nonempty(); assert(osbv(&s) == pv(dst) + TMP()); assert((pv(dst) + TMP()).len() != pv(dst).len()); }
//@end

//@extract file=src/bin/copia/incremental.rs fn=deliver_local
//@sig /async fn/ => fn
//@replace /\.await/ =>  #all
//@ret res
//@param+
    Tracked(w): Tracked<&mut World>
//@requires
    !is_staging(pv(dst)), pv(src) != pv(dst) + TMP(),
//@ensures
    // C09, local->local: whatever happens - success, error, or a kill between any two effects
    delivery_log(final(w).log, old(w).log, pv(dst) + TMP(), pv(dst)),
    old(w).files.contains_key(pv(src)) ==> delivered_or_untouched(final(w).files, old(w).files, pv(dst) + TMP(), pv(dst), old(w).files[pv(src)].bytes),
    !old(w).files.contains_key(pv(src)) ==> same_except(final(w).files, old(w).files, set![pv(dst) + TMP()]),
    res is Ok ==> old(w).files.contains_key(pv(src)) && final(w).files.contains_key(pv(dst)) && final(w).files[pv(dst)].bytes == old(w).files[pv(src)].bytes,
    // C14: the delivered file carries the planned mtime (to the second), so the next run's quick check matches it
    (res is Ok && io_ok() && mtime is Some) ==> final(w).files[pv(dst)].mtime == clamp0(mtime->Some_0 as int),
//@replace? /tokio::fs::copy\(((?:[^()]|\([^()]*\))*)\)/ => vfs_copy(\1, Tracked(w)) #all
//@replace? /std::fs::copy\(((?:[^()]|\([^()]*\))*)\)/ => vfs_copy(\1, Tracked(w)) #all
//@replace? /tokio::fs::rename\(((?:[^()]|\([^()]*\))*)\)/ => vfs_rename(\1, Tracked(w)) #all
//@replace? /std::fs::rename\(((?:[^()]|\([^()]*\))*)\)/ => vfs_rename(\1, Tracked(w)) #all
//@replace? /set_local_mtime\(((?:[^()]|\([^()]*\))*)\)/ => set_local_mtime(\1, Tracked(w)) #all
//@replace? /\b(\w+)\.exists\(\)/ => vfs_exists(\1, Tracked(&*w)) #all
//@replace? /(?:std|tokio)::fs::remove_file\(((?:[^()]|\([^()]*\))*)\)/ => vfs_remove_file(\1, Tracked(w)) #all
//@at entry
    broadcast use asp_path, asp_pathbuf, asp_str;
    let ghost w0 = *w;
//@at end
    proof { assert(delivery_log(w.log, w0.log, pv(dst) + TMP(), pv(dst))); }
//@end

//@extract file=src/bin/copia/incremental.rs fn=deliver_pull
//@sig /async fn/ => fn
//@replace /\.await/ =>  #all
//@ret res
//@param+
    Tracked(w): Tracked<&mut World>
//@requires
    !is_staging(pv(local_dest)),
//@ensures
    // C09, pull: the same, with the complete remote file as the only new content that can appear
    delivery_log(final(w).log, old(w).log, pv(local_dest) + TMP(), pv(local_dest)),
    delivered_or_untouched(final(w).files, old(w).files, pv(local_dest) + TMP(), pv(local_dest), remote_content(host@, remote_file@)),
    res is Ok ==> final(w).files.contains_key(pv(local_dest)) && final(w).files[pv(local_dest)].bytes == remote_content(host@, remote_file@),
    (res is Ok && io_ok() && mtime is Some) ==> final(w).files[pv(local_dest)].mtime == clamp0(mtime->Some_0 as int),
//@replace? /transfer_file_from_remote\(((?:[^()]|\([^()]*\))*)\)/ => transfer_file_from_remote(\1, Tracked(w)) #all
//@replace? /tokio::fs::rename\(((?:[^()]|\([^()]*\))*)\)/ => vfs_rename(\1, Tracked(w)) #all
//@replace? /std::fs::rename\(((?:[^()]|\([^()]*\))*)\)/ => vfs_rename(\1, Tracked(w)) #all
//@replace? /tokio::fs::copy\(((?:[^()]|\([^()]*\))*)\)/ => vfs_copy(\1, Tracked(w)) #all
//@replace? /set_local_mtime\(((?:[^()]|\([^()]*\))*)\)/ => set_local_mtime(\1, Tracked(w)) #all
//@replace? /\b(\w+)\.exists\(\)/ => vfs_exists(\1, Tracked(&*w)) #all
//@replace? /(?:std|tokio)::fs::remove_file\(((?:[^()]|\([^()]*\))*)\)/ => vfs_remove_file(\1, Tracked(w)) #all
//@at entry
    broadcast use asp_path, asp_pathbuf, asp_str;
    let ghost w0 = *w;
//@at end
    proof { assert(delivery_log(w.log, w0.log, pv(local_dest) + TMP(), pv(local_dest))); }
//@end

// C14, per file: what the quick check (plan::needs_transfer, proved in unit `plan`: absent, or size differs, or mtime differs)
// says about a destination file that was delivered with the source's planned metadata
pub open spec fn quick_needs(src_size: int, src_mtime: int, dst: Option<FileS>) -> bool {
    dst is None || dst->Some_0.bytes.len() != src_size || dst->Some_0.mtime != src_mtime
}
pub proof fn lemma_delivered_is_skipped(src: FileS, dst: FileS, planned_mtime: int)
    requires dst.bytes == src.bytes, planned_mtime >= 0, dst.mtime == clamp0(planned_mtime),
    ensures !quick_needs(src.bytes.len() as int, planned_mtime, Some(dst)),
{ }
//@extract file=src/bin/copia/dir_sync.rs fn=create_local_dirs
//@sig /Box<dyn std::error::Error>/ => VErr
//@ret res
//@param+
    Tracked(w): Tracked<&mut World>
//@ensures
    // creating directories changes no file
    final(w).files == old(w).files,
    old(w).log.len() <= final(w).log.len() && forall|i: int| old(w).log.len() <= i < final(w).log.len() ==> #[trigger] final(w).log[i] is Mkdir,
    forall|i: int| 0 <= i < old(w).log.len() ==> #[trigger] final(w).log[i] == old(w).log[i],
//@at before-loop 0
    proof { assert(w.files == w0.files); }
//@replace? /std::fs::create_dir_all\(((?:[^()]|\([^()]*\))*)\)/ => vfs_create_dir_all(\1, Tracked(w)) #all
//@at entry
    let ghost w0 = *w;
//@loop 0 invariant
        w0 == *old(w), w.files == w0.files, w0.log.len() <= w.log.len(), forall|i: int| w0.log.len() <= i < w.log.len() ==> #[trigger] w.log[i] is Mkdir,
        forall|i: int| 0 <= i < w0.log.len() ==> #[trigger] w.log[i] == w0.log[i],
//@end
