//@extract file=src/bin/copia/main.rs fn=run_signature
//@sig /async fn/ => fn
//@sig /Box<dyn std::error::Error>/ => VErr
//@sig /Result<\(\)/ => std::result::Result<()
//@ret res
//@requires
    file_bytes(file).len() < 0xFFFF_FFFF * 512, file_bytes(file).len() < 0x7fff_ffff_ffff_ffff,    // block index < 2^32 (file < 2 TiB at the smallest block size)
//@replace /\.await/ =>  #all
//@replace /(?s)output\.unwrap_or_else\(\|\| \{.*?\n    \}\)/ => default_output(output, file)
//@replace /bincode::serialize\(&signature\)/ => bincode::serialize_sig(&signature)
//@end
//@extract file=src/bin/copia/main.rs fn=run_delta
//@sig /async fn/ => fn
//@sig /Box<dyn std::error::Error>/ => VErr
//@sig /Result<\(\)/ => std::result::Result<()
//@ret res
//@replace /\.await/ =>  #all
//@replace /(?s)output\.unwrap_or_else\(\|\| \{.*?\n    \}\)/ => default_output(output, source)
//@replace /let sig: copia::Signature = bincode::deserialize\(&sig_data\)/ => let sig: Signature = bincode::deserialize_sig(&sig_data)
//@replace /bincode::serialize\(&delta\)/ => bincode::serialize_delta(&delta)
//@replace /sync\.delta\(reader, &sig\)/ => sync.delta(reader, &sig, Ghost(Seq::empty()))
//@end
//@extract file=src/bin/copia/main.rs fn=run_patch
//@sig /async fn/ => fn
//@sig /Box<dyn std::error::Error>/ => VErr
//@sig /Result<\(\)/ => std::result::Result<()
//@ret res
//@param+
    Tracked(sink): Tracked<&mut Sink>
//@requires
    old(sink).bytes.len() == 0,
//@ensures
    // C05 at the CLI: exit status 0 (Ok) only if the bytes written to the output file hash to the delta's checksum
    res is Ok ==> H(final(sink).bytes) == bincode::delta_file(file_bytes(delta)).checksum.bytes(),
//@replace /\.await/ =>  #all
//@replace /(?s)output\.unwrap_or_else\(\|\| \{.*?\n    \}\)/ => default_output(output, basis)
//@replace /let delta: copia::Delta = bincode::deserialize\(&delta_data\)/ => let delta: Delta = bincode::deserialize_delta(&delta_data)
//@replace /sync\.patch\(basis_file, &delta, output_file\)/ => sync.patch(basis_file, &delta, output_file, Tracked(sink), Ghost(file_bytes(basis)))
//@end
