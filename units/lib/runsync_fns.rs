// ---- the recursive one-way driver: incremental.rs run_local (C15 dry run / no delete without the flag; C04, C09 frame) ----
//@item file=src/bin/copia/incremental.rs kind=struct name=SyncOptions
#[verifier::external_body] pub struct TransferProgress { _p: () }
#[verifier::external_type_specification] #[verifier::external_body] pub struct ExInstant(std::time::Instant);
#[verifier::external_body] pub fn instant_now() -> std::time::Instant { std::time::Instant::now() }     // R5 shim for Instant::now()

// The tree scan BY CONTRACT (A): a function of the tree as it is (reads only - it gets the world token read-only), total or
// failing; no claim about WHAT it returns is needed below: the plan is defined over whatever the two scans returned.
pub uninterp spec fn scan_res(w: World, root: PathV) -> Option<Map<PathBuf, FileMeta>>;
pub open spec fn scan_or_empty(w: World, root: PathV) -> Map<PathBuf, FileMeta> { match scan_res(w, root) { Some(m) => m, None => Map::empty() } }
#[verifier::external_body]
pub fn discover_local_with_meta(root: &Path, Tracked(w): Tracked<&World>) -> (r: Result<MetaMap, VErr>)
    ensures (r is Ok) == (scan_res(*w, pv(root)) is Some), r is Ok ==> r->Ok_0@ == scan_res(*w, pv(root))->Some_0 && r->Ok_0@.len() < usize::MAX,
{ unimplemented!() }
// R5 shim for `<Result<MetaMap, _>>::unwrap_or_default()`
#[verifier::external_body]
pub fn meta_or_empty(r: Result<MetaMap, VErr>) -> (m: MetaMap) ensures m@ == (match r { Ok(x) => x@, Err(_) => Map::<PathBuf, FileMeta>::empty() }) { unimplemented!() }
#[verifier::external_body] pub fn collect_dirs(files: &Vec<PathBuf>) -> (r: Vec<PathBuf>) { unimplemented!() }       // transfer.rs, pure (A)
#[verifier::external_body]
pub fn report(start: Instant, progress: &TransferProgress, plan: &SyncPlan, src_desc: &String, dst_desc: &String, verbose: bool) -> (r: Result<(), VErr>) { unimplemented!() }   // prints; no file-system access (A)

// one effect / one path of the delivery of the k-th planned file
pub open spec fn is_delivery(e: Eff, dst: PathV, tr: Seq<PathBuf>, k: int) -> bool {
    0 <= k < tr.len() && delivery_effect(e, joinv(dst, pbv(&tr[k])) + TMP(), joinv(dst, pbv(&tr[k])))
}
pub open spec fn is_delivery_path(q: PathV, dst: PathV, tr: Seq<PathBuf>, k: int) -> bool {
    0 <= k < tr.len() && (q == joinv(dst, pbv(&tr[k])) || q == joinv(dst, pbv(&tr[k])) + TMP())
}
pub open spec fn log_extends(new: Seq<Eff>, old: Seq<Eff>) -> bool { old.len() <= new.len() && forall|i: int| 0 <= i < old.len() ==> #[trigger] new[i] == old[i] }
// ASSUMED (A) summary of run_local's orchestration region (`Semaphore`, `tokio::spawn(async move { deliver_local(&src.join(rel),
// &dst.join(rel), mtime) .. })` for every rel of plan.transfer, `join_handles`): each spawned task runs deliver_local once for
// its rel, and nothing else in the region touches the file system. Claimed is only what EVERY interleaving of those calls
// satisfies by deliver_local's PROVED contract (unit oneway): each new effect is a delivery effect of one planned rel, and no
// path other than <dst>/<rel> and its staging sibling changes. The precondition is deliver_local's, for every rel.
#[verifier::external_body]
pub fn run_deliveries_local(src: &Path, dst: &Path, plan: &SyncPlan, src_meta: &MetaMap, jobs: usize, Tracked(w): Tracked<&mut World>) -> (progress: TransferProgress)
    requires forall|k: int| 0 <= k < plan.transfer@.len() ==> !is_staging(joinv(pv(dst), pbv(#[trigger] &plan.transfer@[k]))),
    ensures log_extends(final(w).log, old(w).log),
        forall|i: int| old(w).log.len() <= i < final(w).log.len() ==> exists|k: int| is_delivery(#[trigger] final(w).log[i], pv(dst), plan.transfer@, k),
        forall|q: PathV| (forall|k: int| !is_delivery_path(q, pv(dst), plan.transfer@, k)) ==>
            (#[trigger] final(w).files.dom().contains(q)) == old(w).files.dom().contains(q) && (final(w).files.dom().contains(q) ==> final(w).files[q] == old(w).files[q]),
{ unimplemented!() }

// "belongs to the plan": the plan as the property defines it, over the two scans
pub open spec fn planned_send(e: Eff, dst: PathV, sm: Map<PathBuf, FileMeta>, dm: Map<PathBuf, FileMeta>, ex: Seq<String>, p: PathBuf) -> bool {
    want_transfer(sm, dm, ex, p) && delivery_effect(e, joinv(dst, pbv(&p)) + TMP(), joinv(dst, pbv(&p)))
}
pub open spec fn planned_del(e: Eff, dst: PathV, sm: Map<PathBuf, FileMeta>, dm: Map<PathBuf, FileMeta>, ex: Seq<String>, p: PathBuf) -> bool {
    want_delete(sm, dm, ex, p) && e == Eff::Unlink(joinv(dst, pbv(&p)))
}
pub open spec fn some_planned_del(e: Eff, dst: PathV, sm: Map<PathBuf, FileMeta>, dm: Map<PathBuf, FileMeta>, ex: Seq<String>) -> bool { exists|p: PathBuf| planned_del(e, dst, sm, dm, ex, p) }
pub open spec fn planned_eff(e: Eff, dst: PathV, sm: Map<PathBuf, FileMeta>, dm: Map<PathBuf, FileMeta>, ex: Seq<String>, del: bool) -> bool {
    e is Mkdir || (exists|p: PathBuf| planned_send(e, dst, sm, dm, ex, p)) || (del && some_planned_del(e, dst, sm, dm, ex))
}
pub open spec fn planned_path(q: PathV, dst: PathV, sm: Map<PathBuf, FileMeta>, dm: Map<PathBuf, FileMeta>, ex: Seq<String>, del: bool, p: PathBuf) -> bool {
    (want_transfer(sm, dm, ex, p) && (q == joinv(dst, pbv(&p)) || q == joinv(dst, pbv(&p)) + TMP())) || (del && want_delete(sm, dm, ex, p) && q == joinv(dst, pbv(&p)))
}

//@extract file=src/bin/copia/incremental.rs fn=print_plan
//@end

//@extract file=src/bin/copia/incremental.rs fn=run_local
//@sig /async fn/ => fn
//@sig /Box<dyn std::error::Error>/ => VErr
//@replace /\.await/ =>  #all
//@ret res
//@param+
    Tracked(w): Tracked<&mut World>
//@requires
    // domain (the properties exclude names ending in the reserved staging suffix): no scanned source path is a staging name
    forall|p: PathBuf| scan_or_empty(*old(w), pv(src)).contains_key(p) ==> !is_staging(joinv(pv(dst), #[trigger] pbv(&p))),
//@ensures
    log_extends(final(w).log, old(w).log),
    // C15: a dry run changes nothing at all
    opts.dry_run ==> final(w).files == old(w).files && final(w).log == old(w).log,
    // C04 / C19, --delete is carried out: after a successful real run (no I/O fault) no path the plan deletes is left - the
    // plan being the property's set definition over BOTH listings as they were scanned
    (res is Ok && io_ok() && opts.delete && !opts.dry_run) ==> forall|p: PathBuf| want_delete(scan_or_empty(*old(w), pv(src)), scan_or_empty(*old(w), pv(dst)), opts.excludes@, p)
        ==> !final(w).files.contains_key(joinv(pv(dst), #[trigger] pbv(&p))),
    // C04 / C09: every effect of the run is a directory creation, a delivery effect of a path the plan sends, or - only with
    // --delete - the unlink of a path the plan deletes; the plan being the property's own set definition over the two scans
    forall|i: int| old(w).log.len() <= i < final(w).log.len() ==> planned_eff(#[trigger] final(w).log[i], pv(dst),
        scan_or_empty(*old(w), pv(src)), scan_or_empty(*old(w), pv(dst)), opts.excludes@, opts.delete),
    // C15: without --delete nothing is removed
    !opts.delete ==> forall|i: int| old(w).log.len() <= i < final(w).log.len() ==> !((#[trigger] final(w).log[i]) is Unlink),
    // frame: a path that belongs to no planned action is unchanged
    forall|q: PathV| (forall|p: PathBuf| !planned_path(q, pv(dst), scan_or_empty(*old(w), pv(src)), scan_or_empty(*old(w), pv(dst)), opts.excludes@, opts.delete, p)) ==>
        (#[trigger] final(w).files.dom().contains(q)) == old(w).files.dom().contains(q) && (final(w).files.dom().contains(q) ==> final(w).files[q].bytes == old(w).files[q].bytes),
//@replace /Instant::now\(\)/ => instant_now()
//@replace? /discover_local_with_meta\((\w+)\)\.unwrap_or_default\(\)/ => meta_or_empty(discover_local_with_meta(\1, Tracked(&*w))) #all
//@replace? /discover_local_with_meta\((\w+)\)\?/ => discover_local_with_meta(\1, Tracked(&*w))? #all
//@replace? /create_local_dirs\(((?:[^()]|\([^()]*\))*)\)/ => create_local_dirs(\1, Tracked(w)) #all
//@replace /(?s)let semaphore = Arc::new\(Semaphore::new\(opts\.jobs\)\);.*?join_handles\(handles\)\.await;/ => let progress = run_deliveries_local(src, dst, &plan, &src_meta, opts.jobs, Tracked(w));
//@replace? /(?:std|tokio)::fs::remove_file\(((?:[^()]|\([^()]*\))*)\)/ => vfs_remove_file(\1, Tracked(w)) #all
//@replace? /for rel in &plan\.delete(?= \{)/ => for rel in it: plan.delete.iter() #all
//@replace? /&(\w+)\.display\(\)\.to_string\(\)/ => &vfmt() #all
//@at entry
    broadcast use asp_path, asp_pathbuf, asp_pathbuf_val;
    let ghost w0 = *w;
    let ghost sm = scan_or_empty(w0, pv(src)); let ghost dm = scan_or_empty(w0, pv(dst));
    let ghost ex = opts.excludes@; let ghost dv = pv(dst);
//@at? before /if plan\.transfer\.is_empty\(\) && plan\.delete\.is_empty\(\)/
    proof {
        assert(src_meta@ == sm && dst_meta@ == dm);
        if opts.delete && plan.delete@.len() == 0 { assert forall|p: PathBuf| !want_delete(sm, dm, ex, p) by { if want_delete(sm, dm, ex, p) { assert(plan.delete@.contains(p)); } } }
    }
//@at? before /create_local_dirs\(/
    proof {
        assert(src_meta@ == sm && dst_meta@ == dm);
        assert forall|k: int| 0 <= k < plan.transfer@.len() implies !is_staging(joinv(dv, pbv(#[trigger] &plan.transfer@[k]))) by {
            let p = plan.transfer@[k]; assert(plan.transfer@.contains(p)); assert(want_transfer(sm, dm, ex, p));
        }
    }
//@at? after /create_local_dirs\(.*?\)\?;/
    let ghost w1 = *w;
//@at? before /if !plan\.delete\.is_empty\(\)/
    let ghost w2 = *w;
    proof {
        assert forall|i: int| w0.log.len() <= i < w2.log.len() implies planned_eff(#[trigger] w2.log[i], dv, sm, dm, ex, opts.delete) && !(w2.log[i] is Unlink) by {
            if i >= w1.log.len() {
                let k = choose|k: int| is_delivery(w2.log[i], dv, plan.transfer@, k);
                let p = plan.transfer@[k]; assert(plan.transfer@.contains(p));
                assert(planned_send(w2.log[i], dv, sm, dm, ex, p));
            } else { assert(w2.log[i] == w1.log[i]); }
        }
        assert forall|q: PathV| (forall|p: PathBuf| !planned_path(q, dv, sm, dm, ex, opts.delete, p)) implies
            (#[trigger] w2.files.dom().contains(q)) == w0.files.dom().contains(q) && (w2.files.dom().contains(q) ==> w2.files[q] == w0.files[q]) by {
            assert forall|k: int| !is_delivery_path(q, dv, plan.transfer@, k) by {
                if is_delivery_path(q, dv, plan.transfer@, k) { let p = plan.transfer@[k]; assert(plan.transfer@.contains(p)); assert(planned_path(q, dv, sm, dm, ex, opts.delete, p)); }
            }
        }
    }
//@loop? /for rel in &plan\.delete/ invariant
            it.seq().len() == plan.delete@.len(), forall|k: int| 0 <= k < it.seq().len() ==> *(#[trigger] it.seq()[k]) == plan.delete@[k],
            dv == pv(dst), opts.delete, plan.delete@.len() > 0,
            forall|p: PathBuf| plan.delete@.contains(p) <==> want_delete(sm, dm, ex, p),
            log_extends(w.log, w2.log),
            io_ok() ==> forall|j: int| 0 <= j < it.index() ==> !w.files.contains_key(joinv(dv, pbv(#[trigger] &plan.delete@[j]))),
            forall|i: int| w2.log.len() <= i < w.log.len() ==> some_planned_del(#[trigger] w.log[i], dv, sm, dm, ex),
            forall|q: PathV| (forall|p: PathBuf| !(want_delete(sm, dm, ex, p) && q == joinv(dv, pbv(&p)))) ==>
                (#[trigger] w.files.dom().contains(q)) == w2.files.dom().contains(q) && (w.files.dom().contains(q) ==> w.files[q] == w2.files[q]),
//@at? loop /for rel in &plan\.delete/ entry
            broadcast use asp_path, asp_pathbuf, asp_pathbuf_val;
            let ghost wl = *w;
            proof { let p = plan.delete@[it.index() as int]; assert(*rel == p); assert(plan.delete@.contains(p)); assert(want_delete(sm, dm, ex, p)); }
//@at? loop /for rel in &plan\.delete/ end
            proof {
                let p = plan.delete@[it.index() as int];
                assert(w.log == wl.log || w.log == wl.log.push(Eff::Unlink(joinv(dv, pbv(rel)))));
                assert(w.files == wl.files || w.files == wl.files.remove(joinv(dv, pbv(rel))));
                if io_ok() {
                    let i0 = it.index() as int;
                    assert(!w.files.contains_key(joinv(dv, pbv(rel))));
                    assert forall|j: int| 0 <= j < i0 + 1 implies !w.files.contains_key(joinv(dv, pbv(#[trigger] &plan.delete@[j]))) by {
                        if j < i0 { assert(!wl.files.contains_key(joinv(dv, pbv(&plan.delete@[j])))); }
                    }
                }
                assert forall|i: int| w2.log.len() <= i < w.log.len() implies some_planned_del(#[trigger] w.log[i], dv, sm, dm, ex) by {
                    if i >= wl.log.len() { assert(planned_del(w.log[i], dv, sm, dm, ex, p)); } else { assert(w.log[i] == wl.log[i]); }
                }
            }
//@at end
    proof {
        if io_ok() && opts.delete {
            assert forall|p: PathBuf| want_delete(sm, dm, ex, p) implies !w.files.contains_key(joinv(dv, #[trigger] pbv(&p))) by {
                assert(plan.delete@.contains(p));
                let j = choose|j: int| 0 <= j < plan.delete@.len() && plan.delete@[j] == p;
                assert(!w.files.contains_key(joinv(dv, pbv(&plan.delete@[j]))));
            }
        }
        assert forall|i: int| w0.log.len() <= i < w.log.len() implies planned_eff(#[trigger] w.log[i], dv, sm, dm, ex, opts.delete) by {
            if i < w2.log.len() { assert(w.log[i] == w2.log[i]); }
        }
        assert forall|q: PathV| (forall|p: PathBuf| !planned_path(q, dv, sm, dm, ex, opts.delete, p)) implies
            (#[trigger] w.files.dom().contains(q)) == w0.files.dom().contains(q) && (w.files.dom().contains(q) ==> w.files[q].bytes == w0.files[q].bytes) by {
            assert(w2.files.dom().contains(q) == w0.files.dom().contains(q));
            if opts.delete {
                assert forall|p: PathBuf| !(want_delete(sm, dm, ex, p) && q == joinv(dv, pbv(&p))) by { assert(!planned_path(q, dv, sm, dm, ex, opts.delete, p)); }
            }
        }
    }
//@end

// ---- run_remote: the same driver with one remote end (push / pull through ssh) ----
// The remote listing BY CONTRACT (A): `ssh host find ...` parsed by parse_remote_meta_output; read-only, so it is not an entry of
// the (mutating) remote command log. Total or failing; nothing about its content is needed below.
pub uninterp spec fn rscan_res(host: Seq<char>, root: Seq<char>) -> Option<Map<PathBuf, FileMeta>>;
pub open spec fn rscan_or_empty(host: Seq<char>, root: Seq<char>) -> Map<PathBuf, FileMeta> { match rscan_res(host, root) { Some(m) => m, None => Map::empty() } }
#[verifier::external_body]
pub fn discover_remote_with_meta(host: &str, remote_root: &str) -> (r: Result<MetaMap, VErr>)
    ensures (r is Ok) == (rscan_res(host@, remote_root@) is Some), r is Ok ==> r->Ok_0@ == rscan_res(host@, remote_root@)->Some_0 && r->Ok_0@.len() < usize::MAX,
{ unimplemented!() }
pub open spec fn is_remote_delivery(c: RemoteCmd, host: Seq<char>, root: Seq<char>, tr: Seq<PathBuf>, k: int) -> bool {
    0 <= k < tr.len() && c == RemoteCmd::Deliver { host, path: entry(root, tr[k]) }
}
pub open spec fn cmds_extend(new: Seq<RemoteCmd>, old: Seq<RemoteCmd>) -> bool { old.len() <= new.len() && forall|i: int| 0 <= i < old.len() ==> #[trigger] new[i] == old[i] }
// ASSUMED (A) summary of run_remote's orchestration region, as for run_local: each spawned task runs, for its rel of plan.transfer,
// transfer_file_to_remote(<local_root>/<rel>, host, "<remote_root>/<rel>", mtime) (push: ONE remote delivery command for that path,
// no local effect) or deliver_pull(host, "<remote_root>/<rel>", <local_root>/<rel>, mtime) (pull: deliver_pull's PROVED contract,
// no mutating remote command); nothing else in the region touches either side.
#[verifier::external_body]
pub fn run_deliveries_remote(dir: Dir, host: &str, remote_root: &str, local_root: &Path, plan: &SyncPlan, src_meta: &MetaMap, jobs: usize,
    Tracked(w): Tracked<&mut World>, Tracked(rl): Tracked<&mut RemoteLog>) -> (progress: TransferProgress)
    requires dir is Pull ==> forall|k: int| 0 <= k < plan.transfer@.len() ==> !is_staging(joinv(pv(local_root), pbv(#[trigger] &plan.transfer@[k]))),
    ensures log_extends(final(w).log, old(w).log), cmds_extend(final(rl).cmds, old(rl).cmds),
        dir is Push ==> final(w).files == old(w).files && final(w).log == old(w).log
            && forall|i: int| old(rl).cmds.len() <= i < final(rl).cmds.len() ==> exists|k: int| is_remote_delivery(#[trigger] final(rl).cmds[i], host@, remote_root@, plan.transfer@, k),
        dir is Pull ==> final(rl).cmds == old(rl).cmds
            && (forall|i: int| old(w).log.len() <= i < final(w).log.len() ==> exists|k: int| is_delivery(#[trigger] final(w).log[i], pv(local_root), plan.transfer@, k))
            && (forall|q: PathV| (forall|k: int| !is_delivery_path(q, pv(local_root), plan.transfer@, k)) ==>
                (#[trigger] final(w).files.dom().contains(q)) == old(w).files.dom().contains(q) && (final(w).files.dom().contains(q) ==> final(w).files[q] == old(w).files[q])),
{ unimplemented!() }

// "belongs to the plan", remote side: a directory creation, the delivery of ONE path the plan sends, or - only with --delete - ONE
// removal command whose arguments are paths the plan deletes, each <remote_root>/<rel>
pub open spec fn planned_rsend(c: RemoteCmd, host: Seq<char>, root: Seq<char>, sm: Map<PathBuf, FileMeta>, dm: Map<PathBuf, FileMeta>, ex: Seq<String>, p: PathBuf) -> bool {
    want_transfer(sm, dm, ex, p) && c == RemoteCmd::Deliver { host, path: entry(root, p) }
}
pub open spec fn all_planned_dels(paths: Seq<Seq<char>>, root: Seq<char>, sm: Map<PathBuf, FileMeta>, dm: Map<PathBuf, FileMeta>, ex: Seq<String>, ps: Seq<PathBuf>) -> bool {
    paths == entries(root, ps) && forall|j: int| 0 <= j < ps.len() ==> want_delete(sm, dm, ex, #[trigger] ps[j])
}
pub open spec fn planned_cmd(c: RemoteCmd, host: Seq<char>, root: Seq<char>, sm: Map<PathBuf, FileMeta>, dm: Map<PathBuf, FileMeta>, ex: Seq<String>, del: bool) -> bool {
    (c is Mkdir && c->Mkdir_host == host) || (exists|p: PathBuf| planned_rsend(c, host, root, sm, dm, ex, p))
    || (del && c is Rm && c->Rm_host == host && exists|ps: Seq<PathBuf>| all_planned_dels(c->Rm_paths, root, sm, dm, ex, ps))
}
// the removal command of a plan: ONE Rm whose arguments are <root>/p for exactly the paths p the plan deletes
pub open spec fn rm_of_plan(c: RemoteCmd, host: Seq<char>, root: Seq<char>, sm: Map<PathBuf, FileMeta>, dm: Map<PathBuf, FileMeta>, ex: Seq<String>) -> bool {
    exists|ps: Seq<PathBuf>| c == (RemoteCmd::Rm { host, paths: #[trigger] entries(root, ps) }) && forall|p: PathBuf| ps.contains(p) <==> want_delete(sm, dm, ex, p)
}
pub open spec fn src_scan(dir: Dir, w: World, host: Seq<char>, root: Seq<char>, local: PathV) -> Map<PathBuf, FileMeta> { if dir is Push { scan_or_empty(w, local) } else { rscan_or_empty(host, root) } }
pub open spec fn dst_scan(dir: Dir, w: World, host: Seq<char>, root: Seq<char>, local: PathV) -> Map<PathBuf, FileMeta> { if dir is Push { rscan_or_empty(host, root) } else { scan_or_empty(w, local) } }

//@extract file=src/bin/copia/incremental.rs fn=run_remote
//@sig /async fn/ => fn
//@sig /Box<dyn std::error::Error>/ => VErr
//@replace /\.await/ =>  #all
//@ret res
//@param+
    Tracked(w): Tracked<&mut World>, Tracked(rl): Tracked<&mut RemoteLog>
//@requires
    free_of(remote_root@, '\0'), free_of(remote_root@, '\n'),      // a command-line argument
    // domain: no path of the remote listing is a reserved staging name (pull writes <local_root>/<rel>)
    dir is Pull ==> forall|p: PathBuf| rscan_or_empty(host@, remote_root@).contains_key(p) ==> !is_staging(joinv(pv(local_root), #[trigger] pbv(&p))),
//@ensures
    log_extends(final(w).log, old(w).log), cmds_extend(final(rl).cmds, old(rl).cmds),
    // C15: a dry run changes nothing on either side (no local effect, no mutating remote command)
    opts.dry_run ==> final(w).files == old(w).files && final(w).log == old(w).log && final(rl).cmds == old(rl).cmds,
    // push never touches the local tree, pull never sends a mutating command
    dir is Push ==> final(w).files == old(w).files && final(w).log == old(w).log,
    dir is Pull ==> final(rl).cmds == old(rl).cmds,
    // C04 / C09: every local effect and every remote command belongs to the plan (the property's set definition over the two listings)
    forall|i: int| old(w).log.len() <= i < final(w).log.len() ==> planned_eff(#[trigger] final(w).log[i], pv(local_root),
        src_scan(dir, *old(w), host@, remote_root@, pv(local_root)), dst_scan(dir, *old(w), host@, remote_root@, pv(local_root)), opts.excludes@, opts.delete),
    forall|i: int| old(rl).cmds.len() <= i < final(rl).cmds.len() ==> planned_cmd(#[trigger] final(rl).cmds[i], host@, remote_root@,
        src_scan(dir, *old(w), host@, remote_root@, pv(local_root)), dst_scan(dir, *old(w), host@, remote_root@, pv(local_root)), opts.excludes@, opts.delete),
    // C04 / C19, --delete is carried out. pull: after a successful real run (no I/O fault) no local path the plan deletes is left;
    // push: if the plan deletes anything, the run has sent the ONE removal command, for exactly the plan's delete set
    (res is Ok && io_ok() && opts.delete && !opts.dry_run && dir is Pull) ==> forall|p: PathBuf| want_delete(src_scan(dir, *old(w), host@, remote_root@, pv(local_root)),
        dst_scan(dir, *old(w), host@, remote_root@, pv(local_root)), opts.excludes@, p) ==> !final(w).files.contains_key(joinv(pv(local_root), #[trigger] pbv(&p))),
    (res is Ok && opts.delete && !opts.dry_run && dir is Push && exists|p: PathBuf| want_delete(src_scan(dir, *old(w), host@, remote_root@, pv(local_root)),
        dst_scan(dir, *old(w), host@, remote_root@, pv(local_root)), opts.excludes@, p)) ==> exists|i: int| old(rl).cmds.len() <= i < final(rl).cmds.len() && rm_of_plan(#[trigger] final(rl).cmds[i], host@, remote_root@,
            src_scan(dir, *old(w), host@, remote_root@, pv(local_root)), dst_scan(dir, *old(w), host@, remote_root@, pv(local_root)), opts.excludes@),
    // C15: without --delete nothing is removed, here or there
    !opts.delete ==> (forall|i: int| old(w).log.len() <= i < final(w).log.len() ==> !((#[trigger] final(w).log[i]) is Unlink))
        && (forall|i: int| old(rl).cmds.len() <= i < final(rl).cmds.len() ==> !((#[trigger] final(rl).cmds[i]) is Rm)),
//@replace /Instant::now\(\)/ => instant_now()
//@replace? /discover_local_with_meta\((\w+)\)\.unwrap_or_default\(\)/ => meta_or_empty(discover_local_with_meta(\1, Tracked(&*w))) #all
//@replace? /discover_local_with_meta\((\w+)\)\?/ => discover_local_with_meta(\1, Tracked(&*w))? #all
//@replace? /(?s)discover_remote_with_meta\(host, remote_root\)\s*\.await\s*\.unwrap_or_default\(\)/ => meta_or_empty(discover_remote_with_meta(host, remote_root)) #all
//@replace? /create_local_dirs\(((?:[^()]|\([^()]*\))*)\)/ => create_local_dirs(\1, Tracked(w)) #all
//@replace? /create_remote_dirs\(((?:[^()]|\([^()]*\))*)\)/ => create_remote_dirs(\1, Tracked(rl)) #all
//@replace? /apply_remote_deletes\(((?:[^()]|\([^()]*\))*)\)/ => apply_remote_deletes(\1, Tracked(w), Tracked(rl)) #all
//@replace /(?s)let semaphore = Arc::new\(Semaphore::new\(opts\.jobs\)\);.*?join_handles\(handles\)\.await;/ => let progress = run_deliveries_remote(dir, host, remote_root, local_root, &plan, &src_meta, opts.jobs, Tracked(w), Tracked(rl));
//@replace? /(\w+)\.display\(\)\.to_string\(\)/ => vfmt() #all
//@at entry
    broadcast use asp_path, asp_pathbuf, asp_pathbuf_val;
    let ghost w0 = *w; let ghost rl0 = *rl;
    let ghost sm = src_scan(dir, w0, host@, remote_root@, pv(local_root)); let ghost dm = dst_scan(dir, w0, host@, remote_root@, pv(local_root));
    let ghost ex = opts.excludes@; let ghost lv = pv(local_root);
    let ghost hv = host@; let ghost rv = remote_root@;
//@at? before /if plan\.transfer\.is_empty\(\) && plan\.delete\.is_empty\(\)/
    proof {
        assert(src_meta@ == sm && dst_meta@ == dm);
        if opts.delete && plan.delete@.len() == 0 { assert forall|p: PathBuf| !want_delete(sm, dm, ex, p) by { if want_delete(sm, dm, ex, p) { assert(plan.delete@.contains(p)); } } }
    }
//@at? before /let dirs = collect_dirs\(/
    proof {
        assert(src_meta@ == sm && dst_meta@ == dm);
        assert(*w == w0 && *rl == rl0);
        if dir is Pull {
            assert forall|k: int| 0 <= k < plan.transfer@.len() implies !is_staging(joinv(lv, pbv(#[trigger] &plan.transfer@[k]))) by {
                let p = plan.transfer@[k]; assert(plan.transfer@.contains(p)); assert(want_transfer(sm, dm, ex, p));
            }
        }
    }
//@at? before /let semaphore = Arc::new/
    let ghost w1 = *w; let ghost rl1 = *rl;
    proof {
        assert forall|i: int| rl0.cmds.len() <= i < rl1.cmds.len() implies planned_cmd(#[trigger] rl1.cmds[i], hv, rv, sm, dm, ex, opts.delete) && !(rl1.cmds[i] is Rm) by { }
    }
//@at? before /if !plan\.delete\.is_empty\(\)/
    let ghost w2 = *w; let ghost rl2 = *rl;
    proof {
        assert forall|i: int| w0.log.len() <= i < w2.log.len() implies planned_eff(#[trigger] w2.log[i], lv, sm, dm, ex, opts.delete) && !(w2.log[i] is Unlink) by {
            if i >= w1.log.len() {
                let k = choose|k: int| is_delivery(w2.log[i], lv, plan.transfer@, k);
                let p = plan.transfer@[k]; assert(plan.transfer@.contains(p));
                assert(planned_send(w2.log[i], lv, sm, dm, ex, p));
            } else { assert(w2.log[i] == w1.log[i]); }
        }
        assert forall|i: int| rl0.cmds.len() <= i < rl2.cmds.len() implies planned_cmd(#[trigger] rl2.cmds[i], hv, rv, sm, dm, ex, opts.delete) && !(rl2.cmds[i] is Rm) by {
            if i >= rl1.cmds.len() {
                let k = choose|k: int| is_remote_delivery(rl2.cmds[i], hv, rv, plan.transfer@, k);
                let p = plan.transfer@[k]; assert(plan.transfer@.contains(p));
                assert(planned_rsend(rl2.cmds[i], hv, rv, sm, dm, ex, p));
            } else { assert(rl2.cmds[i] == rl1.cmds[i]); }
        }
    }
//@at end
    proof {
        assert forall|i: int| w0.log.len() <= i < w.log.len() implies planned_eff(#[trigger] w.log[i], lv, sm, dm, ex, opts.delete) by {
            if i < w2.log.len() { assert(w.log[i] == w2.log[i]); }
            else {
                // an unlink applied by apply_remote_deletes (pull): one of plan.delete
                let j = choose|j: int| 0 <= j < plan.delete@.len() && w.log[i] == Eff::Unlink(joinv(lv, pbv(#[trigger] &plan.delete@[j])));
                let p = plan.delete@[j]; assert(plan.delete@.contains(p));
                assert(planned_del(w.log[i], lv, sm, dm, ex, p));
            }
        }
        if io_ok() && opts.delete && dir is Pull {
            assert forall|p: PathBuf| want_delete(sm, dm, ex, p) implies !w.files.contains_key(joinv(lv, #[trigger] pbv(&p))) by {
                assert(plan.delete@.contains(p));
                let j = choose|j: int| 0 <= j < plan.delete@.len() && plan.delete@[j] == p;
                assert(!w.files.contains_key(joinv(lv, pbv(&plan.delete@[j]))));
            }
        }
        if opts.delete && dir is Push && exists|p: PathBuf| want_delete(sm, dm, ex, p) {
            let p0 = choose|p: PathBuf| want_delete(sm, dm, ex, p);
            assert(plan.delete@.contains(p0));
            let i = rl.cmds.len() - 1;
            assert(rl.cmds[i] == RemoteCmd::Rm { host: hv, paths: entries(rv, plan.delete@) });
            assert(rm_of_plan(rl.cmds[i], hv, rv, sm, dm, ex));
        }
        assert forall|i: int| rl0.cmds.len() <= i < rl.cmds.len() implies planned_cmd(#[trigger] rl.cmds[i], hv, rv, sm, dm, ex, opts.delete) by {
            if i < rl2.cmds.len() { assert(rl.cmds[i] == rl2.cmds[i]); }
            else {
                assert(rl.cmds[i] == RemoteCmd::Rm { host: hv, paths: entries(rv, plan.delete@) });
                assert forall|j: int| 0 <= j < plan.delete@.len() implies want_delete(sm, dm, ex, #[trigger] plan.delete@[j]) by { assert(plan.delete@.contains(plan.delete@[j])); }
                assert(all_planned_dels(entries(rv, plan.delete@), rv, sm, dm, ex, plan.delete@));
                assert(opts.delete);
                assert(rl.cmds[i] is Rm && rl.cmds[i]->Rm_host == hv && rl.cmds[i]->Rm_paths == entries(rv, plan.delete@));
            }
        }
    }
//@end
