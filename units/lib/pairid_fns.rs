// ---- src/bin/copia/archive.rs root_pair_hash (C07: two different directory pairs never share an archive) ----
#[verifier::external_type_specification] #[verifier::external_body] pub struct ExPath(std::path::Path);
pub uninterp spec fn pv(p: &Path) -> Seq<u8>;
// canonical spelling of a directory (std::fs::canonicalize, or the path itself when that fails): some byte string
// without a NUL byte (a file name cannot contain one) - ASSUMED (A)
pub uninterp spec fn canonv(p: Seq<u8>) -> Seq<u8>;
pub open spec fn no_nul(s: Seq<u8>) -> bool { forall|i: int| 0 <= i < s.len() ==> #[trigger] s[i] != 0u8 }
pub uninterp spec fn hexs(s: Seq<u8>) -> Seq<char>;
// lower-case hex is injective (A)
pub broadcast axiom fn ax_hex_inj(a: Seq<u8>, b: Seq<u8>) ensures #[trigger] hexs(a) == #[trigger] hexs(b) ==> a == b;
// R5 shims: `canon(p).as_os_str().as_encoded_bytes()` with the closure `canon`; the byte-string literal b"\0"; to_hex().to_string()
#[verifier::external_body] pub fn canon_bytes(p: &Path) -> (r: Vec<u8>) ensures r@ == canonv(pv(p)), no_nul(r@) { unimplemented!() }
#[verifier::external_body] pub fn nul_byte() -> (r: Vec<u8>) ensures r@ == seq![0u8] { unimplemented!() }
#[verifier::external_body] pub fn hex_string(h: &blake3::Hash) -> (r: String) ensures r@ == hexs(blake3::hash_view(h)) { unimplemented!() }

// the identifier: hex of BLAKE3 over canon(a) ++ NUL ++ canon(b)
pub open spec fn pair_id(a: Seq<u8>, b: Seq<u8>) -> Seq<char> { hexs(H(canonv(a) + seq![0u8] + canonv(b))) }

//@extract file=src/bin/copia/archive.rs fn=root_pair_hash
//@ret r
//@ensures
    r@ == pair_id(pv(a), pv(b)),
//@replace /let canon = \|p: &Path\| std::fs::canonicalize\(p\)\.unwrap_or_else\(\|_\| p\.to_path_buf\(\)\);/ => 
//@replace? /canon\((\w+)\)\.as_os_str\(\)\.as_encoded_bytes\(\)/ => canon_bytes(\1).as_slice() #all
//@replace? /b"\\0"/ => nul_byte().as_slice() #all
//@replace /h\.finalize\(\)\.to_hex\(\)\.to_string\(\)/ => hex_string(&h.finalize())
//@at end
    proof { assert(blake3::hasher_view(&h) =~= canonv(pv(a)) + seq![0u8] + canonv(pv(b))); }
//@end

// x ++ [0] ++ y determines x and y when x has no NUL
pub proof fn lemma_nul_split(x: Seq<u8>, y: Seq<u8>, x2: Seq<u8>, y2: Seq<u8>)
    requires no_nul(x), no_nul(x2), x + seq![0u8] + y == x2 + seq![0u8] + y2,
    ensures x == x2, y == y2,
{
    let l = x + seq![0u8] + y; let r = x2 + seq![0u8] + y2;
    if x.len() < x2.len() { assert(l[x.len() as int] == 0u8); assert(r[x.len() as int] == x2[x.len() as int]); assert(false); }
    if x2.len() < x.len() { assert(r[x2.len() as int] == 0u8); assert(l[x2.len() as int] == x[x2.len() as int]); assert(false); }
    assert(x =~= l.subrange(0, x.len() as int));
    assert(x2 =~= r.subrange(0, x.len() as int));
    assert(y =~= l.subrange(x.len() as int + 1, l.len() as int));
    assert(y2 =~= r.subrange(x.len() as int + 1, r.len() as int));
}
// C07: under "no BLAKE3 collision", two pairs with one identifier have the same canonical roots, in the same order
pub proof fn lemma_pair_id_injective(a: Seq<u8>, b: Seq<u8>, a2: Seq<u8>, b2: Seq<u8>)
    requires collision_free(), no_nul(canonv(a)), no_nul(canonv(a2)), pair_id(a, b) == pair_id(a2, b2),
    ensures canonv(a) == canonv(a2), canonv(b) == canonv(b2),
{
    broadcast use ax_hex_inj;
    assert(H(canonv(a) + seq![0u8] + canonv(b)) == H(canonv(a2) + seq![0u8] + canonv(b2)));
    lemma_nul_split(canonv(a), canonv(b), canonv(a2), canonv(b2));
}
