// ---- remote command lists (C04): incremental.rs apply_remote_deletes, transfer.rs create_remote_dirs ----
//@item file=src/bin/copia/incremental.rs kind=enum name=Dir

// what the remote end is asked to do (ghost log, R7). The remote shell itself is not Rust and has no contract: ASSUMED (A) is
// only how `xargs` cuts its input - at the delimiter its command line names - and that `rm -f --` / `mkdir -p` then act on
// exactly those arguments.
pub enum RemoteCmd { Rm { host: Seq<char>, paths: Seq<Seq<char>> }, Mkdir { host: Seq<char>, paths: Seq<Seq<char>> }, Garbled { host: Seq<char> },
    Deliver { host: Seq<char>, path: Seq<char> } }      // `cat > <path>.copia-tmp && [ size ] && mv` of ONE file (transfer_file_to_remote)
pub struct RemoteLog { pub cmds: Seq<RemoteCmd> }
pub open spec fn free_of(e: Seq<char>, d: char) -> bool { forall|i: int| 0 <= i < e.len() ==> #[trigger] e[i] != d }
pub open spec fn all_free(xs: Seq<Seq<char>>, d: char) -> bool { forall|i: int| 0 <= i < xs.len() ==> free_of(#[trigger] xs[i], d) }
// the text xargs reads: every entry followed by the delimiter
pub open spec fn enc(xs: Seq<Seq<char>>, d: char) -> Seq<char> decreases xs.len() {
    if xs.len() == 0 { Seq::empty() } else { enc(xs.drop_last(), d) + xs.last() + seq![d] }
}
pub open spec fn effect(rm: bool, host: Seq<char>, xs: Seq<Seq<char>>) -> RemoteCmd { if rm { RemoteCmd::Rm { host, paths: xs } } else { RemoteCmd::Mkdir { host, paths: xs } } }
// R5 shim for the statement(s) that spawn `ssh host "xargs <delimiter option> <rm -f -- | mkdir -p>"`, feed it the list and wait.
// The delimiter and the verb are read off the command string literal by the weaver's replacement rule.
#[verifier::external_body]
pub fn ssh_xargs(host: &str, delim: char, rm: bool, list: &String, Tracked(rl): Tracked<&mut RemoteLog>) -> (r: std::io::Result<()>)
    ensures final(rl).cmds.len() == old(rl).cmds.len() + 1, final(rl).cmds.drop_last() == old(rl).cmds,
        // if the text is the encoding of delimiter-free entries, exactly those entries are acted on; otherwise nothing is known
        forall|xs: Seq<Seq<char>>| all_free(xs, delim) && list@ == #[trigger] enc(xs, delim) ==> final(rl).cmds.last() == effect(rm, host@, xs),
{ unimplemented!() }
// R3' shims: `format!("{remote_root}<d>")` and `write!(list, "{}/{}<d>", remote_root, rel.display())` as concatenations
pub uninterp spec fn display(p: PathBuf) -> Seq<char>;
pub open spec fn entry(root: Seq<char>, p: PathBuf) -> Seq<char> { root + seq!['/'] + display(p) }
#[verifier::external_body] pub fn first_entry(root: &str, d: char) -> (r: String) ensures r@ == root@ + seq![d] { unimplemented!() }
#[verifier::external_body]
pub fn push_list_entry(list: &mut String, root: &str, p: &PathBuf, d: char) -> (is_err: bool)
    ensures !is_err, final(list)@ == old(list)@ + entry(root@, *p) + seq![d],
{ unimplemented!() }
// a file name never contains a NUL byte (OS rule, A); nothing of the kind holds for a newline
pub broadcast axiom fn ax_display_no_nul(p: PathBuf) ensures free_of(#[trigger] display(p), '\0');
pub open spec fn entries(root: Seq<char>, ps: Seq<PathBuf>) -> Seq<Seq<char>> { Seq::new(ps.len(), |i: int| entry(root, ps[i])) }
pub proof fn lemma_entry_free(root: Seq<char>, p: PathBuf, d: char)
    requires free_of(root, d), free_of(display(p), d), d != '/',
    ensures free_of(entry(root, p), d)
{ }
pub proof fn lemma_enc_push(xs: Seq<Seq<char>>, x: Seq<char>, d: char)
    ensures enc(xs.push(x), d) == enc(xs, d) + x + seq![d]
{ assert(xs.push(x).drop_last() =~= xs); }

pub open spec fn planned(root: PathV, dels: Seq<PathBuf>, n: int, q: PathV) -> bool { exists|i: int| 0 <= i < n && q == joinv(root, pbv(#[trigger] &dels[i])) }
pub open spec fn planned_unlink(e: Eff, root: PathV, dels: Seq<PathBuf>, n: int) -> bool { exists|i: int| 0 <= i < n && e == Eff::Unlink(joinv(root, pbv(#[trigger] &dels[i]))) }
pub open spec fn same_unless_planned(new: Map<PathV, FileS>, old: Map<PathV, FileS>, root: PathV, dels: Seq<PathBuf>, n: int) -> bool {
    forall|q: PathV| !planned(root, dels, n, q) ==> (#[trigger] new.dom().contains(q)) == old.dom().contains(q) && (new.dom().contains(q) ==> new[q].bytes == old[q].bytes)
}
//@extract file=src/bin/copia/incremental.rs fn=apply_remote_deletes
//@sig /async fn/ => fn
//@replace /\.await/ =>  #all
//@param+
    Tracked(w): Tracked<&mut World>, Tracked(rl): Tracked<&mut RemoteLog>
//@requires
    free_of(remote_root@, '\0'), free_of(remote_root@, '\n'),      // a command-line argument; the CLI splits host:path on ':' only
//@ensures
    // effects are only ever appended
    old(w).log.len() <= final(w).log.len(), forall|k: int| 0 <= k < old(w).log.len() ==> #[trigger] final(w).log[k] == old(w).log[k],
    // pull: only the planned paths are unlinked, nothing else changes, no remote command
    dir is Pull ==> final(rl).cmds == old(rl).cmds
        && same_unless_planned(final(w).files, old(w).files, pv(local_root), dels@, dels@.len() as int)
        && (forall|k: int| old(w).log.len() <= k < final(w).log.len() ==> planned_unlink(#[trigger] final(w).log[k], pv(local_root), dels@, dels@.len() as int))
        // ... and ALL of them: without an I/O fault every planned path is gone afterwards
        && (io_ok() ==> forall|i: int| 0 <= i < dels@.len() ==> !final(w).files.contains_key(joinv(pv(local_root), pbv(#[trigger] &dels@[i])))),
    // push: ONE remote command, which removes exactly <remote_root>/<rel> for the planned rel - nothing else, nothing relative
    dir is Push ==> final(w).files == old(w).files && final(w).log == old(w).log
        && final(rl).cmds == old(rl).cmds.push(RemoteCmd::Rm { host: host@, paths: entries(remote_root@, dels@) }),
//@replace? /std::fs::remove_file\(((?:[^()]|\([^()]*\))*)\)/ => vfs_remove_file(\1, Tracked(w)) #all
//@replace? /write!\(list, "\{\}\/\{\}\\0", remote_root, rel\.display\(\)\)/ => push_list_entry(&mut list, remote_root, rel, '\\0')
//@replace? /writeln!\(list, "\{\}\/\{\}", remote_root, rel\.display\(\)\)/ => push_list_entry(&mut list, remote_root, rel, '\\n')
//@replace? /(?s)if let Ok\(mut child\) = tokio::process::Command::new\("ssh"\)\s*\.arg\(host\)\s*\.arg\("xargs -0 rm -f --"\).*?let _ = child\.wait_with_output\(\)\.await;\s*\}/ => let _ = ssh_xargs(host, '\\0', true, &list, Tracked(rl));
//@replace? /(?s)let cmd = format!\(\s*"t=\$\(mktemp\) && cat > [^;]*? && xargs -0 rm -f -- < [^;]*?; rm -f [^;]*?",\s*list\.len\(\)\s*\);/ => let xd: char = '\\0';      // the command line: count-guarded (whole list or nothing), entries cut at NUL
//@replace? /(?s)let cmd = format!\(\s*"t=\$\(mktemp\) && cat > [^;]*? && xargs -d '\\\\n' rm -f -- < [^;]*?; rm -f [^;]*?",\s*list\.len\(\)\s*\);/ => let xd: char = '\\n';
//@replace? /(?s)if let Ok\(mut child\) = tokio::process::Command::new\("ssh"\)\s*\.arg\(host\)\s*\.arg\(cmd\).*?let _ = child\.wait_with_output\(\)\.await;\s*\}/ => let _ = ssh_xargs(host, xd, true, &list, Tracked(rl));
//@replace? /(?s)if let Ok\(mut child\) = tokio::process::Command::new\("ssh"\)\s*\.arg\(host\)\s*\.arg\("xargs -d '\\\\n' rm -f --"\).*?let _ = child\.wait_with_output\(\)\.await;\s*\}/ => let _ = ssh_xargs(host, '\\n', true, &list, Tracked(rl));
//@replace? /for rel in dels(?= \{)/ => for rel in it: dels #all
//@replace? /use std::fmt::Write as _;/ => 
//@replace? /use tokio::io::AsyncWriteExt;/ => 
//@at entry
    broadcast use asp_path, asp_pathbuf, asp_pathbuf_val, ax_display_no_nul;
    let ghost w0 = *w;
    let ghost rl0 = *rl;
//@loop ~/remove_file/ invariant
        w0 == *old(w), rl0 == *old(rl), *rl == rl0, it.seq().len() == dels@.len(), forall|j: int| 0 <= j < it.seq().len() ==> *(#[trigger] it.seq()[j]) == dels@[j],
        w0.log.len() <= w.log.len(), forall|k: int| 0 <= k < w0.log.len() ==> #[trigger] w.log[k] == w0.log[k],
        same_unless_planned(w.files, w0.files, pv(local_root), dels@, it.index() as int),
        forall|k: int| w0.log.len() <= k < w.log.len() ==> planned_unlink(#[trigger] w.log[k], pv(local_root), dels@, it.index() as int),
        io_ok() ==> forall|i: int| 0 <= i < it.index() ==> !w.files.contains_key(joinv(pv(local_root), pbv(#[trigger] &dels@[i]))),
//@at loop ~/remove_file/ entry
        broadcast use asp_path, asp_pathbuf, asp_pathbuf_val;
        let ghost wl = *w;
//@at loop ~/remove_file/ end
        proof {
            let i0 = it.index() as int;
            assert(pbv(rel) == pbv(&dels@[i0]));
            assert forall|q: PathV| !planned(pv(local_root), dels@, i0 + 1, q) implies
                (#[trigger] w.files.dom().contains(q)) == w0.files.dom().contains(q) && (w.files.dom().contains(q) ==> w.files[q].bytes == w0.files[q].bytes) by {
                assert(q != joinv(pv(local_root), pbv(&dels@[i0])));
                assert(!planned(pv(local_root), dels@, i0, q)) by { if planned(pv(local_root), dels@, i0, q) { let i = choose|i: int| 0 <= i < i0 && q == joinv(pv(local_root), pbv(#[trigger] &dels@[i])); assert(0 <= i < i0 + 1); } }
                assert(wl.files.dom().contains(q) == w0.files.dom().contains(q));
            }
            if io_ok() {
                assert forall|i: int| 0 <= i < i0 + 1 implies !w.files.contains_key(joinv(pv(local_root), pbv(#[trigger] &dels@[i]))) by {
                    if i < i0 { assert(!wl.files.contains_key(joinv(pv(local_root), pbv(&dels@[i])))); }
                }
            }
            assert forall|k: int| w0.log.len() <= k < w.log.len() implies planned_unlink(#[trigger] w.log[k], pv(local_root), dels@, i0 + 1) by {
                if k < wl.log.len() { assert(planned_unlink(wl.log[k], pv(local_root), dels@, i0)); let i = choose|i: int| 0 <= i < i0 && wl.log[k] == Eff::Unlink(joinv(pv(local_root), pbv(#[trigger] &dels@[i]))); assert(w.log[k] == wl.log[k]); assert(0 <= i < i0 + 1); }
                else { assert(w.log[k] == Eff::Unlink(joinv(pv(local_root), pbv(&dels@[i0])))); assert(0 <= i0 < i0 + 1); }
            }
        }
//@loop ~/list/ invariant
        w0 == *old(w), rl0 == *old(rl), *rl == rl0, *w == w0, it.seq().len() == dels@.len(), forall|j: int| 0 <= j < it.seq().len() ==> *(#[trigger] it.seq()[j]) == dels@[j],
        list@ == enc(entries(remote_root@, dels@.take(it.index() as int)), d_used),
        all_free(entries(remote_root@, dels@.take(it.index() as int)), d_used), d_used == '\0', free_of(remote_root@, d_used),
//@at before-loop ~/list/
            let ghost d_used: char = '\0';
            proof { assert(entries(remote_root@, dels@.take(0)) =~= Seq::<Seq<char>>::empty()); }
//@at loop ~/list/ end
                proof {
                    broadcast use ax_display_no_nul;
                    let i0 = it.index() as int;
                    assert(*rel == dels@[i0]);
                    assert(dels@.take(i0 + 1) =~= dels@.take(i0).push(dels@[i0]));
                    assert(entries(remote_root@, dels@.take(i0 + 1)) =~= entries(remote_root@, dels@.take(i0)).push(entry(remote_root@, dels@[i0])));
                    lemma_enc_push(entries(remote_root@, dels@.take(i0)), entry(remote_root@, dels@[i0]), d_used);
                    lemma_entry_free(remote_root@, dels@[i0], d_used);
                }
//@at after loop ~/list/
            proof { assert(dels@.take(dels@.len() as int) =~= dels@); }
//@end

//@extract file=src/bin/copia/transfer.rs fn=create_remote_dirs
//@sig /pub async fn/ => pub fn
//@sig /Box<dyn std::error::Error>/ => VErr
//@replace /\.await/ =>  #all
//@ret res
//@param+
    Tracked(rl): Tracked<&mut RemoteLog>
//@requires
    free_of(remote_root@, '\0'), free_of(remote_root@, '\n'),
//@ensures
    // at most ONE remote command, and it creates exactly the root and <remote_root>/<dir> for the planned directories
    final(rl).cmds == old(rl).cmds || final(rl).cmds == old(rl).cmds.push(RemoteCmd::Mkdir { host: host@, paths: seq![remote_root@] + entries(remote_root@, dirs@) }),
    res is Ok ==> final(rl).cmds == old(rl).cmds.push(RemoteCmd::Mkdir { host: host@, paths: seq![remote_root@] + entries(remote_root@, dirs@) }),
//@replace? /use std::fmt::Write;/ => 
//@replace? /use tokio::io::AsyncWriteExt;/ => 
//@replace? /format!\("\{remote_root\}\\0"\)/ => first_entry(remote_root, '\\0')
//@replace? /format!\("\{remote_root\}\\n"\)/ => first_entry(remote_root, '\\n')
//@replace? /write!\(dir_list, "\{\}\/\{\}\\0", remote_root, dir\.display\(\)\)\.is_err\(\)/ => push_list_entry(&mut dir_list, remote_root, dir, '\\0')
//@replace? /writeln!\(dir_list, "\{\}\/\{\}", remote_root, dir\.display\(\)\)\.is_err\(\)/ => push_list_entry(&mut dir_list, remote_root, dir, '\\n')
//@replace? /(?s)let mut child = tokio::process::Command::new\("ssh"\)\s*\.arg\(host\)\s*\.arg\("xargs -0 mkdir -p"\).*?return Err\(format!\("Failed to create remote directories: \{stderr\}"\)\.into\(\)\);\s*\}/ => ssh_xargs(host, '\\0', false, &dir_list, Tracked(rl))?;
//@replace? /(?s)let mut child = tokio::process::Command::new\("ssh"\)\s*\.arg\(host\)\s*\.arg\("xargs -d '\\\\n' mkdir -p"\).*?return Err\(format!\("Failed to create remote directories: \{stderr\}"\)\.into\(\)\);\s*\}/ => ssh_xargs(host, '\\n', false, &dir_list, Tracked(rl))?;
//@replace /for dir in dirs(?= \{)/ => for dir in it: dirs
//@at entry
    broadcast use ax_display_no_nul;
    let ghost rl0 = *rl;
    let ghost d_used: char = '\0';
//@at before-loop ~/dir_list/
    proof {
        assert(entries(remote_root@, dirs@.take(0)) =~= Seq::<Seq<char>>::empty());
        assert(seq![remote_root@] + Seq::<Seq<char>>::empty() =~= seq![remote_root@]);
        assert(seq![remote_root@].drop_last() =~= Seq::<Seq<char>>::empty());
        assert(enc(Seq::<Seq<char>>::empty(), d_used) =~= Seq::<char>::empty());
        assert(seq![remote_root@].last() == remote_root@);
        assert(enc(seq![remote_root@], d_used) == enc(seq![remote_root@].drop_last(), d_used) + seq![remote_root@].last() + seq![d_used]);
        assert(enc(seq![remote_root@], d_used) =~= remote_root@ + seq![d_used]);
    }
//@loop ~/dir_list/ invariant
        rl0 == *old(rl), *rl == rl0, it.seq().len() == dirs@.len(), forall|j: int| 0 <= j < it.seq().len() ==> *(#[trigger] it.seq()[j]) == dirs@[j],
        dir_list@ == enc(seq![remote_root@] + entries(remote_root@, dirs@.take(it.index() as int)), d_used),
        all_free(seq![remote_root@] + entries(remote_root@, dirs@.take(it.index() as int)), d_used), d_used == '\0', free_of(remote_root@, d_used),
//@at loop ~/dir_list/ end
        proof {
            broadcast use ax_display_no_nul;
            let i0 = it.index() as int;
            assert(*dir == dirs@[i0]);
            assert(dirs@.take(i0 + 1) =~= dirs@.take(i0).push(dirs@[i0]));
            let pre = seq![remote_root@] + entries(remote_root@, dirs@.take(i0));
            assert(seq![remote_root@] + entries(remote_root@, dirs@.take(i0 + 1)) =~= pre.push(entry(remote_root@, dirs@[i0])));
            lemma_enc_push(pre, entry(remote_root@, dirs@[i0]), d_used);
            lemma_entry_free(remote_root@, dirs@[i0], d_used);
        }
//@at after loop ~/dir_list/
    proof { assert(dirs@.take(dirs@.len() as int) =~= dirs@); }
//@end
