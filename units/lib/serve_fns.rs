// ---- src/bin/copia/wire.rs + serve.rs against the hub world (C03, C10, C11, C12) ----
//@item file=src/bin/copia/reconcile.rs kind=enum name=FileType
//@item file=src/bin/copia/reconcile.rs kind=struct name=Fingerprint
//@item file=src/bin/copia/wire.rs kind=const name=VERSION
//@item file=src/bin/copia/wire.rs kind=const name=MAX_FRAME
//@item file=src/bin/copia/wire.rs kind=type name=Hash
//@item file=src/bin/copia/wire.rs kind=enum name=Request
//@item file=src/bin/copia/wire.rs kind=enum name=Response nosuper
//@item file=src/bin/copia/wire.rs kind=enum name=Cas
impl vstd::std_specs::cmp::PartialEqSpecImpl for Cas {
    open spec fn obeys_eq_spec() -> bool { true }
    open spec fn eq_spec(&self, other: &Self) -> bool { *self == *other }
}
#[verifier::external_body] pub fn str_into(s: &str) -> String { String::new() }   // "..".into() in error replies (diagnostics)

//@extract file=src/bin/copia/wire.rs fn=cas_decide
//@ret r
//@ensures
    (r == Cas::Commit) <==> (current == expected),       // also proved bit-precisely by Kani (c03_cas_decide_is_equality)
//@end

// ---- framing (C12). ciborium by contract (A): `cbor_of` is whatever the encoder produces; the decoder is total ----
pub trait CborMsg {}
impl CborMsg for Request {}
impl CborMsg for Response {}
pub uninterp spec fn cbor_of<T>(m: T) -> Seq<u8>;
pub uninterp spec fn cbor_parse<T>(b: Seq<u8>) -> Option<T>;
#[verifier::external_body]
pub fn cbor_into<T: CborMsg>(msg: &T, buf: &mut Vec<u8>) -> (r: std::io::Result<()>)
    ensures r is Ok ==> final(buf)@ == old(buf)@ + cbor_of(*msg)
{ unimplemented!() }
#[verifier::external_body]
pub fn cbor_from<T: CborMsg>(buf: &[u8]) -> (r: std::io::Result<Option<T>>)
    ensures r is Ok ==> r->Ok_0 is Some && cbor_parse::<T>(buf@) == r->Ok_0 && in_domain(r->Ok_0->Some_0), r is Err ==> cbor_parse::<T>(buf@) is None
{ unimplemented!() }
// DOMAIN ASSUMPTION (A), the properties' own exclusion: a decoded request does not name a reserved staging path
pub uninterp spec fn in_domain<T>(m: T) -> bool;
pub open spec fn be4(n: u32) -> Seq<u8> { seq![(n >> 24) as u8, ((n >> 16) & 0xff) as u8, ((n >> 8) & 0xff) as u8, (n & 0xff) as u8] }
#[verifier::external_body] pub fn u32_to_be_bytes(x: u32) -> (r: [u8; 4]) ensures r@ == be4(x) { x.to_be_bytes() }
#[verifier::external_body] pub fn u32_from_be_bytes(b: [u8; 4]) -> (r: u32) ensures be4(r) == b@ { u32::from_be_bytes(b) }
#[verifier::external_body]
pub fn u32_try_from_len(n: usize) -> (r: std::io::Result<u32>) ensures r is Ok <==> n <= u32::MAX, r is Ok ==> r->Ok_0 == n { unimplemented!() }
#[verifier::external_body] pub fn io_invalid_data() -> std::io::Error { unimplemented!() }
pub uninterp spec fn is_eof(e: std::io::Error) -> bool;
#[verifier::external_body] pub fn err_is_unexpected_eof(e: &std::io::Error) -> (r: bool) ensures r == is_eof(*e) { unimplemented!() }
pub open spec fn frame_of<T>(m: T) -> Seq<u8> { be4(cbor_of(m).len() as u32) + cbor_of(m) }

//@extract file=src/bin/copia/wire.rs fn=write_frame
//@sig /T: Serialize/ => T: CborMsg
//@ret r
//@ensures
    // one frame: 4-byte big-endian length (never above the 1 MiB bound) followed by the message
    r is Ok ==> cbor_of(*msg).len() <= 0x10_0000 && w_written(&*final(w)) == w_written(&*old(w)) + frame_of(*msg),
//@replace /(?s)into_writer\(msg, &mut buf\)\s*\.map_err\(\|e\| std::io::Error::new\(std::io::ErrorKind::InvalidData, e\.to_string\(\)\)\)/ => cbor_into(msg, &mut buf)
//@replace /(?s)u32::try_from\(buf\.len\(\)\)\s*\.map_err\(\|_\| std::io::Error::new\(std::io::ErrorKind::InvalidData, "frame too large"\)\)/ => u32_try_from_len(buf.len())
//@replace? /(?s)std::io::Error::new\(\s*std::io::ErrorKind::InvalidData,\s*"frame exceeds MAX_FRAME",\s*\)/ => io_invalid_data() #all
//@replace /len\.to_be_bytes\(\)/ => u32_to_be_bytes(len)
//@at entry
    proof { assert(1u32 << 20 == 0x10_0000u32) by(bit_vector); }
//@at before /w\.flush\(\)/
    proof {
        assert(buf@ =~= cbor_of(*msg));
        assert(len as nat == cbor_of(*msg).len());
        assert(w_written(&*w) =~= w_written(&*old(w)) + (be4(len) + buf@));
    }
//@end

//@extract file=src/bin/copia/wire.rs fn=read_frame
//@sig /T: for<'de> Deserialize<'de>/ => T: CborMsg
//@ret res
//@ensures
    // total: a value, a clean end of input at a frame boundary (None), or an error - and the buffer for the control
    // frame is only ever allocated AFTER the length passed the 1 MiB bound check (see the assertion before `vec!`)
    res is Ok && res->Ok_0 is Some ==> in_domain(res->Ok_0->Some_0),
    // in step: a delivered message consumed exactly its own frame - 4 length bytes (<= 1 MiB) and that many payload bytes -
    // and is what those payload bytes decode to
    res is Ok && res->Ok_0 is Some ==> exists|n: u32| n <= 0x10_0000 && ({
        let c = r_content(&*old(r)); let p = r_pos(&*old(r)) as int;
        &&& r_content(&*final(r)) == c && r_pos(&*final(r)) == p + 4 + n && p + 4 + n <= c.len()
        &&& #[trigger] be4(n) == c.subrange(p, p + 4)
        &&& cbor_parse::<T>(c.subrange(p + 4, p + 4 + n)) == Some(res->Ok_0->Some_0)
    }),
//@replace /Err\(e\) if e\.kind\(\) == std::io::ErrorKind::UnexpectedEof => return Ok\(None\),/ => Err(e) if err_is_unexpected_eof(&e) => return Ok(None),
//@replace /u32::from_be_bytes\(lenb\)/ => u32_from_be_bytes(lenb)
//@replace? /(?s)std::io::Error::new\(\s*std::io::ErrorKind::InvalidData,\s*"frame exceeds MAX_FRAME",\s*\)/ => io_invalid_data() #all
//@replace /(?s)from_reader\(&buf\[\.\.\]\)\s*\.map\(Some\)\s*\.map_err\(\|e\| std::io::Error::new\(std::io::ErrorKind::InvalidData, e\.to_string\(\)\)\)/ => cbor_from(&buf)
//@at before /let mut buf = vec!\[0u8; len as usize\];/
    // C12: memory reserved for a control frame never exceeds the 1 MiB bound
    proof { assert(1u32 << 20 == 0x10_0000u32) by(bit_vector); }
    assert(len <= 0x10_0000);
//@end

// ---- serve.rs ----
// confinement (C11): a path is inside the served directory if it is root itself or root joined with a relative path
// that has no `..`, root or prefix component. `rel_ok` is the (assumed) std::path component grammar, validated by the twin.
pub broadcast axiom fn ax_rel_suffix(x: PathV, s: PathV) requires rel_ok(x), no_slash(s) ensures #[trigger] rel_ok(x + s);
pub broadcast axiom fn ax_rel_join(x: PathV, y: PathV) requires rel_ok(x), rel_ok(y) ensures #[trigger] rel_ok(joinv(x, y));
pub proof fn lemma_inside_suffix(root: PathV, p: PathV, s: PathV)
    requires inside(root, p), p != root, no_slash(s)
    ensures inside(root, p + s)
{
    broadcast use ax_rel_suffix;
    let x = choose|x: PathV| p == #[trigger] joinv(root, x) && rel_ok(x);
    assert(p + s =~= joinv(root, x + s));
}
pub proof fn lemma_inside_join(root: PathV, p: PathV, y: PathV)
    requires inside(root, p), rel_ok(y)
    ensures inside(root, joinv(p, y))
{
    broadcast use ax_rel_join;
    if p == root { } else {
        let x = choose|x: PathV| p == #[trigger] joinv(root, x) && rel_ok(x);
        assert(joinv(p, y) =~= joinv(root, joinv(x, y)));
    }
}
// R5 shims for safe_join's std::path calls (component grammar ASSUMED): Path::new(rel), is_absolute, components()
pub enum Component { Prefix(u8), RootDir, CurDir, ParentDir, Normal(u8) }      // payloads (PrefixComponent, &OsStr) abstracted to a byte
pub uninterp spec fn comps_of(p: PathV) -> Seq<Component>;
pub uninterp spec fn is_abs(p: PathV) -> bool;
pub open spec fn bad_comp(c: Component) -> bool { c is ParentDir || c is RootDir || c is Prefix }
// the hub's control directory: a request path whose first component (after leading `.`) is `.copia`
pub uninterp spec fn is_control(c: Component) -> bool;       // Normal(".copia")
pub open spec fn control_rel(p: PathV) -> bool {
    exists|i: int| 0 <= i < comps_of(p).len() && is_control(#[trigger] comps_of(p)[i]) && forall|j: int| 0 <= j < i ==> comps_of(p)[j] is CurDir
}
#[verifier::external_body] pub fn comp_is_control(c: &Component) -> (r: bool) ensures r == is_control(*c) { unimplemented!() }   // `c.as_os_str() == ".copia"`
// grammar facts (A): a relative path that does not start in the control directory never names the lock file, nor does
// such a path extended by a staging or conflict suffix; the lock file's own name is not a staging name
pub uninterp spec fn is_conflict_sfx(s: PathV) -> bool;
pub broadcast axiom fn ax_not_lockfile(root: PathV, x: PathV)
    requires rel_ok(x), !control_rel(x)
    ensures #[trigger] joinv(root, x) != lockfile(root),
        forall|s: PathV| is_conflict_sfx(s) ==> #[trigger] (joinv(root, x) + s) != lockfile(root);
pub broadcast axiom fn ax_lock_not_staging(root: PathV) ensures !is_staging(#[trigger] lockfile(root));
// the grammar fact that makes the guard sufficient: a non-absolute path none of whose components is `..`/root/prefix is rel_ok
pub broadcast axiom fn ax_grammar(p: PathV)
    requires !is_abs(p), forall|i: int| 0 <= i < comps_of(p).len() ==> !bad_comp(#[trigger] comps_of(p)[i])
    ensures #[trigger] rel_ok(p);
#[verifier::external_body] pub fn path_new(rel: &str) -> (r: &Path) ensures pv(r) == strv(rel@) { unimplemented!() }
#[verifier::external_body] pub fn path_is_absolute(p: &Path) -> (r: bool) ensures r == is_abs(pv(p)) { unimplemented!() }
#[verifier::external_body] pub fn path_components(p: &Path) -> (r: Vec<Component>) ensures r@ == comps_of(pv(p)) { unimplemented!() }
#[verifier::external_body] pub fn comp_is_bad(c: &Component) -> (r: bool) ensures r == bad_comp(*c) { unimplemented!() }

pub open spec fn safe_join_none(root: PathV, rel: Seq<char>) -> bool {
    is_abs(strv(rel)) || (exists|i: int| 0 <= i < comps_of(strv(rel)).len() && bad_comp(#[trigger] comps_of(strv(rel))[i])) || control_rel(strv(rel))
}
//@extract file=src/bin/copia/serve.rs fn=safe_join
//@ret r
//@ensures
    // C11: Some only for a relative request path without `..`/root/prefix components, and then exactly root joined with it
    r is Some ==> pbv(&r->Some_0) == joinv(pv(root), strv(rel@)) && rel_ok(strv(rel@)) && inside(pv(root), pbv(&r->Some_0)),
    r is None <==> safe_join_none(pv(root), rel@),
    r is Some ==> !control_rel(strv(rel@)),
//@replace /Path::new\(rel\)/ => path_new(rel)
//@replace /p\.is_absolute\(\)/ => path_is_absolute(p)
//@replace /for c in p\.components\(\)(?= \{)/ => for c in cit: &cv
//@replace? /c\.as_os_str\(\) == "\.copia"/ => comp_is_control(c)
//@at before /for c in p\.components\(\)/
    let cv = path_components(p);
//@loop 0 invariant
        cit.seq().len() == cv@.len(), forall|j: int| 0 <= j < cit.seq().len() ==> *(#[trigger] cit.seq()[j]) == cv@[j],
        cv@ == comps_of(strv(rel@)),
        forall|j: int| 0 <= j < cit.index() ==> !bad_comp(#[trigger] cv@[j]),
//@loop? 0 invariant
        first <==> (forall|j: int| 0 <= j < cit.index() ==> cv@[j] is CurDir),
        forall|i: int| 0 <= i < cit.index() ==> !(is_control(#[trigger] cv@[i]) && forall|j: int| 0 <= j < i ==> cv@[j] is CurDir),
//@at loop 0 entry
        assert(*c == cv@[cit.index() as int]);
//@at end
    proof {
        broadcast use asp_path, ax_grammar;
        assert(rel_ok(strv(rel@)));
    }
//@end

// a staging name that embeds the process id and a per-process counter (R5 shims for pid / static atomic / format!)
pub uninterp spec fn private_suffix(s: Seq<char>) -> bool;
pub broadcast axiom fn ax_private_suffix(x: PathV, s: Seq<char>)
    requires private_suffix(s)
    ensures #[trigger] private_name(x + strv(s)), ends_with(x + strv(s), TMP()), no_slash(strv(s));
#[verifier::external_body] pub fn next_seq() -> u64 { unimplemented!() }
#[verifier::external_body] pub fn vfmt_private_suffix(pid: u32, n: u64) -> (r: String) ensures private_suffix(r@) { unimplemented!() }
#[verifier::external_body] pub fn process_id() -> u32 { unimplemented!() }
pub broadcast axiom fn ax_tmp_no_slash() ensures #[trigger] no_slash(TMP());

//@extract file=src/bin/copia/serve.rs fn=tmp_of
//@ret r
//@ensures
    // C10: the staging name is reserved (ends in .copia-tmp), stays next to dst, and is private to this process and request
    exists|sfx: PathV| pbv(&r) == pv(dst) + sfx && no_slash(sfx),
    is_staging(pbv(&r)),
    private_name(pbv(&r)),
//@replace? /(?s)static SEQ: std::sync::atomic::AtomicU64 = std::sync::atomic::AtomicU64::new\(0\);\s*let n = SEQ\.fetch_add\(1, std::sync::atomic::Ordering::Relaxed\);/ => let n = next_seq();
//@replace? /format!\("\.\{\}\.\{n\}\.copia-tmp", std::process::id\(\)\)/ => vfmt_private_suffix(process_id(), n)
//@at entry
    broadcast use asp_path, asp_pathbuf, asp_str, asp_string, ax_private_suffix, ax_tmp_no_slash;
//@at end
    proof {
        assert(exists|t: Seq<char>| private_suffix(t) && osbv(&s) == pv(dst) + #[trigger] strv(t));
        let t = choose|t: Seq<char>| private_suffix(t) && osbv(&s) == pv(dst) + #[trigger] strv(t);
        assert(private_name(pv(dst) + strv(t)) && ends_with(pv(dst) + strv(t), TMP()) && no_slash(strv(t)));
        assert(osbv(&s) == pv(dst) + strv(t));
    }
//@end

// what the hub holds at a path, as the hash the protocol compares (None = absent)
pub open spec fn cur_of(files: Map<PathV, FileS>, p: PathV) -> Option<Seq<u8>> { if files.contains_key(p) { Some(H(files[p].bytes)) } else { None } }
pub open spec fn hv(h: Option<Hash>) -> Option<Seq<u8>> { match h { Some(x) => Some(x@), None => None } }
pub proof fn lemma_hv_inj(a: Option<Hash>, b: Option<Hash>) requires hv(a) == hv(b) ensures a == b {
    match (a, b) { (Some(x), Some(y)) => { assert(x@ == y@); assert(x =~= y); }, _ => {} }
}
#[verifier::external_body]
pub fn short_hash(h: &Hash) -> (r: String) ensures r@ == short_hex(h@) { unimplemented!() }      // iterator + write!: assumed (A)
pub uninterp spec fn conflict_sfx(hex: Seq<char>) -> Seq<char>;
pub uninterp spec fn conflict_sfx_arg(s: Seq<char>) -> Seq<char>;
#[verifier::external_body]
pub fn vfmt_conflict(hex: String) -> (r: String) ensures r@ == conflict_sfx(hex@), no_slash(strv(r@)), !ends_with_tmp(strv(r@)), is_conflict_sfx(strv(r@)) { unimplemented!() }
pub uninterp spec fn ends_with_tmp(s: PathV) -> bool;
// a name that ends in a conflict suffix is not a staging name (the suffix ends in 12 hex digits)
pub broadcast axiom fn ax_conflict_not_staging(x: PathV, s: PathV) requires !ends_with_tmp(s), s.len() > 0 ensures !#[trigger] is_staging(x + s);
pub broadcast axiom fn ax_strv_nonempty(s: Seq<char>) ensures #[trigger] strv(s).len() >= s.len();

//@extract file=src/bin/copia/serve.rs fn=handle_delete
//@inline with_commit_lock
//@ret res
//@param+
    Tracked(fs): Tracked<&mut World>
//@requires
    old(fs).root == pv(root), !old(fs).lock, pv(lockdir) == lockdir_of(pv(root)), inside(pv(root), pv(lockdir)), rel_ok(strv("commit.lock"@)),
    !is_staging(joinv(pv(root), strv(path@))),     // domain: request paths are not reserved staging names
//@ensures
    final(fs).root == old(fs).root, final(fs).private == old(fs).private,
    res is Ok ==> !final(fs).lock,
    // C11: a refused path changes nothing
    safe_join_none(pv(root), path@) ==> final(fs).files == old(fs).files && final(fs).log == old(fs).log,
    // C03: the delete is ONE atomic compare-and-swap against the tree this process saw when it acquired the commit lock
    // (final(fs).seen, recorded by vfs_lock_exclusive), and the reply says what happened
    (res is Ok && !safe_join_none(pv(root), path@)) ==> exists|m: Response| w_written(&*final(w)) == w_written(&*old(w)) + #[trigger] frame_of(m)
        && del_reply_ok(m, *old(fs), *final(fs), joinv(pv(root), strv(path@)), hv(expected)),
//@replace /(?s)std::fs::OpenOptions::new\(\)\s*\.create\(true\)\s*\.truncate\(false\)\s*\.write\(true\)\s*\.open\(((?:[^()]|\((?:[^()]|\([^()]*\))*\))*)\)/ => vfs_open_lock(\1, Tracked(fs))
//@replace? /lf\.lock_exclusive\(\)/ => vfs_lock_exclusive(&lf, Tracked(fs))
//@replace? /fs2::FileExt::unlock\(&lf\)/ => vfs_unlock(&lf, Tracked(fs))
//@replace? /current_hash\(((?:[^()]|\((?:[^()]|\([^()]*\))*\))*)\)/ => current_hash(\1, Tracked(&*fs)) #all
//@replace? /std::fs::remove_file\(((?:[^()]|\((?:[^()]|\([^()]*\))*\))*)\)/ => vfs_remove_file(\1, Tracked(fs)) #all
//@replace /"bad path"\.into\(\)/ => str_into("bad path") #all
//@at entry
    broadcast use asp_path, asp_pathbuf, asp_pathbuf_val, asp_str, ax_not_lockfile, ax_lock_not_staging;
    let ghost w0 = *fs;
//@at after /let current = current_hash\(&dst\);/
        proof {
            assert(pbv(&dst) == joinv(pv(root), strv(path@)));
            assert(fs.lock ==> hv(current) == cur_of(fs.files, joinv(pv(root), strv(path@))));
            if hv(expected) == hv(current) { lemma_hv_inj(expected, current); }
        }
//@at before /let lf = /
    proof { lemma_inside_join(pv(root), pv(lockdir), strv("commit.lock"@)); assert(!is_staging(pbv(&dst)) || true); }
//@at after /lf\.lock_exclusive\(\)\?;/
    let ghost locked = *fs;
//@at before /let _ = fs2::FileExt::unlock\(&lf\);/
    proof {
        let d = joinv(pv(root), strv(path@));
        assert(pbv(&dst) == d);
        if !locked.files.contains_key(d) { assert(locked.files.remove(d) =~= locked.files); }
        assert(fs.seen == locked.files && fs.nlock == w0.nlock + 1);
        assert(del_reply_ok(out, w0, *fs, d, hv(expected)));
    }
//@at before /write_frame\(w, &resp\)/
    proof { assert(del_reply_ok(resp, w0, *fs, joinv(pv(root), strv(path@)), hv(expected))); }
//@end
pub open spec fn del_reply_ok(m: Response, o: World, n: World, d: PathV, expected: Option<Seq<u8>>) -> bool {
    let l = n.seen;
    n.nlock == o.nlock + 1 && match m {
        Response::DeleteResult { deleted, current } =>
            if deleted { expected == cur_of(l, d) && (n.files == l.remove(d) || n.files == l /* unlink itself failed: I/O fault */) }
            else { expected != cur_of(l, d) && n.files == l && hv(current) == cur_of(l, d) },
        _ => false,
    }
}
// the name a stale write is preserved under
pub uninterp spec fn short_hex(h: Seq<u8>) -> Seq<char>;
pub open spec fn conflict_path(d: PathV, hash: Seq<u8>) -> PathV { d + strv(conflict_sfx(short_hex(hash))) }
pub open spec fn put_reply_ok(m: Response, o: World, n: World, d: PathV, expected: Option<Seq<u8>>, hash: Seq<u8>) -> bool {
    let l = n.seen;
    let c = conflict_path(d, hash);
    match m {
        // refused before the critical section (hash mismatch), or the commit itself failed: no live path changed
        Response::Error(_) => (n.nlock == o.nlock && live_same(n.files, o.files, Set::empty()))
            || (n.nlock == o.nlock + 1 && live_same(n.files, l, Set::empty())),
        Response::PutResult { committed, current } => n.nlock == o.nlock + 1 && (
            // acknowledged committed: CAS held against the locked tree, and the live file now IS the verified, flushed content
            if committed { expected == cur_of(l, d) && n.files.contains_key(d) && H(n.files[d].bytes) == hash && n.files[d].synced
                           && live_same(n.files, l, set![d]) && hv(current) == Some(hash) }
            // stale: the live file (and every other live path) is exactly as locked; the bytes are preserved in the conflict copy
            else { expected != cur_of(l, d) && hv(current) == cur_of(l, d) && n.files.contains_key(c) && H(n.files[c].bytes) == hash
                   && live_same(n.files, l, set![c]) }),
        _ => false,
    }
}


// no live (non-staging) path differs between new and old, outside s
pub open spec fn live_same(new: Map<PathV, FileS>, old: Map<PathV, FileS>, s: Set<PathV>) -> bool {
    forall|p: PathV| !s.contains(p) && !is_staging(p) ==> (#[trigger] new.dom().contains(p)) == old.dom().contains(p)
        && (new.dom().contains(p) ==> new[p].bytes == old[p].bytes)
}
// R5 shim: `[u8; 32] != [u8; 32]` (Verus gives array comparison no meaning)
#[verifier::external_body] pub fn hash_ne(a: &[u8; 32], b: &[u8; 32]) -> (r: bool) ensures r == (a@ != b@) { a != b }
// ghost step: record that a staging file's bytes were checked against the declared hash AND the declared length (C10: "a write
// whose streamed bytes do not match its declared hash or length changes no such path") - only provable if they were
#[verifier::external_body]
pub proof fn mark_verified(p: PathV, hash: Seq<u8>, len: int, tracked w: &mut World)
    requires old(w).files.contains_key(p), H(old(w).files[p].bytes) == hash, old(w).files[p].bytes.len() == len,
    ensures final(w).verified == old(w).verified.insert(p, hash), final(w).files == old(w).files, final(w).root == old(w).root,
        final(w).lock == old(w).lock, final(w).private == old(w).private, final(w).reliable == old(w).reliable, final(w).log == old(w).log,
        final(w).seen == old(w).seen, final(w).nlock == old(w).nlock,
{ }
// R5 shim for `std::io::copy(&mut r.take(len), &mut std::io::sink())`: discard up to len bytes of the request stream
#[verifier::external_body]
pub fn drain_content<R: Read>(r: &mut R, len: u64) -> (res: std::io::Result<u64>)
    ensures res is Ok ==> stream_of(&*final(r)) == stream_of(&*old(r)).skip(if len as int <= stream_of(&*old(r)).len() { len as int } else { stream_of(&*old(r)).len() as int })
{ unimplemented!() }

//@extract file=src/bin/copia/serve.rs fn=handle_put
//@inline with_commit_lock
//@ret res
//@param+
    Tracked(fs): Tracked<&mut World>
//@requires
    old(fs).root == pv(root), !old(fs).lock, pv(lockdir) == lockdir_of(pv(root)), inside(pv(root), pv(lockdir)), rel_ok(strv("commit.lock"@)),
    !is_staging(joinv(pv(root), strv(path@))),     // domain: request paths are not reserved staging names
//@ensures
    final(fs).root == old(fs).root,
    res is Ok ==> !final(fs).lock,
    // C11/C12: a refused path changes nothing, and its content is drained so the stream stays in step
    safe_join_none(pv(root), path@) ==> final(fs).files == old(fs).files && final(fs).log == old(fs).log
        && (res is Ok ==> stream_of(&*final(r)) == stream_of(&*old(r)).skip(if len as int <= stream_of(&*old(r)).len() { len as int } else { stream_of(&*old(r)).len() as int })),
    // C03 + C10: the reply is truthful about ONE atomic compare-and-swap against the tree seen on acquiring the commit lock
    (res is Ok && !safe_join_none(pv(root), path@)) ==> exists|m: Response| w_written(&*final(w)) == w_written(&*old(w)) + #[trigger] frame_of(m)
        && put_reply_ok(m, *old(fs), *final(fs), joinv(pv(root), strv(path@)), hv(expected), hash@),
//@replace? /(?s)std::io::copy\(&mut r\.take\(len\), &mut std::io::sink\(\)\)/ => drain_content(r, len)
//@replace? /std::fs::create_dir_all\(((?:[^()]|\((?:[^()]|\([^()]*\))*\))*)\)/ => vfs_create_dir_all(\1, Tracked(fs)) #all
//@replace? /std::fs::File::create\(((?:[^()]|\((?:[^()]|\([^()]*\))*\))*)\)/ => vfs::File::create(\1, Tracked(fs)) #all
//@replace? /tf\.write_all\(((?:[^()]|\((?:[^()]|\([^()]*\))*\))*)\)/ => tf.write_all(\1, Tracked(fs)) #all
//@replace? /tf\.sync_all\(\)/ => tf.sync_all(Tracked(fs)) #all
//@replace? /tf\.seek\(((?:[^()]|\((?:[^()]|\([^()]*\))*\))*)\)/ => tf.seek(\1, Tracked(fs)) #all
//@replace? /std::fs::remove_file\(((?:[^()]|\((?:[^()]|\([^()]*\))*\))*)\)/ => vfs_remove_file(\1, Tracked(fs)) #all
//@replace /(?s)std::fs::OpenOptions::new\(\)\s*\.create\(true\)\s*\.truncate\(false\)\s*\.write\(true\)\s*\.open\(((?:[^()]|\((?:[^()]|\([^()]*\))*\))*)\)/ => vfs_open_lock(\1, Tracked(fs))
//@replace? /lf\.lock_exclusive\(\)/ => vfs_lock_exclusive(&lf, Tracked(fs))
//@replace? /fs2::FileExt::unlock\(&lf\)/ => vfs_unlock(&lf, Tracked(fs))
//@replace? /current_hash\(((?:[^()]|\((?:[^()]|\([^()]*\))*\))*)\)/ => current_hash(\1, Tracked(&*fs)) #all
//@replace? /std::fs::rename\(((?:[^()]|\((?:[^()]|\([^()]*\))*\))*)\)/ => vfs_rename(\1, Tracked(fs)) #all
//@replace /format!\("\.conflict-\{\}", super::wire::short_hash\(&hash\)\)/ => vfmt_conflict(short_hash(&hash))
//@replace /"bad path"\.into\(\)/ => str_into("bad path")
//@replace? /"content hash mismatch"\.into\(\)/ => str_into("content hash mismatch")
//@replace? /"content shorter than declared"\.into\(\)/ => str_into("content shorter than declared")
//@replace? /\*hasher\.finalize\(\)\.as_bytes\(\) != hash/ => hash_ne(hasher.finalize().as_bytes(), &hash)
//@at entry
    broadcast use asp_path, asp_pathbuf, asp_pathbuf_val, asp_str, asp_string, ax_not_lockfile, ax_lock_not_staging;
    let ghost w0 = *fs;
    let ghost d = joinv(pv(root), strv(path@));
//@at after /let tmp = tmp_of\([^;]*\);/
    proof {
        assert(pbv(&dst) == d && inside(pv(root), d));
        let sfx = choose|sfx: PathV| pbv(&tmp) == pbv(&dst) + sfx && no_slash(sfx);
        assert(d != pv(root)) by { assert(d.len() > pv(root).len()); }
        lemma_inside_suffix(pv(root), d, sfx);
        assert(inside(pv(root), pbv(&tmp)));
        assert(pbv(&tmp) != d);
    }
//@at before /if let Some\(p\) = dst\.parent\(\)/
    proof { broadcast use ax_parent_inside; assert(pbv(&dst) == d && inside(pv(root), d)); assert(d != pv(root)) by { assert(d.len() > pv(root).len()); } }
//@loop ~/hasher\.update/ invariant
            w0 == *old(fs), w0.root == pv(root), !safe_join_none(pv(root), path@), fs.log.len() >= 0,
            buf@.len() == 256 * 1024, tf.path() == pbv(&tmp), !tf.displaced(), is_staging(pbv(&tmp)), inside(pv(root), pbv(&tmp)),
            fs.root == pv(root), !fs.lock, fs.private.contains(pbv(&tmp)), fs.nlock == w0.nlock,
            fs.files.contains_key(pbv(&tmp)), blake3::hasher_view(&hasher) == fs.files[pbv(&tmp)].bytes,
            got as nat == fs.files[pbv(&tmp)].bytes.len(), got as nat + stream_of(&limited).len() <= len,
            live_same(fs.files, w0.files, Set::empty()),
//@loop ~/hasher\.update/ decreases
            stream_of(&limited).len()
//@at loop ~/hasher\.update/ entry
            let ghost wl = *fs;
//@at? after /tf\.sync_all\(\)\?;/
        let ghost w_sync = *fs;
        proof {
            assert(!Set::<PathV>::empty().contains(pbv(&tmp)));
            assert(w_sync.files.dom().contains(pbv(&tmp)));
            assert(w_sync.files[pbv(&tmp)].bytes == blake3::hasher_view(&hasher) && w_sync.files[pbv(&tmp)].synced);
        }
//@at before /let resp = /
    let ghost w_staged = *fs;
    proof {
        assert(w_staged.files.dom().contains(pbv(&tmp)) && w_staged.files[pbv(&tmp)].bytes == blake3::hasher_view(&hasher) && w_staged.files[pbv(&tmp)].synced);
        assert(w_staged.private.contains(pbv(&tmp)));
        assert(live_same(w_staged.files, w0.files, Set::empty()));
    }
//@at after /let current = current_hash\(&dst\);/
        proof {
            assert(fs.lock ==> hv(current) == cur_of(fs.files, d));
            if hv(expected) == hv(current) { lemma_hv_inj(expected, current); }
        }
//@at before /let lf = /
    proof {
        lemma_inside_join(pv(root), pv(lockdir), strv("commit.lock"@));
    }
    proof { mark_verified(pbv(&tmp), hash@, len as int, fs); }
    let ghost w_pre = *fs;
    proof { assert(w_pre.files == w_staged.files && w_pre.private.contains(pbv(&tmp)) && w_pre.verified.contains_key(pbv(&tmp))); }
//@at after /lf\.lock_exclusive\(\)\?;/
    let ghost locked = *fs;
    proof {
        assert(locked.private.contains(pbv(&tmp)) && locked.verified.contains_key(pbv(&tmp)));
        assert(locked.files.dom().contains(pbv(&tmp)) == w_pre.files.dom().contains(pbv(&tmp)));
        assert(locked.files.dom().contains(pbv(&tmp)) && locked.files[pbv(&tmp)] == w_staged.files[pbv(&tmp)]);
    }
//@at? before /match std::fs::rename\(&tmp, PathBuf::from\(cn\)\)/
                proof {
                    broadcast use ax_conflict_not_staging, ax_strv_nonempty;
                    assert(exists|t: Seq<char>| osbv(&cn) == d + #[trigger] strv(t) && no_slash(strv(t)) && !ends_with_tmp(strv(t)));
                    let t = choose|t: Seq<char>| osbv(&cn) == d + #[trigger] strv(t) && no_slash(strv(t)) && !ends_with_tmp(strv(t));
                    lemma_inside_suffix(pv(root), d, strv(t));
                }
//@at? before /return write_frame\(w, &Response::Error\("content hash mismatch"/
        proof { assert forall|s: String| #[trigger] put_reply_ok(Response::Error(s), w0, *fs, d, hv(expected), hash@) by {
            assert(fs.nlock == w0.nlock);
            assert forall|p: PathV| !is_staging(p) implies (#[trigger] fs.files.dom().contains(p)) == w0.files.dom().contains(p)
                && (fs.files.dom().contains(p) ==> fs.files[p].bytes == w0.files[p].bytes) by { assert(p != pbv(&tmp)); }
        } }
//@at before /let _ = fs2::FileExt::unlock\(&lf\);/
    proof {
        assert(fs.seen == locked.files && fs.nlock == w0.nlock + 1);
        assert(out is Err ==> fs.files == locked.files);
        assert(out is Ok ==> put_reply_ok(out->Ok_0, w0, *fs, d, hv(expected), hash@));
    }
//@at before /match resp \{/
    let ghost w_unl = *fs;
    proof {
        assert(w_unl.nlock == w0.nlock + 1);
        assert(resp is Ok ==> put_reply_ok(resp->Ok_0, w0, w_unl, d, hv(expected), hash@));
        assert(resp is Err ==> w_unl.files == w_unl.seen);
    }
//@at? before /write_frame\(w, &Response::Error\(format!\("commit failed/
            proof { assert forall|s: String| #[trigger] put_reply_ok(Response::Error(s), w0, *fs, d, hv(expected), hash@) by {
                assert forall|p: PathV| !is_staging(p) implies (#[trigger] fs.files.dom().contains(p)) == fs.seen.dom().contains(p)
                    && (fs.files.dom().contains(p) ==> fs.files[p].bytes == fs.seen[p].bytes) by { assert(p != pbv(&tmp)); }
            } }
//@at loop ~/hasher\.update/ end
            proof {
                assert(fs.files.dom().contains(pbv(&tmp)));
                assert forall|p: PathV| !is_staging(p) implies (#[trigger] fs.files.dom().contains(p)) == w0.files.dom().contains(p)
                    && (fs.files.dom().contains(p) ==> fs.files[p].bytes == w0.files[p].bytes) by {
                    assert(!set![pbv(&tmp)].contains(p));
                    assert(wl.files.dom().contains(p) == w0.files.dom().contains(p));
                    assert(fs.files.dom().contains(p) == wl.files.dom().contains(p));
                }
            }
//@end

// R5 shims for handle_get's use of one open descriptor: hash it, rewind, stream `len` bytes of it
#[verifier::external_body]
pub fn vfs_hash_file(f: &mut vfs::File, hasher: &mut blake3::Hasher) -> (r: std::io::Result<u64>)      // std::io::copy(&mut f, &mut hasher)
    ensures final(f).snap() == old(f).snap(), final(f).path() == old(f).path(),
        r is Ok ==> blake3::hasher_view(final(hasher)) == blake3::hasher_view(old(hasher)) + old(f).snap() && r->Ok_0 == old(f).snap().len(),
{ unimplemented!() }
#[verifier::external_body]
pub fn vfs_seek_start(f: &mut vfs::File) -> (r: std::io::Result<u64>)                                     // f.seek(SeekFrom::Start(0))
    ensures final(f).snap() == old(f).snap(), final(f).path() == old(f).path(),
{ unimplemented!() }
#[verifier::external_body]
pub fn vfs_stream_file<W: Write>(f: vfs::File, len: u64, w: &mut W) -> (r: std::io::Result<u64>)          // std::io::copy(&mut f.take(len), w)
    ensures r is Ok ==> w_written(&*final(w)) == w_written(&*old(w)) + f.snap().take(if len as int <= f.snap().len() { len as int } else { f.snap().len() as int }),
{ unimplemented!() }
pub open spec fn frame_of_err(s: String) -> Seq<u8> { frame_of(Response::Error(s)) }
// what a Get puts on the wire: one frame, followed by content only for a Content reply
pub open spec fn get_reply_ok(m: Response, body: Seq<u8>) -> bool {
    match m {
        Response::Content { len, hash } => body.len() == len && H(body) == hash@,      // C10: announces exactly what it streams
        Response::Error(_) => body.len() == 0,
        _ => false,
    }
}

//@extract file=src/bin/copia/serve.rs fn=handle_get
//@ret res
//@param+
    Tracked(fs): Tracked<&World>
//@requires
    fs.root == pv(root),
//@ensures
    res is Ok ==> (exists|s: String| w_written(&*final(w)) == w_written(&*old(w)) + #[trigger] frame_of_err(s))
        || exists|m: Response, body: Seq<u8>| w_written(&*final(w)) == w_written(&*old(w)) + frame_of(m) + body && #[trigger] get_reply_ok(m, body),
//@replace? /std::fs::File::open\(((?:[^()]|\((?:[^()]|\([^()]*\))*\))*)\)/ => vfs::File::open(\1, Tracked(fs)) #all
//@replace? /std::io::copy\(&mut f, &mut hasher\)/ => vfs_hash_file(&mut f, &mut hasher)
//@replace? /f\.seek\(std::io::SeekFrom::Start\(0\)\)/ => vfs_seek_start(&mut f)
//@replace? /std::io::copy\(&mut f\.take\(len\), w\)/ => vfs_stream_file(f, len, w)
//@replace /"bad path"\.into\(\)/ => str_into("bad path")
//@replace /"not found"\.into\(\)/ => str_into("not found") #all
//@at entry
    broadcast use asp_path, asp_pathbuf, asp_pathbuf_val, asp_str;
    let ghost wr0 = w_written(&*w);
    proof { assert(forall|s: String| #[trigger] frame_of(Response::Error(s)) == frame_of_err(s)); }
//@at end
    proof {
        let m = Response::Content { len, hash };
        let body = f_snap;
        assert(Seq::<u8>::empty() + body =~= body);
        assert(body.take(body.len() as int) =~= body);
        assert(w_written(&*w) == wr0 + frame_of(m) + body);
        assert(get_reply_ok(m, body));
    }
//@at after /let hash = \*hasher\.finalize\(\)\.as_bytes\(\);/
    let ghost f_snap = f.snap();
//@end

//@extract file=src/bin/copia/wire.rs fn=read_magic
//@ret res
//@ensures
    // consumes exactly the six prologue bytes and says whether they are the magic
    res is Ok ==> r_pos(&*final(r)) == r_pos(&*old(r)) + 6
        && res->Ok_0 == is_magic(r_content(&*old(r)).subrange(r_pos(&*old(r)) as int, r_pos(&*old(r)) as int + 6)),
//@replace /Ok\(&m == MAGIC\)/ => Ok(magic_eq(&m))
//@end
pub uninterp spec fn is_magic(m: Seq<u8>) -> bool;
#[verifier::external_body] pub fn magic_eq(m: &[u8; 6]) -> (r: bool) ensures r == is_magic(m@) { unimplemented!() }   // `&m == MAGIC` (byte-string constant)

// ---- the server loop ----
pub struct VErr { _p: () }      // R11
impl From<std::io::Error> for VErr { #[verifier::external_body] fn from(e: std::io::Error) -> Self { VErr { _p: () } } }
#[verifier::external_body] pub fn str_into_verr(s: &str) -> VErr { unimplemented!() }
// R5 shims: locked, buffered stdin/stdout (A): a reader positioned at the start of the input, a writer
#[verifier::external_body] pub struct StdinR { _p: () }
#[verifier::external_body] pub struct StdoutW { _p: () }
impl std::io::Read for StdinR { #[verifier::external_body] fn read(&mut self, buf: &mut [u8]) -> std::io::Result<usize> { unimplemented!() } }
impl std::io::Write for StdoutW {
    #[verifier::external_body] fn write(&mut self, buf: &[u8]) -> std::io::Result<usize> { unimplemented!() }
    #[verifier::external_body] fn flush(&mut self) -> std::io::Result<()> { unimplemented!() }
}
#[verifier::external_body] pub fn stdin_reader() -> (r: StdinR) ensures r_pos(&r) == 0 { unimplemented!() }
#[verifier::external_body] pub fn stdout_writer() -> (r: StdoutW) { unimplemented!() }
// R5 shim for the List branch's iterator chain (scan + filter .copia + to_string_lossy + collect): reads only
#[verifier::external_body]
pub fn list_fingerprints(root: &Path, Tracked(w): Tracked<&World>) -> (r: BTreeMap<String, Fingerprint>) requires inside(w.root, pv(root)) { unimplemented!() }
// ghost trace of the session: did the prologue check pass, how many well-formed request frames were decoded
pub struct Trace { pub magic_ok: bool, pub frames: nat }
#[verifier::external_body] pub proof fn trace_magic(tracked t: &mut Trace) ensures final(t).magic_ok, final(t).frames == old(t).frames { }
#[verifier::external_body] pub proof fn trace_frame(tracked t: &mut Trace) ensures final(t).magic_ok == old(t).magic_ok, final(t).frames == old(t).frames + 1 { }
// domain (A): request paths are not reserved staging names; a relative path under a root is a staging name only if it ends in the suffix itself
pub open spec fn req_path(r: Request) -> Option<Seq<char>> {
    match r { Request::Get { path } => Some(path@), Request::Put { path, .. } => Some(path@), Request::Delete { path, .. } => Some(path@), _ => None }
}
pub broadcast axiom fn ax_req_domain(root: PathV, r: Request)
    requires #[trigger] in_domain(r), req_path(r) is Some
    ensures !#[trigger] is_staging(joinv(root, strv(req_path(r)->Some_0)));
pub broadcast axiom fn ax_rel_literals() ensures #[trigger] rel_ok(strv(".copia"@)), rel_ok(strv("commit.lock"@));

//@extract file=src/bin/copia/serve.rs fn=serve
//@attr
#[verifier::exec_allows_no_decreases_clause]
//@sig /Box<dyn std::error::Error>/ => VErr
//@ret res
//@param+
    Tracked(fs): Tracked<&mut World>, Tracked(tr): Tracked<&mut Trace>
//@requires
    old(fs).root == pv(root), !old(fs).lock, !old(tr).magic_ok, old(tr).frames == 0,
//@ensures
    final(fs).root == old(fs).root,
    // C12: apart from creating the served directory and its .copia control directory, nothing in the tree changes
    // unless the input starts with the magic prologue (and then only through the request handlers)
    (!final(tr).magic_ok || final(tr).frames == 0) ==> final(fs).files == old(fs).files
        && (final(fs).log.len() <= old(fs).log.len() + 2)
        && (forall|i: int| old(fs).log.len() <= i < final(fs).log.len() ==> #[trigger] final(fs).log[i] is Mkdir),
//@replace /std::fs::create_dir_all\(root\)/ => vfs_create_dir_all(root, Tracked(fs))
//@replace /std::fs::create_dir_all\(&lockdir\)/ => vfs_create_dir_all(&lockdir, Tracked(fs))
//@replace /BufReader::new\(std::io::stdin\(\)\.lock\(\)\)/ => stdin_reader()
//@replace /BufWriter::new\(std::io::stdout\(\)\.lock\(\)\)/ => stdout_writer()
//@replace /super::wire::read_magic/ => read_magic
//@replace /"client sent a bad protocol prologue \(not copia\)"\.into\(\)/ => str_into_verr("bad prologue")
//@replace /(?s)let fps = discover_local_fingerprints\(root\)\.unwrap_or_default\(\);\s*let map = fps\s*\.into_iter\(\)\s*\.filter\(\|\(p, _\)\| !p\.starts_with\("\.copia"\)\)\s*\.map\(\|\(p, f\)\| \(p\.to_string_lossy\(\)\.into_owned\(\), f\)\)\s*\.collect\(\);/ => let map = list_fingerprints(root, Tracked(&*fs));
//@replace /handle_get\(root, &path, &mut w\)/ => handle_get(root, &path, &mut w, Tracked(&*fs))
//@replace /handle_put\(root, &lockdir, &path, expected, len, hash, &mut r, &mut w\)/ => handle_put(root, &lockdir, &path, expected, len, hash, &mut r, &mut w, Tracked(fs))
//@replace /handle_delete\(root, &lockdir, &path, expected, &mut w\)/ => handle_delete(root, &lockdir, &path, expected, &mut w, Tracked(fs))
//@at entry
    broadcast use asp_path, asp_pathbuf, asp_pathbuf_val, asp_str, ax_rel_literals;
    let ghost w0 = *fs;
//@at after /let lockdir = root\.join\("\.copia"\);/
    proof { lemma_inside_join(pv(root), pv(root), strv(".copia"@)); }
//@at before /if !super::wire::read_magic\(&mut r\)\?/
    let ghost w_pro = *fs;
    proof { assert(w_pro.files == w0.files && w_pro.log.len() == w0.log.len() + 2); }
//@at before /while let Some\(req\)/
    proof { trace_magic(tr); }
//@loop 0 invariant
        fs.root == pv(root), !fs.lock, inside(pv(root), pbv(&lockdir)), pbv(&lockdir) == lockdir_of(pv(root)), w0 == *old(fs), w0.root == pv(root), tr.magic_ok,
        tr.frames == 0 ==> fs.files == w0.files && fs.log.len() == w0.log.len() + 2 && (forall|i: int| w0.log.len() <= i < fs.log.len() ==> #[trigger] fs.log[i] is Mkdir),
//@at loop 0 entry
        broadcast use asp_path, asp_pathbuf, asp_pathbuf_val, asp_str, ax_rel_literals;
        proof { trace_frame(tr); if req_path(req) is Some { ax_req_domain(pv(root), req); } }
//@end
