// ---- CLI wrappers of src/bin/copia/main.rs: run_signature / run_delta / run_patch (async erased R4, boxed error R11) ----
pub open spec fn is_pow2(n: int) -> bool { exists|k: nat| n == vstd::arithmetic::power2::pow2(k) }
pub assume_specification [usize::is_power_of_two] (x: usize) -> (r: bool) ensures r == is_pow2(x as int);
pub open spec fn valid_bs(n: usize) -> bool { is_pow2(n as int) && 512 <= n <= 65536 }
// R5 shim for `(512..=65536).contains(&x)`
#[verifier::external_body]
pub fn in_cli_range(x: usize) -> (r: bool) ensures r == (512 <= x <= 65536) { (512..=65536).contains(&x) }

// R11: Box<dyn std::error::Error> => opaque error channel; payloads are never inspected by a contract
pub struct VErr { _p: () }
#[verifier::external_body] pub struct BincodeErr { _p: () }
impl From<String> for VErr { #[verifier::external_body] fn from(e: String) -> Self { VErr { _p: () } } }
impl From<std::io::Error> for VErr { #[verifier::external_body] fn from(e: std::io::Error) -> Self { VErr { _p: () } } }
impl From<CopiaError> for VErr { #[verifier::external_body] fn from(e: CopiaError) -> Self { VErr { _p: () } } }
impl From<BincodeErr> for VErr { #[verifier::external_body] fn from(e: BincodeErr) -> Self { VErr { _p: () } } }

// tokio::fs / tokio::io / bincode by contract only (A). A file's bytes are an uninterpreted function of its path at
// the time of the call (no world model here: this unit decides panic-freedom and the patch result clause).
pub uninterp spec fn file_bytes(p: &PathBuf) -> Seq<u8>;
pub mod tokio {
    use super::*;
    pub mod fs {
        use super::super::*;
        #[verifier::external_body] pub struct File { _p: () }
        impl File {
            #[verifier::external_body]
            pub fn open(p: &PathBuf) -> (r: std::result::Result<File, std::io::Error>)
                ensures r is Ok ==> r_content(&r->Ok_0) == file_bytes(p) && stream_of(&r->Ok_0) == file_bytes(p) { unimplemented!() }
            #[verifier::external_body]
            pub fn create(p: &PathBuf) -> (r: std::result::Result<File, std::io::Error>)
                ensures r is Ok ==> w_written(&r->Ok_0) == Seq::<u8>::empty() { unimplemented!() }
        }
        impl std::io::Read for File { #[verifier::external_body] fn read(&mut self, buf: &mut [u8]) -> std::io::Result<usize> { unimplemented!() } }
        impl std::io::Seek for File { #[verifier::external_body] fn seek(&mut self, pos: SeekFrom) -> std::io::Result<u64> { unimplemented!() } }
        impl std::io::Write for File {
            #[verifier::external_body] fn write(&mut self, buf: &[u8]) -> std::io::Result<usize> { unimplemented!() }
            #[verifier::external_body] fn flush(&mut self) -> std::io::Result<()> { unimplemented!() }
        }
        #[verifier::external_body]
        pub fn read(p: &PathBuf) -> (r: std::result::Result<Vec<u8>, std::io::Error>) ensures r is Ok ==> r->Ok_0@ == file_bytes(p) { unimplemented!() }
        #[verifier::external_body]
        pub fn write(p: &PathBuf, data: Vec<u8>) -> (r: std::result::Result<(), std::io::Error>) { unimplemented!() }
    }
    pub mod io {
        use super::super::*;
        #[verifier::external_body] #[verifier::reject_recursive_types(R)] pub struct BufReader<R> { _p: core::marker::PhantomData<R> }
        impl<R: Read> BufReader<R> {
            #[verifier::external_body]
            pub fn new(inner: R) -> (r: BufReader<R>) ensures stream_of(&r) == stream_of(&inner) { unimplemented!() }
        }
        impl<R: Read> std::io::Read for BufReader<R> { #[verifier::external_body] fn read(&mut self, buf: &mut [u8]) -> std::io::Result<usize> { unimplemented!() } }
    }
}
pub mod bincode {
    use super::*;
    pub uninterp spec fn sig_file(b: Seq<u8>) -> Signature;     // what a byte string deserialises to (if it does)
    pub uninterp spec fn delta_file(b: Seq<u8>) -> Delta;
    #[verifier::external_body]
    pub fn serialize_sig(s: &Signature) -> (r: std::result::Result<Vec<u8>, BincodeErr>) ensures r is Ok ==> sig_file(r->Ok_0@) == *s { unimplemented!() }
    #[verifier::external_body]
    pub fn serialize_delta(d: &Delta) -> (r: std::result::Result<Vec<u8>, BincodeErr>) ensures r is Ok ==> delta_file(r->Ok_0@) == *d { unimplemented!() }
    #[verifier::external_body]
    pub fn deserialize_sig(b: &[u8]) -> (r: std::result::Result<Signature, BincodeErr>) ensures r is Ok ==> r->Ok_0 == sig_file(b@) { unimplemented!() }
    // a Delta that exists in memory has a total declared length below 2^64 (it would need > 2^32 operations otherwise) (A)
    #[verifier::external_body]
    pub fn deserialize_delta(b: &[u8]) -> (r: std::result::Result<Delta, BincodeErr>)
        ensures r is Ok ==> r->Ok_0 == delta_file(b@) && total_len(r->Ok_0.ops@) <= u64::MAX { unimplemented!() }
}
// R5 shim for `output.unwrap_or_else(|| { let mut p = X.clone(); p.set_extension(EXT); p })`
#[verifier::external_body]
pub fn default_output(output: Option<PathBuf>, base: &PathBuf) -> (r: PathBuf) { unimplemented!() }

impl SyncConfig {
//@extract file=src/sync.rs impl="Default for SyncConfig" fn=default
//@ret r
//@ensures
        r.verify_checksum,      // verification is ON by default
//@end
}
impl AsyncCopiaSync {
//@extract file=src/async_sync.rs impl="AsyncCopiaSync" fn=with_block_size
//@ret r
//@requires
        valid_bs(block_size),   // the function asserts it: `assert!` => caller obligation (R2'): a panic reachable from a
                                // file's content shows up as a failed call-site precondition
//@ensures
        r.bs() == block_size, r.verify(),
//@twin /block_size\.is_power_of_two\(\) && \(512\.\.=65536\)\.contains\(&block_size\)/ => valid_bs(block_size)
//@end
}
//@extract file=src/bin/copia/main.rs fn=validate_block_size
//@sig /Result<\(\)/ => std::result::Result<()
//@ret r
//@ensures
    r is Ok <==> valid_bs(size),
//@replace /\(512\.\.=65536\)\.contains\(&size\)/ => in_cli_range(size)
//@end
