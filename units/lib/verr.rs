// R11: Box<dyn std::error::Error> => opaque error channel; payloads are never inspected by a contract
pub struct VErr { _p: () }
impl From<std::io::Error> for VErr { #[verifier::external_body] fn from(e: std::io::Error) -> Self { VErr { _p: () } } }
impl From<String> for VErr { #[verifier::external_body] fn from(e: String) -> Self { VErr { _p: () } } }
