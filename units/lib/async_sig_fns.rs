// R5 shim for the expression `reader.read(&mut buffer[bytes_read..])` (mutable sub-slice of a Vec: no vstd spec);
// its body is that very expression
#[verifier::external_body]
pub fn read_at<R: Read>(r: &mut R, buf: &mut Vec<u8>, from: usize) -> (res: std::result::Result<usize, std::io::Error>)
    requires from <= old(buf)@.len()
    ensures
        final(buf)@.len() == old(buf)@.len(),
        res is Ok ==> ({
            let n = res->Ok_0 as int; let st = stream_of(&*old(r));
            &&& n <= old(buf)@.len() - from && n <= st.len()
            &&& (n == 0 ==> from == old(buf)@.len() || st.len() == 0)
            &&& final(buf)@.subrange(0, from as int) == old(buf)@.subrange(0, from as int)
            &&& final(buf)@.subrange(from as int, from + n) == st.subrange(0, n)
            &&& stream_of(&*final(r)) == st.skip(n)
        }),
{ r.read(&mut buf[from..]) }

impl AsyncCopiaSync {
//@extract file=src/async_sync.rs impl="AsyncCopiaSync" fn=signature
//@sig /pub async fn/ => pub fn
//@sig /AsyncRead \+ Unpin/ => Read
//@replace /\.await/ =>  #all
//@replace /reader\.read\(&mut buffer\[bytes_read\.\.\]\)/ => read_at(&mut reader, &mut buffer, bytes_read)
//@replace /let mut blocks = Vec::new\(\);/ => let mut blocks: Vec<BlockSignature> = Vec::new();
//@ret res
//@requires
        0 < self.bs(),
        stream_of(&reader).len() < 0xFFFF_FFFF * (self.bs() as int),     // block index < 2^32
        stream_of(&reader).len() < 0x7fff_ffff_ffff_ffff,
//@ensures
        res is Ok ==> sig_of(res->Ok_0, stream_of(&reader)) && res->Ok_0.block_size == self.bs(),
//@at entry
        let ghost s0 = stream_of(&reader);
        let ghost mut consumed: int = 0;
//@at before-loop 0
        proof { lemma_basic_div(block_size as int - 1, block_size as int); }
//@loop 0 invariant
            block_size == self.bs(), block_size > 0, buffer@.len() == block_size,
            0 <= consumed <= s0.len(), stream_of(&reader) == s0.skip(consumed),
            s0.len() < 0xFFFF_FFFF * (block_size as int), s0.len() < 0x7fff_ffff_ffff_ffff,
            file_size == consumed, index as int == blocks@.len(),
            consumed < s0.len() ==> consumed == index as int * block_size as int,      // every block so far is full
            blocks@.len() == nblocks(consumed, block_size as int),
            forall|j: int| 0 <= j < blocks@.len() ==> {
                &&& (#[trigger] blocks@[j]).index == j
                &&& blocks@[j].weak_hash == dig(block(s0, block_size as int, j))
                &&& blocks@[j].strong_hash.bytes() == H(block(s0, block_size as int, j))
                &&& 0 <= j * block_size < s0.len()
            },
//@loop 0 ensures
            // on exit the whole stream was consumed
            consumed == s0.len(), file_size == s0.len(),
            blocks@.len() == nblocks(s0.len() as int, block_size as int),
            forall|j: int| 0 <= j < blocks@.len() ==> {
                &&& (#[trigger] blocks@[j]).index == j
                &&& blocks@[j].weak_hash == dig(block(s0, block_size as int, j))
                &&& blocks@[j].strong_hash.bytes() == H(block(s0, block_size as int, j))
                &&& 0 <= j * block_size < s0.len()
            },
//@loop 0 decreases
            s0.len() - consumed
//@loop 1 decreases
                block_size - bytes_read
//@at loop 1 entry
                let ghost br0 = bytes_read as int;
                let ghost buf0 = buffer@;
                let ghost st0 = stream_of(&reader);
//@at loop 1 end
                proof {
                    let n = bytes_read as int - br0;
                    assert(st0 == s0.skip(consumed + br0));
                    assert(s0.skip(consumed + br0).skip(n) =~= s0.skip(consumed + bytes_read));
                    assert(buffer@.subrange(0, bytes_read as int) =~= buffer@.subrange(0, br0) + buffer@.subrange(br0, br0 + n));
                    assert(s0.subrange(consumed, consumed + bytes_read) =~= s0.subrange(consumed, consumed + br0) + st0.subrange(0, n));
                }
//@at before /let data = &buffer\[\.\.bytes_read\];/
            let ghost blocks0 = blocks@;
            proof {
                let j = blocks@.len() as int; let bs = block_size as int;
                assert(consumed < s0.len());
                assert(j * bs == consumed);
                assert((j + 1) * bs == consumed + bs) by(nonlinear_arith) requires j * bs == consumed;
                assert(block(s0, bs, j) =~= s0.subrange(consumed, consumed + bytes_read));
                assert(j < 0xFFFF_FFFF) by(nonlinear_arith) requires j * bs == consumed, consumed < s0.len(), s0.len() < 0xFFFF_FFFF * bs, bs > 0;
                // one more (possibly short) block: nblocks grows by exactly one
                assert(consumed + bytes_read + bs - 1 == bs * (j + 1) + (bytes_read - 1)) by(nonlinear_arith) requires j * bs == consumed;
                lemma_div_multiples_vanish_fancy(j + 1, bytes_read as int - 1, bs);
                assert(nblocks(consumed + bytes_read, bs) == j + 1);
            }
//@at loop 0 end
            proof {
                let j = blocks0.len() as int; let bs = block_size as int;
                assert(blocks@ =~= blocks0.push(blocks@[j]));
                assert forall|k: int| 0 <= k < blocks@.len() implies {
                    &&& (#[trigger] blocks@[k]).index == k
                    &&& blocks@[k].weak_hash == dig(block(s0, bs, k))
                    &&& blocks@[k].strong_hash.bytes() == H(block(s0, bs, k))
                    &&& 0 <= k * bs < s0.len()
                } by { if k < j { assert(blocks@[k] == blocks0[k]); } }
                consumed = consumed + bytes_read as int;
                if consumed < s0.len() {
                    assert(bytes_read == block_size);
                    assert((j + 1) * bs == j * bs + bs) by(nonlinear_arith);
                }
            }
//@loop 1 invariant
                block_size == self.bs(), buffer@.len() == block_size, bytes_read <= block_size,
                0 <= consumed, consumed + bytes_read <= s0.len(),
                stream_of(&reader) == s0.skip(consumed + bytes_read),
                buffer@.subrange(0, bytes_read as int) == s0.subrange(consumed, consumed + bytes_read),
//@loop 1 ensures
                bytes_read <= block_size, consumed + bytes_read <= s0.len(),
                stream_of(&reader) == s0.skip(consumed + bytes_read),
                buffer@.subrange(0, bytes_read as int) == s0.subrange(consumed, consumed + bytes_read),
                bytes_read == block_size || consumed + bytes_read == s0.len(),
//@end
}
