// ---- is_excluded (C15/C19): per-component vs whole-path rule over an assumed component grammar ----
// R5 shim types for std::path::Component / OsStr as used by `is_excluded`; the grammar of
// `Path::components()` itself is assumed (uninterpreted `comps`) and validated against real std by the twin check.
pub struct OsStrV { pub s: String }
impl OsStrV {
    pub fn to_string_lossy(&self) -> (r: &str) ensures r@ == self.s@ { self.s.as_str() }
}
pub enum Component { Prefix, RootDir, CurDir, ParentDir, Normal(OsStrV) }
pub uninterp spec fn lossy(p: PathV) -> Seq<char>;                 // to_string_lossy of the whole path
pub uninterp spec fn normal_comps(p: PathV) -> Seq<Seq<char>>;     // lossy text of the Normal components, in order
pub open spec fn comp_text(c: Component) -> Option<Seq<char>> {
    match c { Component::Normal(o) => Some(o.s@), _ => None }
}
pub open spec fn normals(cs: Seq<Component>) -> Seq<Seq<char>> decreases cs.len() {
    if cs.len() == 0 { Seq::empty() } else {
        match comp_text(cs.last()) { Some(t) => normals(cs.drop_last()).push(t), None => normals(cs.drop_last()) }
    }
}
#[verifier::external_body]
pub fn path_components(rel: &Path) -> (r: Vec<Component>) ensures normals(r@) == normal_comps(pv(rel)) { unimplemented!() }
#[verifier::external_body]
pub fn path_to_string_lossy(rel: &Path) -> (r: String) ensures r@ == lossy(pv(rel)) { unimplemented!() }
pub open spec fn trim_slash(s: Seq<char>) -> Seq<char> decreases s.len() {
    if s.len() > 0 && s.last() == '/' { trim_slash(s.drop_last()) } else { s }
}
#[verifier::external_body]
pub fn str_trim_end_slash(s: &str) -> (r: &str) ensures r@ == trim_slash(s@) { unimplemented!() }
#[verifier::external_body]
pub fn str_is_empty(s: &str) -> (r: bool) ensures r == (s@.len() == 0) { unimplemented!() }
#[verifier::external_body]
pub fn str_contains_slash(s: &str) -> (r: bool) ensures r == s@.contains('/') { unimplemented!() }

// the exclude rule of C15, as a definition
pub open spec fn pat_matches(pat: Seq<char>, rel: PathV) -> bool {
    let t = trim_slash(pat);
    t.len() > 0 && (if t.contains('/') { gm(t, lossy(rel)) }
                    else { exists|k: int| 0 <= k < normal_comps(rel).len() && gm(t, #[trigger] normal_comps(rel)[k]) })
}
pub open spec fn ex(rel: PathV, excludes: Seq<String>) -> bool {
    exists|i: int| 0 <= i < excludes.len() && pat_matches((#[trigger] excludes[i])@, rel)
}
pub proof fn lemma_normals_push(cs: Seq<Component>, c: Component)
    ensures normals(cs.push(c)) == (match comp_text(c) { Some(t) => normals(cs).push(t), None => normals(cs) })
{ assert(cs.push(c).drop_last() =~= cs); }

// membership in normals(cs) <=> some Normal component of cs carries that text
pub proof fn lemma_normals_mem(cs: Seq<Component>)
    ensures
        forall|j: int| 0 <= j < cs.len() && comp_text(#[trigger] cs[j]) is Some ==> normals(cs).contains(comp_text(cs[j])->Some_0),
        forall|k: int| 0 <= k < normals(cs).len() ==> exists|j: int| 0 <= j < cs.len() && comp_text(#[trigger] cs[j]) == Some(#[trigger] normals(cs)[k]),
    decreases cs.len()
{
    if cs.len() > 0 {
        let d = cs.drop_last();
        lemma_normals_mem(d);
        let nd = normals(d);
        assert forall|j: int| 0 <= j < cs.len() && comp_text(#[trigger] cs[j]) is Some implies normals(cs).contains(comp_text(cs[j])->Some_0) by {
            let x = comp_text(cs[j])->Some_0;
            if j < d.len() {
                assert(d[j] == cs[j]);
                assert(nd.contains(x));
                let k = choose|k: int| 0 <= k < nd.len() && nd[k] == x;
                assert(normals(cs)[k] == x);
            } else {
                assert(cs[j] == cs.last());
                assert(normals(cs) == nd.push(x));
                assert(normals(cs)[nd.len() as int] == x);
            }
        }
        assert forall|k: int| 0 <= k < normals(cs).len() implies exists|j: int| 0 <= j < cs.len() && comp_text(#[trigger] cs[j]) == Some(#[trigger] normals(cs)[k]) by {
            if k < nd.len() {
                assert(normals(cs)[k] == nd[k]);
                let j = choose|j: int| 0 <= j < d.len() && comp_text(#[trigger] d[j]) == Some(nd[k]);
                assert(cs[j] == d[j]);
            } else {
                assert(comp_text(cs.last()) is Some);
                assert(comp_text(cs[cs.len() - 1]) == Some(normals(cs)[k]));
            }
        }
    }
}

//@extract file=src/bin/copia/plan.rs fn=is_excluded
//@ret r
//@ensures
    r == ex(pv(rel), excludes@),
//@replace /pat\.trim_end_matches\('\/'\)/ => str_trim_end_slash(pat)
//@replace /pat\.is_empty\(\)/ => str_is_empty(pat)
//@replace /pat\.contains\('\/'\)/ => str_contains_slash(pat)
//@replace /&rel\.to_string_lossy\(\)/ => &path_to_string_lossy(rel)
//@replace /for comp in rel\.components\(\)(?= \{)/ => for comp in cit: &cv
//@loop 0 iter pit
//@loop 0 invariant
        forall|i: int| 0 <= i < pit.index() ==> !pat_matches((#[trigger] excludes@[i])@, pv(rel)),
        pit.seq().len() == excludes@.len(), forall|i: int| 0 <= i < pit.seq().len() ==> *(#[trigger] pit.seq()[i]) == excludes@[i],
//@at loop 0 entry
        let ghost pat0 = pat@;
        assert(pat0 == excludes@[pit.index() as int]@);
//@at before /for comp in/
                let cv = path_components(rel);
                proof { lemma_normals_mem(cv@); }
//@loop 1 invariant
                    cit.seq().len() == cv@.len(), (forall|j: int| 0 <= j < cit.seq().len() ==> *(#[trigger] cit.seq()[j]) == cv@[j]), pat@ == trim_slash(pat0), pat@.len() > 0, !pat@.contains('/'),
                    normals(cv@) == normal_comps(pv(rel)), 0 <= pit.index() < excludes@.len(), pat0 == excludes@[pit.index() as int]@,
                    forall|j: int| 0 <= j < cit.index() ==> (comp_text(#[trigger] cv@[j]) is Some ==> !gm(pat@, comp_text(cv@[j])->Some_0)),
//@at loop 1 entry
                    proof { lemma_normals_mem(cv@); }
//@at before /return true/ #0
                proof { assert(pat_matches(excludes@[pit.index() as int]@, pv(rel))); }
//@at before /return true/ #1
                        proof {
                            let jx = cit.index() as int;
                            assert(*cit.seq()[jx] == cv@[jx]);
                            let tx = comp_text(cv@[jx])->Some_0;
                            assert(normals(cv@).contains(tx));
                            let kx = choose|k: int| 0 <= k < normals(cv@).len() && normals(cv@)[k] == tx;
                            assert(gm(pat@, normal_comps(pv(rel))[kx]));
                            assert(pat_matches(excludes@[pit.index() as int]@, pv(rel)));
                        }
//@at after loop 1
                proof {
                    assert(!pat_matches(pat0, pv(rel))) by {
                        if pat_matches(pat0, pv(rel)) {
                            let k = choose|k: int| 0 <= k < normal_comps(pv(rel)).len() && gm(pat@, #[trigger] normal_comps(pv(rel))[k]);
                            let j = choose|j: int| 0 <= j < cv@.len() && comp_text(#[trigger] cv@[j]) == Some(normals(cv@)[k]);
                            assert(comp_text(cv@[j]) is Some);
                        }
                    }
                }
//@at end
    proof {
        assert(!ex(pv(rel), excludes@)) by {
            if ex(pv(rel), excludes@) {
                let i = choose|i: int| 0 <= i < excludes@.len() && pat_matches((#[trigger] excludes@[i])@, pv(rel));
            }
        }
    }
//@end
