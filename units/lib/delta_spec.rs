// ---- meaning of a copy/literal program (DESIGN §2.3) ----
pub open spec fn op_out(op: DeltaOp, basis: Seq<u8>) -> Seq<u8> {
    match op { DeltaOp::Copy { offset, len } => basis.subrange(offset as int, offset + len), DeltaOp::Literal(d) => d@ }
}
pub open spec fn op_ok(op: DeltaOp, n: int) -> bool {
    match op { DeltaOp::Copy { offset, len } => len > 0 && offset + len <= n, DeltaOp::Literal(d) => true }
}
pub open spec fn op_lit(op: DeltaOp) -> nat { match op { DeltaOp::Literal(d) => d@.len(), _ => 0nat } }
pub open spec fn op_cpy(op: DeltaOp) -> nat { match op { DeltaOp::Copy { offset, len } => len as nat, _ => 0nat } }
pub open spec fn op_len(op: DeltaOp) -> nat { op_lit(op) + op_cpy(op) }
pub open spec fn out(ops: Seq<DeltaOp>, basis: Seq<u8>) -> Seq<u8> decreases ops.len() {
    if ops.len() == 0 { Seq::empty() } else { out(ops.drop_last(), basis) + op_out(ops.last(), basis) }
}
pub open spec fn lit(ops: Seq<DeltaOp>) -> nat decreases ops.len() {
    if ops.len() == 0 { 0 } else { lit(ops.drop_last()) + op_lit(ops.last()) }
}
pub open spec fn cpy(ops: Seq<DeltaOp>) -> nat decreases ops.len() {
    if ops.len() == 0 { 0 } else { cpy(ops.drop_last()) + op_cpy(ops.last()) }
}
pub open spec fn total_len(ops: Seq<DeltaOp>) -> nat decreases ops.len() {
    if ops.len() == 0 { 0 } else { total_len(ops.drop_last()) + op_len(ops.last()) }
}
// every Copy is non-empty and inside a basis of n bytes
pub open spec fn ops_ok(ops: Seq<DeltaOp>, n: int) -> bool { forall|k: int| 0 <= k < ops.len() ==> op_ok(#[trigger] ops[k], n) }
// no Copy end overflows u64 (what push_copy's merge test needs to be panic-free)
pub open spec fn ops_nooverflow(ops: Seq<DeltaOp>) -> bool {
    forall|k: int| 0 <= k < ops.len() ==> (match #[trigger] ops[k] { DeltaOp::Copy { offset, len } => offset + len <= u64::MAX, _ => true })
}
pub proof fn lemma_total_is_lit_plus_cpy(ops: Seq<DeltaOp>)
    ensures total_len(ops) == lit(ops) + cpy(ops)
    decreases ops.len()
{ if ops.len() > 0 { lemma_total_is_lit_plus_cpy(ops.drop_last()); } }
pub proof fn lemma_total_mono(ops: Seq<DeltaOp>, k: int)
    requires 0 <= k <= ops.len()
    ensures total_len(ops.take(k)) <= total_len(ops)
    decreases ops.len() - k
{
    if k < ops.len() {
        lemma_total_mono(ops, k + 1);
        assert(ops.take(k + 1).drop_last() =~= ops.take(k));
    } else { assert(ops.take(k) =~= ops); }
}
pub proof fn lemma_out_len(ops: Seq<DeltaOp>, basis: Seq<u8>)
    requires ops_ok(ops, basis.len() as int)
    ensures out(ops, basis).len() == total_len(ops)
    decreases ops.len()
{
    if ops.len() > 0 {
        let d = ops.drop_last();
        assert forall|k: int| 0 <= k < d.len() implies op_ok(#[trigger] d[k], basis.len() as int) by { assert(d[k] == ops[k]); }
        lemma_out_len(d, basis);
        assert(op_ok(ops[ops.len() - 1], basis.len() as int));
    }
}
// what `validate` accepts: every Copy end (saturated at u64::MAX, as the code computes it) is within the DECLARED basis size
pub open spec fn copy_in(op: DeltaOp, basis_size: u64) -> bool {
    match op { DeltaOp::Copy { offset, len } => (if offset + len > u64::MAX { u64::MAX as int } else { offset + len }) <= basis_size, _ => true }
}
pub open spec fn valid_ops(ops: Seq<DeltaOp>, basis_size: u64) -> bool { forall|k: int| 0 <= k < ops.len() ==> copy_in(#[trigger] ops[k], basis_size) }
