// ---- textbook greedy rsync scan (C16) ----
pub open spec fn matchp(s: Seq<u8>, basis: Seq<u8>, bs: int, pos: int) -> bool {
    exists|j: int| 0 <= j && (j + 1) * bs <= basis.len() && #[trigger] basis.subrange(j * bs, (j + 1) * bs) == s.subrange(pos, pos + bs)
}
// literal bytes the textbook scan emits from pos: a window equal to some FULL basis block => copy, jump one block;
// otherwise one literal byte
pub open spec fn g_lit(s: Seq<u8>, basis: Seq<u8>, bs: int, pos: int) -> nat
    decreases s.len() - pos
{
    if bs <= 0 || pos < 0 || pos + bs > s.len() { if 0 <= pos <= s.len() { (s.len() - pos) as nat } else { 0 } }
    else if matchp(s, basis, bs, pos) { g_lit(s, basis, bs, pos + bs) }
    else { 1 + g_lit(s, basis, bs, pos + 1) }
}
pub proof fn lemma_g_lit_nomatch(s: Seq<u8>, basis: Seq<u8>, bs: int, pos: int)
    requires bs > 0, basis.len() == 0, 0 <= pos <= s.len()
    ensures g_lit(s, basis, bs, pos) == s.len() - pos
    decreases s.len() - pos
{
    if pos + bs <= s.len() {
        assert(!matchp(s, basis, bs, pos)) by {
            assert forall|j: int| 0 <= j && (j + 1) * bs <= basis.len() implies !(#[trigger] basis.subrange(j * bs, (j + 1) * bs) == s.subrange(pos, pos + bs)) by {
                assert((j + 1) * bs >= bs) by(nonlinear_arith) requires j >= 0, bs > 0;
            }
        }
        lemma_g_lit_nomatch(s, basis, bs, pos + 1);
    }
}
// corollary of C16: a source identical to the basis costs fewer literal bytes than one block
pub proof fn lemma_g_lit_identical(b: Seq<u8>, bs: int, pos: int)
    requires bs > 0, 0 <= pos <= b.len(), pos % bs == 0
    ensures g_lit(b, b, bs, pos) < bs
    decreases b.len() - pos
{
    if pos + bs <= b.len() {
        let j = pos / bs;
        lemma_fundamental_div_mod(pos, bs);
        assert(bs * j == j * bs && bs * (j + 1) == (j + 1) * bs && bs * (j + 1) == bs * j + bs) by(nonlinear_arith);
        assert(j * bs == pos && (j + 1) * bs == pos + bs);
        assert(b.subrange(j * bs, (j + 1) * bs) == b.subrange(pos, pos + bs));
        assert(matchp(b, b, bs, pos));
        lemma_mod_add_multiples_vanish(pos, bs);
        assert(bs + pos == pos + bs);
        lemma_g_lit_identical(b, bs, pos + bs);
    }
}
// the code's match decision == the textbook predicate (needs exact weak digests: C17, and no BLAKE3 collision)
pub proof fn lemma_match_iff(sig: Signature, basis: Seq<u8>, s: Seq<u8>, pos: int, weak: u32)
    requires sig_of(sig, basis), 0 <= pos, pos + sig.block_size <= s.len(), weak == dig(s.subrange(pos, pos + sig.block_size)), collision_free(),
    ensures
        matchp(s, basis, sig.block_size as int, pos) ==>
            exists|j: int| 0 <= j < sig.blocks@.len() && (#[trigger] sig.blocks@[j]).weak_hash == weak
                && sig.blocks@[j].strong_hash.bytes() == H(s.subrange(pos, pos + sig.block_size)),
        forall|j: int| 0 <= j < sig.blocks@.len() && (#[trigger] sig.blocks@[j]).strong_hash.bytes() == H(s.subrange(pos, pos + sig.block_size))
            ==> (j + 1) * sig.block_size <= basis.len() && basis.subrange(j * sig.block_size, (j + 1) * sig.block_size) == s.subrange(pos, pos + sig.block_size),
{
    let bs = sig.block_size as int;
    let win = s.subrange(pos, pos + bs);
    if matchp(s, basis, bs, pos) {
        let j = choose|j: int| 0 <= j && (j + 1) * bs <= basis.len() && #[trigger] basis.subrange(j * bs, (j + 1) * bs) == win;
        assert(j < nblocks(basis.len() as int, bs)) by(nonlinear_arith)
            requires 0 <= j, (j + 1) * bs <= basis.len(), bs > 0, nblocks(basis.len() as int, bs) == (basis.len() + bs - 1) / bs;
        assert(block(basis, bs, j) == win);
        assert(sig.blocks@[j].weak_hash == weak);
    }
    assert forall|j: int| 0 <= j < sig.blocks@.len() && (#[trigger] sig.blocks@[j]).strong_hash.bytes() == H(win)
        implies (j + 1) * bs <= basis.len() && basis.subrange(j * bs, (j + 1) * bs) == win by {
        assert(H(block(basis, bs, j)) == H(win));
        assert(block(basis, bs, j) == win);
        assert(win.len() == bs);
        assert((j + 1) * bs == j * bs + bs) by(nonlinear_arith);
        if (j + 1) * bs > basis.len() {
            assert(block(basis, bs, j).len() == basis.len() - j * bs);
            assert(false);
        }
    }
}
