// ---- ghost world for the hub server (DESIGN §2.4): files + commit lock + process-private names + confinement root.
// A model of the OS and of the OTHER server processes, not of copia. All ASSUMED (A). ----
//@include path_algebra.rs
pub struct FileS { pub bytes: Seq<u8>, pub synced: bool }
pub enum Eff { Mkdir(PathV), Write(PathV), Sync(PathV), Rename(PathV, PathV), Unlink(PathV) }
pub struct World {
    pub files: Map<PathV, FileS>,
    pub root: PathV,                // the served directory: every path handed to a primitive must be under it (C11)
    pub lock: bool,                 // this process holds <root>/.copia/commit.lock (C03)
    pub private: Set<PathV>,        // names no other process or request touches (C10)
    pub verified: Map<PathV, Seq<u8>>,   // staging files whose bytes were checked against a declared hash: path -> that hash
    pub log: Seq<Eff>,
    pub reliable: bool,
    pub seen: Map<PathV, FileS>,    // ghost history: the tree as it was when this process last ACQUIRED the commit lock
    pub nlock: nat,                 // ghost history: how many times this process acquired the commit lock
}
pub open spec fn ends_with(p: PathV, suf: PathV) -> bool { exists|q: PathV| p == #[trigger] (q + suf) }
pub open spec fn is_staging(p: PathV) -> bool { ends_with(p, TMP()) }
// confinement (C11): a path is inside the served directory if it is root itself or root joined with a relative path
// that has no `..`, root or prefix component. `rel_ok` is the (assumed) std::path component grammar, validated by the twin.
pub uninterp spec fn rel_ok(x: PathV) -> bool;
pub uninterp spec fn no_slash(s: PathV) -> bool;
// THE commit lock file. flock is held on an inode: mutual exclusion across server processes needs every process to lock
// the SAME inode, so the name <root>/.copia/commit.lock must stay bound to it - it is never unlinked, renamed or replaced
pub open spec fn lockdir_of(root: PathV) -> PathV { joinv(root, strv(".copia"@)) }
pub open spec fn lockfile(root: PathV) -> PathV { joinv(lockdir_of(root), strv("commit.lock"@)) }
pub open spec fn inside(root: PathV, p: PathV) -> bool { p == root || exists|x: PathV| p == #[trigger] joinv(root, x) && rel_ok(x) }
// the parent directory of a path inside the root (other than the root itself) is inside the root
pub broadcast axiom fn ax_parent_inside(root: PathV, q: PathV, p: PathV)
    requires inside(root, q), q != root, #[trigger] parent_rel(q, p)
    ensures #[trigger] inside(root, p);
pub open spec fn same_except(new: Map<PathV, FileS>, old: Map<PathV, FileS>, s: Set<PathV>) -> bool {
    forall|p: PathV| !s.contains(p) ==> (#[trigger] new.dom().contains(p)) == old.dom().contains(p)
        && (new.dom().contains(p) ==> new[p].bytes == old[p].bytes && (old[p].synced ==> new[p].synced))
}
// everything but the files and the log is unchanged by a primitive
pub open spec fn same_ctl(n: World, o: World) -> bool {
    n.root == o.root && n.lock == o.lock && n.private == o.private && n.reliable == o.reliable && n.verified == o.verified
        && n.seen == o.seen && n.nlock == o.nlock
}
// a name that embeds this process's id and a per-process counter is used by no other process and by no other request
pub uninterp spec fn private_name(p: PathV) -> bool;

#[verifier::external_body]
pub fn vfs_create_dir_all<P: AsRef<Path>>(p: P, Tracked(w): Tracked<&mut World>) -> (r: std::io::Result<()>)
    requires inside(old(w).root, asp(p)),
    ensures final(w).files == old(w).files, same_ctl(*final(w), *old(w)), final(w).log == old(w).log.push(Eff::Mkdir(asp(p))),
{ unimplemented!() }

#[verifier::external_body]
pub fn vfs_rename<P: AsRef<Path>, Q: AsRef<Path>>(from: P, to: Q, Tracked(w): Tracked<&mut World>) -> (r: std::io::Result<()>)
    requires
        inside(old(w).root, asp(from)), inside(old(w).root, asp(to)),                         // C11
        asp(from) != lockfile(old(w).root), asp(to) != lockfile(old(w).root),                 // C03: the lock file keeps its inode
        !is_staging(asp(to)) ==> old(w).lock,                                               // C03: live paths change only under the commit lock
        // C10: what is published is a process-private staging file, flushed, whose bytes were checked against the declared hash
        old(w).files.contains_key(asp(from)) ==> old(w).private.contains(asp(from)) && old(w).files[asp(from)].synced
            && old(w).verified.contains_key(asp(from)),
    ensures
        same_ctl(*final(w), *old(w)),
        r is Ok ==> old(w).files.contains_key(asp(from))
            && final(w).files == old(w).files.remove(asp(from)).insert(asp(to), old(w).files[asp(from)])
            && final(w).log == old(w).log.push(Eff::Rename(asp(from), asp(to))),
        r is Err ==> final(w).files == old(w).files && final(w).log == old(w).log,
{ unimplemented!() }

#[verifier::external_body]
pub fn vfs_remove_file<P: AsRef<Path>>(p: P, Tracked(w): Tracked<&mut World>) -> (r: std::io::Result<()>)
    requires
        inside(old(w).root, asp(p)),                                                          // C11
        asp(p) != lockfile(old(w).root),                                                     // C03: the lock file keeps its inode
        !is_staging(asp(p)) ==> old(w).lock,                                                 // C03: live paths only under the lock
        is_staging(asp(p)) ==> old(w).private.contains(asp(p)),                              // C10: never another writer's staging file
    ensures
        same_ctl(*final(w), *old(w)),
        r is Ok ==> final(w).files == old(w).files.remove(asp(p)) && final(w).log == old(w).log.push(Eff::Unlink(asp(p))),
        r is Err ==> final(w).files == old(w).files && final(w).log == old(w).log,
{ unimplemented!() }

// the commit lock (fs2 flock on <root>/.copia/commit.lock): taking it lets every OTHER process run first -
// any non-private file may have changed when we get it; while we hold it, no one else changes a live path
#[verifier::external_body] pub struct LockFile { _p: () }
#[verifier::external_body]
pub fn vfs_open_lock<P: AsRef<Path>>(p: P, Tracked(w): Tracked<&mut World>) -> (r: std::io::Result<LockFile>)
    requires inside(old(w).root, asp(p)), asp(p) == lockfile(old(w).root),        // every process locks the one lock file
    ensures *final(w) == *old(w),
{ unimplemented!() }
#[verifier::external_body]
pub fn vfs_lock_exclusive(l: &LockFile, Tracked(w): Tracked<&mut World>) -> (r: std::io::Result<()>)
    requires !old(w).lock,
    ensures
        final(w).root == old(w).root, final(w).private == old(w).private, final(w).reliable == old(w).reliable, final(w).verified == old(w).verified,
        final(w).log == old(w).log,
        r is Ok ==> final(w).lock && final(w).seen == final(w).files && final(w).nlock == old(w).nlock + 1,
        r is Err ==> final(w).lock == old(w).lock && final(w).seen == old(w).seen && final(w).nlock == old(w).nlock,
        // private files are untouched by the others; everything else is unknown (havoc)
        forall|p: PathV| old(w).private.contains(p) ==> (#[trigger] final(w).files.dom().contains(p)) == old(w).files.dom().contains(p)
            && (final(w).files.dom().contains(p) ==> final(w).files[p] == old(w).files[p]),
{ unimplemented!() }
#[verifier::external_body]
pub fn vfs_unlock(l: &LockFile, Tracked(w): Tracked<&mut World>) -> (r: std::io::Result<()>)
    ensures final(w).files == old(w).files, final(w).root == old(w).root, final(w).private == old(w).private, final(w).verified == old(w).verified,
        final(w).reliable == old(w).reliable, final(w).log == old(w).log, !final(w).lock, final(w).seen == old(w).seen, final(w).nlock == old(w).nlock,
{ unimplemented!() }

// meta::fingerprint_path(dst).ok().map(|f| f.blake3) by contract: ONLY under the lock does the answer describe the file
// that later operations of this critical section will see
#[verifier::external_body]
pub fn current_hash(dst: &Path, Tracked(w): Tracked<&World>) -> (r: Option<Hash>)
    requires inside(w.root, pv(dst)),
    ensures w.lock ==> (match r { Some(h) => w.files.contains_key(pv(dst)) && h@ == H(w.files[pv(dst)].bytes), None => !w.files.contains_key(pv(dst)) }),
{ unimplemented!() }

// std::fs::File handles by contract
pub mod vfs {
    use super::*;
    #[verifier::external_body] pub struct File { _p: () }
    impl File {
        pub uninterp spec fn path(&self) -> PathV;
        pub uninterp spec fn snap(&self) -> Seq<u8>;      // the bytes of the version this descriptor was opened on
        pub uninterp spec fn displaced(&self) -> bool;    // the write position was moved: writes no longer append
        // NON-ATOMIC create/truncate: only on a process-private staging name (C10)
        #[verifier::external_body]
        pub fn create<P: AsRef<Path>>(p: P, Tracked(w): Tracked<&mut World>) -> (r: std::io::Result<File>)
            requires inside(old(w).root, asp(p)), is_staging(asp(p)), private_name(asp(p)),
            ensures final(w).root == old(w).root, final(w).lock == old(w).lock, final(w).reliable == old(w).reliable,
                final(w).seen == old(w).seen, final(w).nlock == old(w).nlock,
                final(w).log == old(w).log.push(Eff::Write(asp(p))),
                r is Ok ==> r->Ok_0.path() == asp(p) && !r->Ok_0.displaced() && final(w).files == old(w).files.insert(asp(p), FileS { bytes: Seq::empty(), synced: false })
                    && final(w).private == old(w).private.insert(asp(p)) && final(w).verified == old(w).verified.remove(asp(p)),
                r is Err ==> same_except(final(w).files, old(w).files, set![asp(p)]) && final(w).private == old(w).private && final(w).verified == old(w).verified.remove(asp(p)),
        { unimplemented!() }
        #[verifier::external_body]
        pub fn write_all(&mut self, buf: &[u8], Tracked(w): Tracked<&mut World>) -> (r: std::io::Result<()>)
            requires old(w).private.contains(old(self).path()), is_staging(old(self).path()),
                !old(self).displaced(),       // the model of write_all is APPEND: only for a handle whose position was never moved
            ensures final(self).path() == old(self).path(), final(self).displaced() == old(self).displaced(), final(w).root == old(w).root, final(w).lock == old(w).lock, final(w).reliable == old(w).reliable,
                final(w).seen == old(w).seen, final(w).nlock == old(w).nlock,
                final(w).private == old(w).private, final(w).verified == old(w).verified.remove(old(self).path()),
                final(w).log == old(w).log.push(Eff::Write(old(self).path())),
                same_except(final(w).files, old(w).files, set![old(self).path()]),
                (r is Ok && old(w).files.contains_key(old(self).path())) ==> final(w).files.contains_key(old(self).path())
                    && final(w).files[old(self).path()] == (FileS { bytes: old(w).files[old(self).path()].bytes + buf@, synced: false }),
        { unimplemented!() }
        #[verifier::external_body]
        pub fn sync_all(&self, Tracked(w): Tracked<&mut World>) -> (r: std::io::Result<()>)
            ensures same_ctl(*final(w), *old(w)), final(w).log == old(w).log.push(Eff::Sync(self.path())),
                same_except(final(w).files, old(w).files, Set::empty()),
                (r is Ok && old(w).files.contains_key(self.path())) ==> final(w).files[self.path()].synced,
        { unimplemented!() }
        // moving the write position changes no byte of any file (in particular it does not extend the file)
        #[verifier::external_body]
        pub fn seek(&mut self, pos: std::io::SeekFrom, Tracked(w): Tracked<&mut World>) -> (r: std::io::Result<u64>)
            ensures final(self).path() == old(self).path(), final(self).displaced(), *final(w) == *old(w),
        { unimplemented!() }
        // reading: a descriptor keeps seeing the version it was opened on (live files are only replaced by rename)
        #[verifier::external_body]
        pub fn open<P: AsRef<Path>>(p: P, Tracked(w): Tracked<&World>) -> (r: std::io::Result<File>)
            requires inside(w.root, asp(p)),
            ensures r is Ok ==> r->Ok_0.path() == asp(p),
        { unimplemented!() }
    }
}
