//@item file=src/signature.rs kind=struct name=BlockSignature
//@item file=src/signature.rs kind=struct name=Signature
