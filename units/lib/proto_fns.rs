// ---- src/protocol.rs: frame header codec, message type, framed codec (C20) ----
//@item file=src/protocol.rs kind=const name=PROTOCOL_MAGIC
//@item file=src/protocol.rs kind=const name=PROTOCOL_VERSION
//@item file=src/protocol.rs kind=const name=MAX_PAYLOAD_SIZE

// R5 shims: std's *_le_bytes cannot be given an assume_specification (anonymous const in the signature);
// little-endian by arithmetic. Their bodies are the std calls themselves.
pub open spec fn le4(b: Seq<u8>) -> int { b[0] as int + 256 * (b[1] as int) + 65536 * (b[2] as int) + 16777216 * (b[3] as int) }
pub open spec fn le2(b: Seq<u8>) -> int { b[0] as int + 256 * (b[1] as int) }
#[verifier::external_body] pub fn u32_to_le_bytes(x: u32) -> (r: [u8; 4]) ensures le4(r@) == x { x.to_le_bytes() }
#[verifier::external_body] pub fn u16_to_le_bytes(x: u16) -> (r: [u8; 2]) ensures le2(r@) == x { x.to_le_bytes() }
#[verifier::external_body] pub fn u32_from_le_bytes(b: [u8; 4]) -> (r: u32) ensures le4(b@) == r { u32::from_le_bytes(b) }
#[verifier::external_body] pub fn u16_from_le_bytes(b: [u8; 2]) -> (r: u16) ensures le2(b@) == r { u16::from_le_bytes(b) }

//@item file=src/protocol.rs kind=enum name=MessageType
impl vstd::std_specs::cmp::PartialEqSpecImpl for MessageType {
    open spec fn obeys_eq_spec() -> bool { true }
    open spec fn eq_spec(&self, other: &Self) -> bool { *self == *other }
}
pub open spec fn mt_code(m: MessageType) -> u8 {
    match m { MessageType::SignatureRequest => 1, MessageType::SignatureResponse => 2, MessageType::DeltaData => 3, MessageType::Ack => 4, MessageType::Error => 5, MessageType::Ping => 6, MessageType::Pong => 7 }
}
impl MessageType {
//@extract file=src/protocol.rs impl="MessageType" fn=from_u8
//@ret r
//@ensures
        r is Ok <==> 1 <= value <= 7,
        r is Ok ==> mt_code(r->Ok_0) == value,
//@end
}
//@item file=src/protocol.rs kind=struct name=FrameHeader
pub open spec fn hdr_valid(h: FrameHeader) -> bool { h.magic@ == PROTOCOL_MAGIC@ && h.version == 1 && h.length <= 16 * 1024 * 1024 }
// layout of an encoded header
pub open spec fn hdr_layout(h: FrameHeader, r: Seq<u8>) -> bool {
    &&& r.len() == 12
    &&& r.subrange(0, 4) == h.magic@
    &&& le4(r.subrange(4, 8)) == h.length
    &&& r[8] == mt_code(h.msg_type)
    &&& r[9] == h.version
    &&& le2(r.subrange(10, 12)) == h.flags
}
// Verus does not look inside the byte-string literal *b"COPA" (A); the real constant is checked bit-precisely by the
// Kani harness c20_encode_layout on the compiled crate.
#[verifier::external_body]
pub proof fn lemma_magic_is_copa()
    ensures PROTOCOL_MAGIC@ == seq![0x43u8, 0x4Fu8, 0x50u8, 0x41u8]     // "COPA"
{ }

impl FrameHeader {
//@item file=src/protocol.rs kind=const name=SIZE impl="FrameHeader"
//@extract file=src/protocol.rs impl="FrameHeader" fn=new
//@ret r
//@ensures
        r.magic@ == PROTOCOL_MAGIC@, r.length == payload_len, r.msg_type == msg_type, r.version == 1, r.flags == 0,
//@end
//@extract file=src/protocol.rs impl="FrameHeader" fn=validate
//@ret r
//@ensures
        r is Ok <==> hdr_valid(*self),
//@at entry
        proof { assert((self.magic == PROTOCOL_MAGIC) <==> (self.magic@ =~= PROTOCOL_MAGIC@)) by { if self.magic@ =~= PROTOCOL_MAGIC@ { assert(self.magic =~= PROTOCOL_MAGIC); } } }
//@end
//@extract file=src/protocol.rs impl="FrameHeader" fn=encode
//@ret r
//@requires
        self.magic@ == PROTOCOL_MAGIC@,      // the function asserts it (debug_assert => caller obligation, R2)
//@ensures
        hdr_layout(*self, r@),
        r[0] == 0x43 && r[1] == 0x4F && r[2] == 0x50 && r[3] == 0x41,      // begins with "COPA"
//@replace /self\.length\.to_le_bytes\(\)/ => u32_to_le_bytes(self.length)
//@replace /self\.flags\.to_le_bytes\(\)/ => u16_to_le_bytes(self.flags)
//@at before /debug_assert_eq!/
        proof {
            lemma_magic_is_copa();
            assert(buf@.subrange(0, 4) =~= self.magic@); assert(buf@.subrange(4, 8) =~= len@); assert(buf@.subrange(10, 12) =~= flg@);
            assert(buf[0] == self.magic@[0] && buf[1] == self.magic@[1] && buf[2] == self.magic@[2] && buf[3] == self.magic@[3]);
        }
//@end
//@extract file=src/protocol.rs impl="FrameHeader" fn=decode
//@ret r
//@ensures
        // Err for wrong magic / wrong version / unknown type / oversize length, and only then
        r is Ok <==> (buf@.subrange(0, 4) == PROTOCOL_MAGIC@ && buf[9] == 1 && 1 <= buf[8] <= 7 && le4(buf@.subrange(4, 8)) <= 16 * 1024 * 1024),
        r is Ok ==> hdr_valid(r->Ok_0) && hdr_layout(r->Ok_0, buf@),
//@replace /u32::from_le_bytes\(/ => u32_from_le_bytes(
//@replace /u16::from_le_bytes\(/ => u16_from_le_bytes(
//@at before /let header = Self/
        proof {
            assert(magic@ =~= buf@.subrange(0, 4));
            assert([buf[4], buf[5], buf[6], buf[7]]@ =~= buf@.subrange(4, 8));
            assert([buf[10], buf[11]]@ =~= buf@.subrange(10, 12));
        }
//@end
//@extract file=src/protocol.rs impl="FrameHeader" fn=read_from
//@ret r
//@ensures
        r is Ok ==> hdr_valid(r->Ok_0),
//@at before /if magic != PROTOCOL_MAGIC/
        proof { assert((magic == PROTOCOL_MAGIC) <==> (magic@ =~= PROTOCOL_MAGIC@)) by { if magic@ =~= PROTOCOL_MAGIC@ { assert(magic =~= PROTOCOL_MAGIC); } } }
//@end
//@extract file=src/protocol.rs impl="FrameHeader" fn=write_to
//@ret r
//@requires
        self.magic@ == PROTOCOL_MAGIC@,
//@ensures
        r is Ok ==> w_written(final(writer)) == w_written(old(writer)) + enc_hdr(*self),
//@at entry
        proof { lemma_enc_hdr(*self); }
//@end
}
// the (unique) 12-byte sequence with the header layout
pub uninterp spec fn enc_hdr(h: FrameHeader) -> Seq<u8>;
#[verifier::external_body]
pub proof fn lemma_enc_hdr(h: FrameHeader)      // definition of enc_hdr by its layout (le4/le2 determine the bytes)
    ensures enc_hdr(h).len() == 12, hdr_layout(h, enc_hdr(h)), forall|r: Seq<u8>| #[trigger] hdr_layout(h, r) ==> r == enc_hdr(h),
{ }

// C20: decode(encode(h)) == Ok(h) for every valid header, as a consequence of the two contracts
pub proof fn lemma_hdr_roundtrip(h: FrameHeader, bytes: Seq<u8>, d: FrameHeader)
    requires hdr_valid(h), hdr_layout(h, bytes), hdr_valid(d), hdr_layout(d, bytes),
    ensures d.magic@ == h.magic@, d.length == h.length, d.msg_type == h.msg_type, d.version == h.version, d.flags == h.flags,
{ }
pub proof fn lemma_hdr_decodable(h: FrameHeader, bytes: Seq<u8>)
    requires hdr_valid(h), hdr_layout(h, bytes),
    ensures bytes.subrange(0, 4) == PROTOCOL_MAGIC@ && bytes[9] == 1 && 1 <= bytes[8] <= 7 && le4(bytes.subrange(4, 8)) <= 16 * 1024 * 1024,
{ }

// ---- messages and the framed codec ----
//@item file=src/protocol.rs kind=enum name=Message
// bincode value codec: ASSUMED total with a round trip (A) — `msg_bytes` is whatever bincode produces
pub uninterp spec fn msg_bytes(m: Message) -> Seq<u8>;
impl Message {
//@extract file=src/protocol.rs impl="Message" fn=msg_type
//@ret r
//@ensures
        r == (match *self {
            Message::SignatureRequest { .. } => MessageType::SignatureRequest, Message::SignatureResponse { .. } => MessageType::SignatureResponse,
            Message::DeltaData { .. } => MessageType::DeltaData, Message::Ack { .. } => MessageType::Ack, Message::Error { .. } => MessageType::Error,
            Message::Ping { .. } => MessageType::Ping, Message::Pong { .. } => MessageType::Pong }),
//@end
    #[verifier::external_body]
    pub fn encode(&self) -> (r: Result<Vec<u8>>) ensures r is Ok ==> r->Ok_0@ == msg_bytes(*self) { unimplemented!() }
    #[verifier::external_body]
    pub fn decode(data: &[u8]) -> (r: Result<Message>)
        ensures forall|m: Message| data@ == msg_bytes(m) ==> r == Ok::<Message, CopiaError>(m)
    { unimplemented!() }
}
//@item file=src/protocol.rs kind=struct name=Codec
// R5 shim for `u32::try_from(payload.len()).map_err(|e| ..)` (closure over a formatted error)
#[verifier::external_body]
pub fn u32_try_from_len(n: usize) -> (r: Result<u32>) ensures r is Ok <==> n <= u32::MAX, r is Ok ==> r->Ok_0 == n { unimplemented!() }
impl Codec {
    pub closed spec fn buf_len(&self) -> nat { self.read_buf@.len() }
//@extract file=src/protocol.rs impl="Codec" fn=write_message
//@ret r
//@ensures
        // what goes on the wire: a header beginning with COPA carrying version 1 and the payload length, then the payload
        r is Ok ==> exists|h: FrameHeader| hdr_valid(h) && h.length == msg_bytes(*message).len() && h.msg_type == message.msg_type_spec()
            && #[trigger] enc_hdr(h).len() == 12 && w_written(final(writer)) == w_written(old(writer)) + enc_hdr(h) + msg_bytes(*message),
//@replace /u32::try_from\(payload\.len\(\)\)\s*\.map_err\(\|e\| CopiaError::ProtocolError\(format!\("Payload too large for u32: \{e\}"\)\)\)/ => u32_try_from_len(payload.len())
//@at before /Ok\(\(\)\)/
        proof {
            lemma_enc_hdr(header);
            assert(hdr_valid(header));
            assert(enc_hdr(header).len() == 12);
        }
//@end
//@extract file=src/protocol.rs impl="Codec" fn=read_message
//@ret r
//@ensures
        // memory reserved for the payload is bounded by the validated header: at most 16 MiB
        final(self).buf_len() <= 16 * 1024 * 1024 || final(self).buf_len() == old(self).buf_len(),
//@end
}
impl Message {
    pub open spec fn msg_type_spec(&self) -> MessageType {
        match *self {
            Message::SignatureRequest { .. } => MessageType::SignatureRequest, Message::SignatureResponse { .. } => MessageType::SignatureResponse,
            Message::DeltaData { .. } => MessageType::DeltaData, Message::Ack { .. } => MessageType::Ack, Message::Error { .. } => MessageType::Error,
            Message::Ping { .. } => MessageType::Ping, Message::Pong { .. } => MessageType::Pong }
    }
}
