// ---- single-file sync: AsyncCopiaSync::sync_files (src/async_sync.rs) and what it is built from (C01) ----
//@item file=src/sync.rs kind=struct name=SyncBuilder
//@item file=src/async_sync.rs kind=struct name=SyncResult

// Delta::bytes_matched / bytes_literal (iterator adapters filter_map + sum): by contract (A) - the sums the spec calls cpy / lit
impl Delta {
    #[verifier::external_body]
    pub fn bytes_matched(&self) -> (r: u64) requires ops_nooverflow(self.ops@) ensures r == cpy(self.ops@) { unimplemented!() }
    #[verifier::external_body]
    pub fn bytes_literal(&self) -> (r: u64) requires ops_nooverflow(self.ops@) ensures r == lit(self.ops@) { unimplemented!() }
}

impl SyncConfig {
//@extract file=src/sync.rs impl="Default for SyncConfig" fn=default
//@ret r
//@ensures
        r.verify_checksum,      // verification is ON by default
//@end
}
impl SyncBuilder {
    pub closed spec fn verify(&self) -> bool { self.config.verify_checksum }
    pub closed spec fn bs(&self) -> usize { self.config.block_size }
//@extract file=src/sync.rs impl="SyncBuilder" fn=new
//@ret r
//@ensures
        r.verify(),
//@end
//@extract file=src/sync.rs impl="SyncBuilder" fn=block_size
//@ret r
//@requires
        valid_bs(size),      // the function asserts it (R2': assert! => caller obligation)
//@ensures
        r.bs() == size, r.verify() == self.verify(),
//@twin /size\.is_power_of_two\(\) && \(512\.\.=65536\)\.contains\(&size\)/ => valid_bs(size)
//@end
//@extract file=src/sync.rs impl="SyncBuilder" fn=build
//@ret r
//@ensures
        r.bs() == self.bs(), r.verify() == self.verify(),
//@end
}
impl CopiaSync {
//@extract file=src/sync.rs impl="CopiaSync" fn=with_block_size
//@ret r
//@requires
        valid_bs(block_size),
//@ensures
        r.bs() == block_size, r.verify(),
//@end
}

// R5 site shim for `sync.patch(Cursor::new(&basis_data), &delta, &mut output)`: its body is that very call. Its contract is
// CopiaSync::patch's PROVED contract (unit `patch`, lib/patch_contract.sec) read with "the bytes written to the sink" = "the bytes
// appended to the Vec" - the one thing assumed here (A): writing to `&mut Vec<u8>` appends. `patch_contract_restated` below is
// checked by Verus against the proved contract, so the restatement cannot drift from it.
#[verifier::external_body]
pub fn patch_to_vec(sync: &CopiaSync, basis: &Vec<u8>, delta: &Delta, output: &mut Vec<u8>) -> (res: Result<()>)
    requires total_len(delta.ops@) <= u64::MAX, old(output)@.len() == 0,
    ensures
        (res is Ok && sync.verify()) ==> H(final(output)@) == delta.checksum.bytes(),
        res is Ok ==> final(output)@ == out(delta.ops@, basis@) && valid_ops(delta.ops@, delta.basis_size),
        (io_ok() && valid_ops(delta.ops@, delta.basis_size) && ops_ok(delta.ops@, basis@.len() as int)
            && total_len(delta.ops@) == delta.source_size
            && (sync.verify() ==> H(out(delta.ops@, basis@)) == delta.checksum.bytes())) ==> res is Ok,
{ unimplemented!() }
pub fn patch_contract_restated(sync: &CopiaSync, basis: &Vec<u8>, delta: &Delta, output: Vec<u8>, Tracked(sink): Tracked<&mut Sink>) -> (res: Result<()>)
    requires total_len(delta.ops@) <= u64::MAX, old(sink).bytes.len() == 0,
    ensures
        (res is Ok && sync.verify()) ==> H(final(sink).bytes) == delta.checksum.bytes(),
        res is Ok ==> final(sink).bytes == out(delta.ops@, basis@) && valid_ops(delta.ops@, delta.basis_size),
        (io_ok() && valid_ops(delta.ops@, delta.basis_size) && ops_ok(delta.ops@, basis@.len() as int)
            && total_len(delta.ops@) == delta.source_size
            && (sync.verify() ==> H(out(delta.ops@, basis@)) == delta.checksum.bytes())) ==> res is Ok,
{
    sync.patch(cursor_of(basis), delta, output, Tracked(sink), Ghost(basis@))
}

impl AsyncCopiaSync {
//@extract file=src/async_sync.rs impl="AsyncCopiaSync" fn=with_block_size
//@ret r
//@requires
        valid_bs(block_size),   // the function asserts it (R2')
//@ensures
        r.bs() == block_size, r.verify(),
//@twin /block_size\.is_power_of_two\(\) && \(512\.\.=65536\)\.contains\(&block_size\)/ => valid_bs(block_size)
//@end
//@extract file=src/async_sync.rs impl="AsyncCopiaSync" fn=sync_files
//@sig /pub async fn/ => pub fn
//@ret res
//@param+
    Tracked(w): Tracked<&mut SW>
//@requires
        valid_bs(self.bs()),        // holds for every value the public constructors (new, with_block_size) can build
//@ensures
        // C01 for the single-file `sync` command: success means the destination holds exactly the source's bytes
        (collision_free() && idx_domain(*old(w)) && res is Ok) ==> old(w).files.contains_key(aspr(&source_path)) && final(w).files.contains_key(aspr(&dest_path))
            && final(w).files[aspr(&dest_path)] == old(w).files[aspr(&source_path)],
        // the reported numbers: source size, and matched + literal bytes sum to it
        (collision_free() && idx_domain(*old(w)) && res is Ok) ==> res->Ok_0.source_size == old(w).files[aspr(&source_path)].len()
            && res->Ok_0.bytes_matched + res->Ok_0.bytes_literal == res->Ok_0.source_size,
        // C16 for the single-file command: the destination is used as basis AT THE REQUESTED BLOCK SIZE - exactly the literal bytes
        // of the textbook greedy scan at self's block size (a destination identical to the source costs none)
        (collision_free() && idx_domain(*old(w)) && io_ok() && res is Ok && old(w).files.contains_key(aspr(&dest_path)) && old(w).files[aspr(&dest_path)] != old(w).files[aspr(&source_path)]) ==>
            res->Ok_0.bytes_literal == g_lit(old(w).files[aspr(&source_path)], old(w).files[aspr(&dest_path)], self.bs() as int, 0),
//@replace /\.await/ =>  #all
//@replace /use crate::sync::Sync;/ => 
//@replace /use std::io::Cursor;/ => 
//@replace /let source_path = source_path\.as_ref\(\);/ => let ghost sp0 = aspr(&source_path); let source_path: &Path = as_path(&source_path);
//@replace /let dest_path = dest_path\.as_ref\(\);/ => let ghost dp0 = aspr(&dest_path); let dest_path: &Path = as_path(&dest_path);
//@replace /tokio::fs::try_exists\(dest_path\)/ => vfs_try_exists(dest_path, Tracked(&*w))
//@replace /tokio::fs::read\((\w+)\)/ => vfs_read(\1, Tracked(&*w)) #all
//@replace /tokio::fs::write\(([^,()]+), (&\w+)\)/ => vfs_write(\1, \2, Tracked(w)) #all
//@replace /tokio::fs::rename\(([^,()]+), ([^,()]+)\)/ => vfs_rename(\1, \2, Tracked(w)) #all
//@replace /source_data == basis_data/ => vec_eq(&source_data, &basis_data)
//@replace /crate::Signature::generate\(&mut Cursor::new\(&basis_data\)/ => Signature::generate(&mut cursor_of(&basis_data)
//@replace /crate::CopiaSync::with_block_size/ => CopiaSync::with_block_size
//@replace /sync\.delta\(Cursor::new\(&source_data\), &signature\)/ => sync.delta(cursor_of(&source_data), &signature, Ghost(basis_data@))
//@replace /sync\.patch\(Cursor::new\(&basis_data\), &delta, &mut output\)/ => patch_to_vec(&sync, &basis_data, &delta, &mut output)
//@at entry
        broadcast use asp_path, asp_pathbuf;
        let ghost w0 = *w;
//@at? before /let bytes_matched = delta\.bytes_matched\(\);/
        proof {
            axiom_vec_len(&source_data); axiom_vec_len(&basis_data);
            if collision_free() && idx_domain(w0) { lemma_c01_roundtrip(delta, basis_data@, source_data@); }
            lemma_total_is_lit_plus_cpy(delta.ops@);
        }
//@end
}

// ---- the `copia sync SRC DST` command for one file: single_sync.rs run_sync / run_sync_local_to_local (R4, R11) ----
impl From<CopiaError> for VErr { #[verifier::external_body] fn from(e: CopiaError) -> Self { VErr { _p: () } } }
//@item file=src/bin/copia/main.rs kind=enum name=FileLocation
pub broadcast axiom fn aspr_pathbuf_ref(p: &PathBuf) ensures #[trigger] aspr::<&PathBuf>(&p) == pbv(p);
// R5 shim for `(512..=65536).contains(&x)`
#[verifier::external_body]
pub fn in_cli_range(x: usize) -> (r: bool) ensures r == (512 <= x <= 65536) { (512..=65536).contains(&x) }
// the two remote directions of the single-file command are outside this unit (ssh children; C09's push clause): by name only
#[verifier::external_body]
pub fn run_sync_local_to_remote(source: &Path, host: &str, remote_path: &str, block_size: usize, verbose: bool) -> (r: std::result::Result<(), VErr>) { unimplemented!() }
#[verifier::external_body]
pub fn run_sync_remote_to_local(host: &str, remote_path: &str, dest: &PathBuf, block_size: usize, verbose: bool) -> (r: std::result::Result<(), VErr>) { unimplemented!() }

//@extract file=src/bin/copia/main.rs fn=validate_block_size
//@sig /Result<\(\)/ => std::result::Result<()
//@ret r
//@ensures
    r is Ok <==> valid_bs(size),
//@replace /\(512\.\.=65536\)\.contains\(&size\)/ => in_cli_range(size)
//@end
//@extract file=src/bin/copia/single_sync.rs fn=run_sync_local_to_local
//@sig /async fn/ => fn
//@sig /Box<dyn std::error::Error>/ => VErr
//@sig /Result<\(\)/ => std::result::Result<()
//@replace /\.await/ =>  #all
//@ret res
//@param+
    Tracked(w): Tracked<&mut SW>
//@requires
    valid_bs(block_size),
//@ensures
    // C01, `copia sync SRC DST` on two local files: exit status 0 only with DST byte-identical to what SRC held
    (collision_free() && idx_domain(*old(w)) && res is Ok) ==> old(w).files.contains_key(pbv(source)) && final(w).files.contains_key(pbv(dest))
        && final(w).files[pbv(dest)] == old(w).files[pbv(source)],
//@replace? /sync\.sync_files\(((?:[^()]|\([^()]*\))*)\)/ => sync.sync_files(\1, Tracked(w)) #all
//@at entry
    broadcast use aspr_pathbuf_ref;
//@end
//@extract file=src/bin/copia/single_sync.rs fn=run_sync
//@sig /pub async fn/ => fn
//@sig /Box<dyn std::error::Error>/ => VErr
//@sig /Result<\(\)/ => std::result::Result<()
//@replace /\.await/ =>  #all
//@ret res
//@param+
    Tracked(w): Tracked<&mut SW>
//@ensures
    // for ANY --block-size value: an invalid one is a reported error, never the engine's assert! (C20-style clause); two local
    // files: success only with DST == SRC
    (collision_free() && idx_domain(*old(w)) && res is Ok && source is Local && dest is Local) ==> old(w).files.contains_key(pbv(&source->Local_0))
        && final(w).files.contains_key(pbv(&dest->Local_0)) && final(w).files[pbv(&dest->Local_0)] == old(w).files[pbv(&source->Local_0)],
//@replace? /run_sync_local_to_local\(((?:[^()]|\([^()]*\))*)\)/ => run_sync_local_to_local(\1, Tracked(w)) #all
//@end
