// ---- src/signature.rs: block signatures; table lookups by (assumed, validated) contract ----
//@item file=src/signature.rs kind=struct name=BlockSignature
//@item file=src/signature.rs kind=struct name=Signature

pub open spec fn nblocks(n: int, bs: int) -> int { if bs <= 0 { 0 } else { (n + bs - 1) / bs } }
pub open spec fn block(basis: Seq<u8>, bs: int, j: int) -> Seq<u8> {
    basis.subrange(j * bs, if (j + 1) * bs <= basis.len() { (j + 1) * bs } else { basis.len() as int })
}
// "sig is the signature of basis": one entry per block (last may be short), exact weak digest, BLAKE3 of the block
pub open spec fn sig_of(sig: Signature, basis: Seq<u8>) -> bool {
    let bs = sig.block_size as int;
    &&& bs > 0
    &&& sig.file_size == basis.len()
    &&& sig.blocks@.len() == nblocks(basis.len() as int, bs)
    &&& forall|j: int| 0 <= j < sig.blocks@.len() ==> {
            &&& (#[trigger] sig.blocks@[j]).index == j
            &&& sig.blocks@[j].weak_hash == dig(block(basis, bs, j))
            &&& sig.blocks@[j].strong_hash.bytes() == H(block(basis, bs, j))
            &&& 0 <= j * bs < basis.len()
        }
}
// C01 "signatures do not depend on the engine / path that produced them": sig_of determines every field
pub proof fn lemma_sig_unique(s1: Signature, s2: Signature, basis: Seq<u8>)
    requires sig_of(s1, basis), sig_of(s2, basis), s1.block_size == s2.block_size
    ensures s1.file_size == s2.file_size, s1.blocks@.len() == s2.blocks@.len(),
        forall|j: int| 0 <= j < s1.blocks@.len() ==> #[trigger] s1.blocks@[j] == s2.blocks@[j],
{
    assert forall|j: int| 0 <= j < s1.blocks@.len() implies #[trigger] s1.blocks@[j] == s2.blocks@[j] by {
        let (x, y) = (s1.blocks@[j], s2.blocks@[j]);
        assert(x.index == y.index && x.weak_hash == y.weak_hash);
        StrongHash::lemma_bytes_inj(x.strong_hash, y.strong_hash);
    }
}

impl BlockSignature {
//@extract file=src/signature.rs impl="BlockSignature" fn=compute
//@ret r
//@ensures
        r.index == index, r.weak_hash == dig(data@), r.strong_hash.bytes() == H(data@),
//@at entry
        proof { }
//@end
}
// R5 site shims for the two adapter chains of Signature::generate. ASSUMED (A): std `chunks(bs)` cuts consecutive bs-byte
// pieces (the last may be short), `enumerate` numbers them from 0, `map(..).collect()` keeps the order, rayon's
// `par_chunks(..).enumerate().map(..).collect()` yields the same vector as the sequential chain. The closure is
// `BlockSignature::compute(i as u32, chunk)` (contract proved above): index = i truncated to 32 bits.
// Validated by the `signature_generate` twin on both paths.
pub open spec fn chunk_sigs(r: Seq<BlockSignature>, data: Seq<u8>, bs: int) -> bool {
    &&& r.len() == nblocks(data.len() as int, bs)
    &&& forall|j: int| 0 <= j < r.len() ==> {
            &&& (#[trigger] r[j]).index as int == j % 0x1_0000_0000
            &&& r[j].weak_hash == dig(block(data, bs, j))
            &&& r[j].strong_hash.bytes() == H(block(data, bs, j))
        }
}
#[verifier::external_body]
pub fn chunk_signatures(data: &Vec<u8>, block_size: usize) -> (r: Vec<BlockSignature>)
    requires block_size > 0,      // `chunks(0)` panics
    ensures chunk_sigs(r@, data@, block_size as int)
{ unimplemented!() }
#[verifier::external_body]
pub fn par_chunk_signatures(data: &Vec<u8>, block_size: usize) -> (r: Vec<BlockSignature>)
    requires block_size > 0,
    ensures chunk_sigs(r@, data@, block_size as int)
{ unimplemented!() }
#[verifier::external_body]
pub fn usize_div_ceil(a: usize, b: usize) -> (r: usize)      // usize::div_ceil (A)
    requires b > 0
    ensures r as int == (if a as int % b as int == 0 { a as int / b as int } else { a as int / b as int + 1 })
{ unimplemented!() }
pub proof fn lemma_nblocks(n: int, bs: int)
    requires n >= 0, bs > 0
    ensures nblocks(n, bs) == (if n % bs == 0 { n / bs } else { n / bs + 1 }),
        forall|j: int| 0 <= j < nblocks(n, bs) ==> 0 <= #[trigger] (j * bs) < n,
        n < 0xFFFF_FFFF * bs ==> nblocks(n, bs) <= 0xFFFF_FFFF,
{
    let q = n / bs; let r = n % bs;
    lemma_fundamental_div_mod(n, bs);
    assert(n == bs * q + r);
    if r == 0 {
        assert(n + bs - 1 == bs * q + (bs - 1));
        lemma_fundamental_div_mod_converse(n + bs - 1, bs, q, bs - 1);
    } else {
        assert(n + bs - 1 == bs * (q + 1) + (r - 1)) by(nonlinear_arith) requires n == bs * q + r;
        lemma_fundamental_div_mod_converse(n + bs - 1, bs, q + 1, r - 1);
    }
    let nb = nblocks(n, bs);
    assert forall|j: int| 0 <= j < nb implies 0 <= #[trigger] (j * bs) < n by {
        assert(j * bs >= 0) by(nonlinear_arith) requires j >= 0, bs > 0;
        if r == 0 { assert(j * bs < n) by(nonlinear_arith) requires j < q, n == bs * q + r, r == 0, bs > 0; }
        else { assert(j * bs < n) by(nonlinear_arith) requires j <= q, n == bs * q + r, r > 0, bs > 0; }
    }
    if n < 0xFFFF_FFFF * bs {
        assert(q < 0xFFFF_FFFF) by(nonlinear_arith) requires n == bs * q + r, r >= 0, n < 0xFFFF_FFFF * bs, bs > 0;
    }
}
impl Signature {
//@extract file=src/signature.rs impl="Signature" fn=generate
//@ret res
//@requires
        block_size > 0,
//@ensures
        // the block index is a u32: the signature describes the stream when there are fewer than 2^32 blocks
        res is Ok ==> res->Ok_0.block_size == block_size
            && (stream_of(&*old(reader)).len() < 0xFFFF_FFFF * (block_size as int) ==> sig_of(res->Ok_0, stream_of(&*old(reader)))),
        io_ok() ==> res is Ok,
//@replace /let mut data = Vec::new\(\);/ => let mut data: Vec<u8> = Vec::new();
//@replace /data\s*\.par_chunks\(block_size\)\s*\.enumerate\(\)\s*\.map\(\|\(i, chunk\)\| \{\s*#\[allow\(clippy::cast_possible_truncation\)\]\s*BlockSignature::compute\(i as u32, chunk\)\s*\}\)\s*\.collect\(\)/ => par_chunk_signatures(&data, block_size)
//@replace /data\s*\.chunks\(block_size\)\s*\.enumerate\(\)\s*\.map\(\|\(i, chunk\)\| \{\s*#\[allow\(clippy::cast_possible_truncation\)\]\s*BlockSignature::compute\(i as u32, chunk\)\s*\}\)\s*\.collect\(\)/ => chunk_signatures(&data, block_size)
//@replace /data\.len\(\)\.div_ceil\(block_size\)/ => usize_div_ceil(data.len(), block_size)
//@at entry
        let ghost s0 = stream_of(&*reader);
//@at after /reader\.read_to_end\(&mut data\)\?;/
        proof { assert(data@ =~= s0); lemma_nblocks(s0.len() as int, block_size as int); }
//@at before /let expected_blocks =/
        proof {
            assert forall|j: int| 0 <= j < blocks@.len() && s0.len() < 0xFFFF_FFFF * (block_size as int) implies (#[trigger] blocks@[j]).index == j by {
                lemma_small_mod(j as nat, 0x1_0000_0000);
            }
        }
//@end
}
#[verifier::external_body]
pub fn clone_sig(s: &Signature) -> (r: Signature) ensures r == *s { unimplemented!() }   // derived Clone (A)

// ---- SignatureTable (src/signature.rs): the weak-hash index UNDER CONTRACT (representation invariant `wf`) ----
// rustc_hash cannot be linked: in-file shim with the standard map semantics (A). Two R5 site shims carry the std
// semantics of `entry(k).or_default().push(i)` and of `.iter().map(|&i| &B[i]).find(|sig| sig.strong_hash == S)`.
pub mod rustc_hash { pub struct FxBuildHasher; }
#[verifier::external_body]
#[verifier::reject_recursive_types(K)]
#[verifier::reject_recursive_types(V)]
pub struct FxHashMap<K, V> { _p: core::marker::PhantomData<(K, V)> }
impl<V> FxHashMap<u32, V> {
    pub uninterp spec fn view(&self) -> Map<u32, V>;
    #[verifier::external_body]
    pub fn with_capacity_and_hasher(capacity: usize, hasher: rustc_hash::FxBuildHasher) -> (r: Self)
        ensures r@ == Map::<u32, V>::empty() { unimplemented!() }
    #[verifier::external_body]
    pub fn get(&self, k: &u32) -> (r: Option<&V>)
        ensures (r is Some) == self@.dom().contains(*k), r is Some ==> *r->Some_0 == self@[*k] { unimplemented!() }
    #[verifier::external_body]
    pub fn contains_key(&self, k: &u32) -> (r: bool) ensures r == self@.dom().contains(*k) { unimplemented!() }
}
#[verifier::external_body]
pub fn fx_entry_or_default_push(m: &mut FxHashMap<u32, Vec<usize>>, k: u32, i: usize)
    ensures final(m)@.dom() == old(m)@.dom().insert(k),
        forall|w: u32| w != k && old(m)@.dom().contains(w) ==> #[trigger] final(m)@[w] == old(m)@[w],
        final(m)@[k]@ == (if old(m)@.dom().contains(k) { old(m)@[k]@ } else { Seq::<usize>::empty() }).push(i),
{ unimplemented!() }
// the first candidate (in list order) whose block carries strong hash `s`; the closure indexes `b`, so a stale index panics
#[verifier::external_body]
pub fn first_strong<'a>(c: &Vec<usize>, b: &'a Vec<BlockSignature>, s: &StrongHash) -> (r: Option<&'a BlockSignature>)
    requires forall|k: int| 0 <= k < c@.len() ==> (#[trigger] c@[k]) < b@.len(),
    ensures
        r is Some ==> exists|k: int| 0 <= k < c@.len() && *r->Some_0 == b@[(#[trigger] c@[k]) as int] && b@[c@[k] as int].strong_hash == *s,
        r is None ==> forall|k: int| 0 <= k < c@.len() ==> b@[(#[trigger] c@[k]) as int].strong_hash != *s,
{ unimplemented!() }

pub open spec fn listed(idx: Map<u32, Vec<usize>>, w: u32, j: int) -> bool {
    idx.dom().contains(w) && exists|k: int| 0 <= k < idx[w]@.len() && #[trigger] idx[w]@[k] == j
}
// every bucket entry points at a block (< bound) with that weak hash; no bucket is empty; every block below `upto` is listed
pub open spec fn index_ok(idx: Map<u32, Vec<usize>>, bl: Seq<BlockSignature>, upto: int) -> bool {
    &&& forall|w: u32, k: int| idx.dom().contains(w) && 0 <= k < idx[w]@.len() ==> (#[trigger] idx[w]@[k]) < upto && bl[idx[w]@[k] as int].weak_hash == w
    &&& forall|w: u32| #[trigger] idx.dom().contains(w) ==> idx[w]@.len() > 0
    &&& forall|j: int| 0 <= j < upto ==> listed(idx, (#[trigger] bl[j]).weak_hash, j)
}
//@item file=src/signature.rs kind=struct name=SignatureTable
impl SignatureTable {
    pub closed spec fn sig(&self) -> Signature { self.signature }
    // representation invariant: weak_index[w] lists exactly the indices of the blocks whose weak hash is w
    pub closed spec fn wf(&self) -> bool { index_ok(self.weak_index@, self.signature.blocks@, self.signature.blocks@.len() as int) }
//@extract file=src/signature.rs impl="SignatureTable" fn=from_signature
//@ret r
//@ensures
        r.sig() == signature, r.wf(),
//@replace /weak_index\s*\.entry\(\s*block\.weak_hash\s*\)\s*\.or_default\(\)\s*\.push\(\s*i\s*\)/ => fx_entry_or_default_push(&mut weak_index, block.weak_hash, i)
//@loop 0 invariant
                __k0 <= signature.blocks@.len(),
                index_ok(weak_index@, signature.blocks@, __k0 as int),
//@loop 0 decreases
                signature.blocks@.len() - __k0
//@at loop 0 entry
            let ghost idx0 = weak_index@;
            let ghost bl = signature.blocks@;
//@at loop 0 end
            proof {
                let idx1 = weak_index@; let wk = bl[i as int].weak_hash;
                assert forall|w: u32, k: int| idx1.dom().contains(w) && 0 <= k < idx1[w]@.len() implies (#[trigger] idx1[w]@[k]) < i + 1 && bl[idx1[w]@[k] as int].weak_hash == w by {
                    if w == wk {
                        if idx0.dom().contains(wk) && k < idx0[wk]@.len() { assert(idx0[wk]@[k] < i); }
                    } else { assert(idx1[w] == idx0[w]); assert(idx0[w]@[k] < i); }
                }
                assert forall|w: u32| #[trigger] idx1.dom().contains(w) implies idx1[w]@.len() > 0 by {
                    if w != wk { assert(idx0.dom().contains(w)); assert(idx1[w] == idx0[w]); }
                }
                assert forall|j: int| 0 <= j < i + 1 implies listed(idx1, (#[trigger] bl[j]).weak_hash, j) by {
                    let wj = bl[j].weak_hash;
                    if j < i {
                        assert(listed(idx0, wj, j));
                        let k = choose|k: int| 0 <= k < idx0[wj]@.len() && #[trigger] idx0[wj]@[k] == j;
                        if wj != wk { assert(idx1[wj] == idx0[wj]); }
                        assert(idx1[wj]@[k] == j);
                    } else {
                        let k = if idx0.dom().contains(wk) { idx0[wk]@.len() as int } else { 0 };
                        assert(idx1[wk]@[k] == j);
                    }
                }
            }
//@end
//@extract file=src/signature.rs impl="SignatureTable" fn=find_match
//@ret r
//@requires
        self.wf(),
//@ensures
            r is Some ==> exists|j: int| 0 <= j < self.sig().blocks@.len() && *r->Some_0 == (#[trigger] self.sig().blocks@[j])
                && self.sig().blocks@[j].weak_hash == weak && self.sig().blocks@[j].strong_hash.bytes() == H(data@),
            r is None ==> forall|j: int| 0 <= j < self.sig().blocks@.len() ==>
                !((#[trigger] self.sig().blocks@[j]).weak_hash == weak && self.sig().blocks@[j].strong_hash.bytes() == H(data@)),
//@replace /candidates\s*\.iter\(\)\s*\.map\(\|&i\| &self\.signature\.blocks\[i\]\)\s*\.find\(\|sig\| sig\.strong_hash == strong\)/ => first_strong(candidates, &self.signature.blocks, &strong)
//@at end
        proof {
            let bl = self.signature.blocks@;
            assert(*candidates == self.weak_index@[weak]);
            assert(self.sig().blocks@ == bl);
            assert forall|k: int| 0 <= k < candidates@.len() implies (#[trigger] candidates@[k]) < bl.len() && bl[candidates@[k] as int].weak_hash == weak by {
                assert(self.weak_index@[weak]@[k] == candidates@[k]);
            }
            assert forall|j: int| 0 <= j < bl.len() && (#[trigger] bl[j]).strong_hash.bytes() == strong.bytes() implies bl[j].strong_hash == strong by {
                StrongHash::lemma_bytes_inj(bl[j].strong_hash, strong);
            }
        }
//@end
//@extract file=src/signature.rs impl="SignatureTable" fn=has_weak_match
//@ret r
//@requires
        self.wf(),
//@ensures
        r == (exists|j: int| 0 <= j < self.sig().blocks@.len() && (#[trigger] self.sig().blocks@[j]).weak_hash == weak),
//@at end
        proof {
            if self.weak_index@.dom().contains(weak) {
                let j = self.weak_index@[weak]@[0];
                assert(self.signature.blocks@[j as int].weak_hash == weak);
            }
        }
//@end
//@extract file=src/signature.rs impl="SignatureTable" fn=is_empty
//@ret r
//@ensures
        r == (self.sig().blocks@.len() == 0),
//@end
}
