// ---- src/signature.rs: block signatures; table lookups by (assumed, validated) contract ----
//@item file=src/signature.rs kind=struct name=BlockSignature
//@item file=src/signature.rs kind=struct name=Signature

pub open spec fn nblocks(n: int, bs: int) -> int { if bs <= 0 { 0 } else { (n + bs - 1) / bs } }
pub open spec fn block(basis: Seq<u8>, bs: int, j: int) -> Seq<u8> {
    basis.subrange(j * bs, if (j + 1) * bs <= basis.len() { (j + 1) * bs } else { basis.len() as int })
}
// "sig is the signature of basis": one entry per block (last may be short), exact weak digest, BLAKE3 of the block
pub open spec fn sig_of(sig: Signature, basis: Seq<u8>) -> bool {
    let bs = sig.block_size as int;
    &&& bs > 0
    &&& sig.file_size == basis.len()
    &&& sig.blocks@.len() == nblocks(basis.len() as int, bs)
    &&& forall|j: int| 0 <= j < sig.blocks@.len() ==> {
            &&& (#[trigger] sig.blocks@[j]).index == j
            &&& sig.blocks@[j].weak_hash == dig(block(basis, bs, j))
            &&& sig.blocks@[j].strong_hash.bytes() == H(block(basis, bs, j))
            &&& 0 <= j * bs < basis.len()
        }
}
// C01 "signatures do not depend on the engine / path that produced them": sig_of determines every field
pub proof fn lemma_sig_unique(s1: Signature, s2: Signature, basis: Seq<u8>)
    requires sig_of(s1, basis), sig_of(s2, basis), s1.block_size == s2.block_size
    ensures s1.file_size == s2.file_size, s1.blocks@.len() == s2.blocks@.len(),
        forall|j: int| 0 <= j < s1.blocks@.len() ==> #[trigger] s1.blocks@[j] == s2.blocks@[j],
{
    assert forall|j: int| 0 <= j < s1.blocks@.len() implies #[trigger] s1.blocks@[j] == s2.blocks@[j] by {
        let (x, y) = (s1.blocks@[j], s2.blocks@[j]);
        assert(x.index == y.index && x.weak_hash == y.weak_hash);
        StrongHash::lemma_bytes_inj(x.strong_hash, y.strong_hash);
    }
}

impl BlockSignature {
//@extract file=src/signature.rs impl="BlockSignature" fn=compute
//@ret r
//@ensures
        r.index == index, r.weak_hash == dig(data@), r.strong_hash.bytes() == H(data@),
//@at entry
        proof { }
//@end
}
impl Signature {
    // chunks / par_chunks / enumerate / map / collect + rayon: outside Verus' reach. ASSUMED (A), validated by the
    // `signature_generate` twin on both the sequential (<= 64 KiB) and the parallel path.
    #[verifier::external_body]
    pub fn generate<R: Read>(reader: &mut R, block_size: usize) -> (res: Result<Signature>)
        requires block_size > 0
        ensures res is Ok ==> sig_of(res->Ok_0, stream_of(&*old(reader))) && res->Ok_0.block_size == block_size,
            io_ok() ==> res is Ok,
    { unimplemented!() }
}
#[verifier::external_body]
pub fn clone_sig(s: &Signature) -> (r: Signature) ensures r == *s { unimplemented!() }   // derived Clone (A)

// SignatureTable: FxHashMap entry API + iterator adapters (.iter().map().find()) — contracts ASSUMED (A) and
// validated by the `signature_table` twin (weak-hash collisions, repeated blocks).
#[verifier::external_body]
pub struct SignatureTable { _p: () }
impl SignatureTable {
    pub uninterp spec fn sig(&self) -> Signature;
    #[verifier::external_body]
    pub fn from_signature(signature: Signature) -> (r: Self) ensures r.sig() == signature { unimplemented!() }
    #[verifier::external_body]
    pub fn is_empty(&self) -> (r: bool) ensures r == (self.sig().blocks@.len() == 0) { unimplemented!() }
    #[verifier::external_body]
    pub fn has_weak_match(&self, weak: u32) -> (r: bool)
        ensures r == (exists|j: int| 0 <= j < self.sig().blocks@.len() && (#[trigger] self.sig().blocks@[j]).weak_hash == weak)
    { unimplemented!() }
    #[verifier::external_body]
    pub fn find_match(&self, weak: u32, data: &[u8]) -> (r: Option<&BlockSignature>)
        ensures
            r is Some ==> exists|j: int| 0 <= j < self.sig().blocks@.len() && *r->Some_0 == (#[trigger] self.sig().blocks@[j])
                && self.sig().blocks@[j].weak_hash == weak && self.sig().blocks@[j].strong_hash.bytes() == H(data@),
            r is None ==> forall|j: int| 0 <= j < self.sig().blocks@.len() ==>
                !((#[trigger] self.sig().blocks@[j]).weak_hash == weak && self.sig().blocks@[j].strong_hash.bytes() == H(data@)),
    { unimplemented!() }
}
