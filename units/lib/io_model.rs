// ---- assumed I/O environment (A): std::io traits through uninterpreted ghost views; BLAKE3 as an opaque function ----
#[verifier::external_type_specification]
pub struct ExSeekFrom(std::io::SeekFrom);
#[verifier::external_type_specification] #[verifier::external_body] #[verifier::reject_recursive_types(T)] pub struct ExTake<T>(std::io::Take<T>);

// H = BLAKE3 as a mathematical function Seq<u8> -> Seq<u8>; nothing else is assumed about it.
pub uninterp spec fn H(s: Seq<u8>) -> Seq<u8>;
// never an axiom: only a hypothesis of the clauses that need it (C01 round trip, C16)
pub open spec fn collision_free() -> bool { forall|a: Seq<u8>, b: Seq<u8>| #[trigger] H(a) == #[trigger] H(b) ==> a == b }

pub mod blake3 {
    use super::*;
    #[verifier::external_body]
    pub struct Hasher { _p: () }
    #[verifier::external_body]
    pub struct Hash { _p: () }
    pub uninterp spec fn hasher_view(h: &Hasher) -> Seq<u8>;
    pub uninterp spec fn hash_view(h: &Hash) -> Seq<u8>;
    impl Hasher {
        #[verifier::external_body]
        pub fn new() -> (r: Hasher) ensures hasher_view(&r) == Seq::<u8>::empty() { unimplemented!() }
        #[verifier::external_body]
        pub fn update(&mut self, input: &[u8]) -> (r: &mut Hasher)
            ensures hasher_view(final(self)) == hasher_view(old(self)) + input@ { unimplemented!() }
        #[verifier::external_body]
        pub fn finalize(&self) -> (r: Hash) ensures hash_view(&r) == H(hasher_view(self)) { unimplemented!() }
    }
    impl Hash {
        #[verifier::external_body]
        pub fn as_bytes(&self) -> (r: &[u8; 32]) ensures r@ == hash_view(self) { unimplemented!() }
    }
    #[verifier::external_body]
    pub fn hash(input: &[u8]) -> (r: Hash) ensures hash_view(&r) == H(input@) { unimplemented!() }
}
// "no injected I/O fault": success of the std/tokio primitives is promised only under this hypothesis (never an axiom)
pub uninterp spec fn io_ok() -> bool;
// reader: fixed content, a position; `stream_of` = the bytes a sequential reader still has to deliver
pub uninterp spec fn r_content<R: ?Sized>(r: &R) -> Seq<u8>;
pub uninterp spec fn r_pos<R: ?Sized>(r: &R) -> nat;
pub uninterp spec fn stream_of<R: ?Sized>(r: &R) -> Seq<u8>;
pub uninterp spec fn w_written<W: ?Sized>(w: &W) -> Seq<u8>;

#[verifier::external_trait_specification]
pub trait ExRead {
    type ExternalTraitSpecificationFor: std::io::Read;
    fn read(&mut self, buf: &mut [u8]) -> (res: std::result::Result<usize, std::io::Error>)
        ensures
            final(buf)@.len() == old(buf)@.len(),
            res is Ok ==> {
                let n = res->Ok_0 as int;
                &&& n <= old(buf)@.len() && n <= stream_of(&*old(self)).len()
                &&& (n == 0 ==> old(buf)@.len() == 0 || stream_of(&*old(self)).len() == 0)
                &&& final(buf)@.subrange(0, n) == stream_of(&*old(self)).subrange(0, n)
                &&& final(buf)@.subrange(n, old(buf)@.len() as int) == old(buf)@.subrange(n, old(buf)@.len() as int)
                &&& stream_of(&*final(self)) == stream_of(&*old(self)).skip(n)
            };
    fn read_exact(&mut self, buf: &mut [u8]) -> (res: std::result::Result<(), std::io::Error>)
        ensures
            r_content(&*final(self)) == r_content(&*old(self)),
            final(buf)@.len() == old(buf)@.len(),
            (io_ok() && r_pos(&*old(self)) + old(buf)@.len() <= r_content(&*old(self)).len()) ==> res is Ok,
            res is Ok ==> {
                &&& r_pos(&*old(self)) + old(buf)@.len() <= r_content(&*old(self)).len()
                &&& final(buf)@ == r_content(&*old(self)).subrange(r_pos(&*old(self)) as int, (r_pos(&*old(self)) + old(buf)@.len()) as int)
                &&& r_pos(&*final(self)) == r_pos(&*old(self)) + old(buf)@.len()
            };
    fn take(self, limit: u64) -> (r: std::io::Take<Self>) where Self: Sized
        ensures stream_of(&r) == stream_of(&self).take(if limit as int <= stream_of(&self).len() { limit as int } else { stream_of(&self).len() as int });
    fn read_to_end(&mut self, buf: &mut Vec<u8>) -> (res: std::result::Result<usize, std::io::Error>)
        ensures res is Ok ==> final(buf)@ == old(buf)@ + stream_of(&*old(self)), io_ok() ==> res is Ok;
}
#[verifier::external_trait_specification]
pub trait ExSeek {
    type ExternalTraitSpecificationFor: std::io::Seek;
    fn seek(&mut self, pos: SeekFrom) -> (res: std::result::Result<u64, std::io::Error>)
        ensures
            r_content(&*final(self)) == r_content(&*old(self)),
            (io_ok() && pos is Start) ==> res is Ok,
            res is Ok ==> (match pos { SeekFrom::Start(o) => r_pos(&*final(self)) == o, _ => true });
}
#[verifier::external_trait_specification]
pub trait ExWrite {
    type ExternalTraitSpecificationFor: std::io::Write;
    fn write_all(&mut self, buf: &[u8]) -> (res: std::result::Result<(), std::io::Error>)
        ensures
            res is Ok ==> w_written(&*final(self)) == w_written(&*old(self)) + buf@, io_ok() ==> res is Ok;
    fn flush(&mut self) -> (res: std::result::Result<(), std::io::Error>)
        ensures w_written(&*final(self)) == w_written(&*old(self));
}
// R7: a by-value `mut output: W` cannot be named in `ensures`; writes go through this shim, whose body is
// that very call, and which logs the bytes in a ghost sink
pub struct Sink { pub bytes: Seq<u8> }
#[verifier::external_body]
pub fn vio_write_all<W: Write>(w: &mut W, buf: &[u8], Tracked(sink): Tracked<&mut Sink>) -> (res: std::result::Result<(), std::io::Error>)
    ensures res is Ok ==> final(sink).bytes == old(sink).bytes + buf@, io_ok() ==> res is Ok,
{ w.write_all(buf) }
// Rust guarantee (A): an allocation never exceeds isize::MAX bytes
#[verifier::external_body]
pub proof fn axiom_vec_len(v: &Vec<u8>) ensures v@.len() <= 0x7fff_ffff_ffff_ffff { }
pub assume_specification<T: Clone> [<[T]>::to_vec] (s: &[T]) -> (r: Vec<T>) ensures r@ == s@;
