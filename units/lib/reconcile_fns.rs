// ---- whole-tree reconcile (C18): text extracted from src/bin/copia/reconcile.rs ----
pub uninterp spec fn ord_le<T>(a: T, b: T) -> bool;
pub open spec fn sorted<T>(v: Seq<T>) -> bool { forall|i: int, j: int| 0 <= i <= j < v.len() ==> ord_le(v[i], v[j]) }
// assumed contracts of std (A): sort_unstable orders by Ord and permutes; dedup on an ordered vector leaves one copy of each
pub assume_specification<T: Ord> [<[T]>::sort_unstable] (v: &mut [T])
    ensures sorted(final(v)@), forall|x: T| final(v)@.contains(x) == old(v)@.contains(x);
pub assume_specification<T: PartialEq, A: core::alloc::Allocator> [Vec::<T, A>::dedup] (v: &mut Vec<T, A>)
    ensures forall|x: T| final(v)@.contains(x) == old(v)@.contains(x),
        sorted(old(v)@) ==> sorted(final(v)@) && final(v)@.no_duplicates();
pub assume_specification<T: Copy> [Option::<&T>::copied] (o: Option<&T>) -> (r: Option<T>)
    ensures r == (match o { Some(x) => Some(*x), None => None });

//@item file=src/bin/copia/reconcile.rs kind=enum name=FileType
//@item file=src/bin/copia/reconcile.rs kind=struct name=Fingerprint
//@item file=src/bin/copia/reconcile.rs kind=type name=FpMap
//@item file=src/bin/copia/reconcile.rs kind=enum name=ConflictKind
//@item file=src/bin/copia/reconcile.rs kind=enum name=Action
impl vstd::std_specs::cmp::PartialEqSpecImpl for Action {
    open spec fn obeys_eq_spec() -> bool { true }
    open spec fn eq_spec(&self, other: &Self) -> bool { *self == *other }
}

//@include table_spec.rs
// `reconcile_path` == table is proved by Kani on the real function (harness c18_reconcile_path_is_the_table,
// complete: loop-free, full-domain); the Verus caller uses the same contract text (cross-back-end modularity).
#[verifier::external_body]
pub fn reconcile_path(a: Option<Fingerprint>, b: Option<Fingerprint>, base: Option<Fingerprint>) -> (r: Action)
    ensures r == table(a, b, base)
{ unimplemented!() }

// R5 shim for the iterator expression `a.keys().chain(b.keys()).collect()`
#[verifier::external_body]
pub fn keys_chain<'a>(a: &'a FpMap, b: &'a FpMap) -> (r: Vec<&'a PathBuf>)
    ensures forall|p: PathBuf| r@.contains(&p) <==> (a@.contains_key(p) || b@.contains_key(p))
{ unimplemented!() }

pub open spec fn getv(m: Map<PathBuf, Fingerprint>, p: PathBuf) -> Option<Fingerprint> { if m.contains_key(p) { Some(m[p]) } else { None } }
pub open spec fn decision(a: Map<PathBuf, Fingerprint>, b: Map<PathBuf, Fingerprint>, base: Map<PathBuf, Fingerprint>, trust: bool, p: PathBuf) -> Action {
    table(getv(a, p), getv(b, p), if trust { getv(base, p) } else { None })
}

//@extract file=src/bin/copia/reconcile.rs fn=reconcile
//@ret out
//@ensures
        // every emitted pair is the non-trivial table decision of a path of dom a ∪ dom b (base ignored when untrusted)
        forall|i: int| 0 <= i < out@.len() ==> ({
            let (p, act) = #[trigger] out@[i];
            &&& (a@.contains_key(p) || b@.contains_key(p))
            &&& act == decision(a@, b@, base@, trust_base, p)
            &&& act != Action::Noop
        }),
        // every path of the union with a non-trivial decision is emitted ...
        forall|p: PathBuf| (a@.contains_key(p) || b@.contains_key(p)) && decision(a@, b@, base@, trust_base, p) != Action::Noop
            ==> exists|i: int| 0 <= i < out@.len() && (#[trigger] out@[i]).0 == p,
        // ... exactly once, in path order
        forall|i: int, j: int| #![trigger out@[i], out@[j]] 0 <= i < j < out@.len() ==> out@[i].0 != out@[j].0 && ord_le(&out@[i].0, &out@[j].0),
//@replace /a\.keys\(\)\.chain\(b\.keys\(\)\)\.collect\(\)/ => keys_chain(a, b)
//@at entry
    broadcast use group_btree_axioms, ax_pathbuf_keys;
//@at after /let mut paths/
    let ghost p0 = paths@;
//@at after /paths\.sort_unstable\(\)/
    let ghost p1 = paths@;
//@at after /paths\.dedup\(\)/
    let ghost p2 = paths@;
    let ghost mut sel: Seq<int> = Seq::empty();
    proof {
        assert forall|x: &PathBuf| p2.contains(x) <==> (a@.contains_key(*x) || b@.contains_key(*x)) by {
            assert(p1.contains(x) == p0.contains(x));
            assert(p2.contains(x) == p1.contains(x));
        }
    }
//@loop 0 iter it
//@loop 0 invariant
            it.seq() == p2, p2.no_duplicates(), sorted(p2),
            forall|x: &PathBuf| p2.contains(x) <==> (a@.contains_key(*x) || b@.contains_key(*x)),
            forall|i: int| 0 <= i < out@.len() ==> ({
                let (q, act) = #[trigger] out@[i];
                &&& (a@.contains_key(q) || b@.contains_key(q))
                &&& act == decision(a@, b@, base@, trust_base, q)
                &&& act != Action::Noop
            }),
            forall|j: int| 0 <= j < it.index() ==> (decision(a@, b@, base@, trust_base, *(#[trigger] it.seq()[j])) != Action::Noop
                ==> exists|i: int| 0 <= i < out@.len() && (#[trigger] out@[i]).0 == *it.seq()[j]),
            // provenance: out's paths are a strictly increasing selection `sel` of the processed prefix of p2
            sel.len() == out@.len(),
            forall|i: int| 0 <= i < sel.len() ==> 0 <= #[trigger] sel[i] < it.index() && out@[i].0 == *p2[sel[i]],
            forall|i: int, k: int| 0 <= i < k < sel.len() ==> sel[i] < sel[k],
//@at loop 0 entry
        broadcast use group_btree_axioms, ax_pathbuf_keys;
        let ghost out0 = out@;
//@at loop 0 end
        proof {
            let idx = it.index() as int;
            assert(p == it.seq()[idx]);
            assert(p2[idx] == p);
            assert(p2.contains(p));
            assert(a@.contains_key(*p) || b@.contains_key(*p));
            assert(act == decision(a@, b@, base@, trust_base, *p));
            assert forall|j: int| 0 <= j < idx + 1 implies (decision(a@, b@, base@, trust_base, *(#[trigger] it.seq()[j])) != Action::Noop
                ==> exists|i: int| 0 <= i < out@.len() && (#[trigger] out@[i]).0 == *it.seq()[j]) by {
                if j < idx {
                    if decision(a@, b@, base@, trust_base, *it.seq()[j]) != Action::Noop {
                        let i = choose|i: int| 0 <= i < out0.len() && (#[trigger] out0[i]).0 == *it.seq()[j];
                        assert(out@[i] == out0[i]);
                    }
                } else if act != Action::Noop {
                    assert(out@[out@.len() - 1].0 == *p);
                }
            }
        }
        proof {
            if act != Action::Noop { sel = sel.push(it.index() as int); }
        }
//@at after loop 0
    proof {
        assert forall|i: int, k: int| #![trigger out@[i], out@[k]] 0 <= i < k < out@.len() implies out@[i].0 != out@[k].0 && ord_le(&out@[i].0, &out@[k].0) by {
            assert(sel[i] < sel[k]);
            assert(p2[sel[i]] != p2[sel[k]]);
            assert(ord_le(p2[sel[i]], p2[sel[k]]));
        }
        assert forall|q: PathBuf| (a@.contains_key(q) || b@.contains_key(q)) && decision(a@, b@, base@, trust_base, q) != Action::Noop
            implies exists|i: int| 0 <= i < out@.len() && (#[trigger] out@[i]).0 == q by {
            assert(p2.contains(&q));
            let j = choose|j: int| 0 <= j < p2.len() && p2[j] == &q;
            assert(*p2[j] == q);
        }
    }
//@end
