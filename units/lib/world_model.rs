// ---- ghost file-system world (DESIGN §2.4): a model of the OS, not of copia. All of this is ASSUMED (A). ----
//@include path_algebra.rs
// files: bytes + "has been flushed to stable storage"; log: every effect in program order (crash points are its prefixes)
pub struct FileS { pub bytes: Seq<u8>, pub synced: bool }
pub enum Eff { Mkdir(PathV), Write(PathV), Sync(PathV), Rename(PathV, PathV), Unlink(PathV) }
pub struct World { pub files: Map<PathV, FileS>, pub log: Seq<Eff>, pub reliable: bool }

// new and old agree on every path outside s: same files, same bytes; a flushed file stays flushed
pub open spec fn same_except(new: Map<PathV, FileS>, old: Map<PathV, FileS>, s: Set<PathV>) -> bool {
    forall|p: PathV| !s.contains(p) ==> (#[trigger] new.dom().contains(p)) == old.dom().contains(p)
        && (new.dom().contains(p) ==> new[p].bytes == old[p].bytes && (old[p].synced ==> new[p].synced))
}
pub open spec fn ends_with(p: PathV, suf: PathV) -> bool { exists|q: PathV| p == #[trigger] (q + suf) }
// names that may be written non-atomically: they are outside every property's domain
pub open spec fn is_staging(p: PathV) -> bool { ends_with(p, TMP()) || ends_with(p, ATMP()) }

#[verifier::external_body]
pub fn vfs_create_dir_all<P: AsRef<Path>>(p: P, Tracked(w): Tracked<&mut World>) -> (r: std::io::Result<()>)
    ensures final(w).files == old(w).files, final(w).reliable == old(w).reliable,
        final(w).log == old(w).log.push(Eff::Mkdir(asp(p))),
        old(w).reliable ==> r is Ok,
{ unimplemented!() }

// NON-ATOMIC: only allowed onto a staging name; on failure the staging name may hold anything
#[verifier::external_body]
pub fn vfs_copy<P: AsRef<Path>, Q: AsRef<Path>>(from: P, to: Q, Tracked(w): Tracked<&mut World>) -> (r: std::io::Result<u64>)
    requires is_staging(asp(to)),
    ensures
        final(w).reliable == old(w).reliable,
        final(w).log == old(w).log.push(Eff::Write(asp(to))),
        r is Ok ==> old(w).files.contains_key(asp(from))
            && final(w).files == old(w).files.insert(asp(to), FileS { bytes: old(w).files[asp(from)].bytes, synced: false }),
        r is Err ==> same_except(final(w).files, old(w).files, set![asp(to)]),
        (old(w).reliable && old(w).files.contains_key(asp(from))) ==> r is Ok,
{ unimplemented!() }

// ATOMIC. Discipline (C08/C10): a staging file may only be published after it was flushed (sync_all).
#[verifier::external_body]
pub fn vfs_rename<P: AsRef<Path>, Q: AsRef<Path>>(from: P, to: Q, Tracked(w): Tracked<&mut World>) -> (r: std::io::Result<()>)
    requires (is_staging(asp(from)) && old(w).files.contains_key(asp(from))) ==> old(w).files[asp(from)].synced,
    ensures
        final(w).reliable == old(w).reliable,
        r is Ok ==> old(w).files.contains_key(asp(from))
            && final(w).files == old(w).files.remove(asp(from)).insert(asp(to), old(w).files[asp(from)])
            && final(w).log == old(w).log.push(Eff::Rename(asp(from), asp(to))),
        r is Err ==> final(w).files == old(w).files && final(w).log == old(w).log,
        (old(w).reliable && old(w).files.contains_key(asp(from))) ==> r is Ok,
{ unimplemented!() }

#[verifier::external_body]
pub fn vfs_remove_file<P: AsRef<Path>>(p: P, Tracked(w): Tracked<&mut World>) -> (r: std::io::Result<()>)
    ensures
        final(w).reliable == old(w).reliable,
        r is Ok ==> final(w).files == old(w).files.remove(asp(p)) && final(w).log == old(w).log.push(Eff::Unlink(asp(p))),
        r is Err ==> final(w).files == old(w).files && final(w).log == old(w).log,
        (old(w).reliable && old(w).files.contains_key(asp(p))) ==> r is Ok,
{ unimplemented!() }

#[verifier::external_body]
pub fn vfs_read<P: AsRef<Path>>(p: P, Tracked(w): Tracked<&World>) -> (r: std::io::Result<Vec<u8>>)
    ensures r is Ok ==> w.files.contains_key(asp(p)) && r->Ok_0@ == w.files[asp(p)].bytes,
{ unimplemented!() }

#[verifier::external_body]
pub fn vfs_exists(p: &Path, Tracked(w): Tracked<&World>) -> (r: bool) ensures r == w.files.contains_key(pv(p)) { unimplemented!() }

// std::fs::File by contract: a handle remembers its path (ghost)
pub mod vfs {
    use super::*;
    #[verifier::external_body]
    pub struct File { _p: () }
    impl File {
        pub uninterp spec fn path(&self) -> PathV;
        // NON-ATOMIC truncate+create: staging names only
        #[verifier::external_body]
        pub fn create<P: AsRef<Path>>(p: P, Tracked(w): Tracked<&mut World>) -> (r: std::io::Result<File>)
            requires is_staging(asp(p)),
            ensures final(w).reliable == old(w).reliable, final(w).log == old(w).log.push(Eff::Write(asp(p))),
                r is Ok ==> r->Ok_0.path() == asp(p) && final(w).files == old(w).files.insert(asp(p), FileS { bytes: Seq::empty(), synced: false }),
                r is Err ==> same_except(final(w).files, old(w).files, set![asp(p)]),
                old(w).reliable ==> r is Ok,
        { unimplemented!() }
        #[verifier::external_body]
        pub fn open<P: AsRef<Path>>(p: P, Tracked(w): Tracked<&World>) -> (r: std::io::Result<File>)
            ensures r is Ok ==> r->Ok_0.path() == asp(p), (w.reliable && w.files.contains_key(asp(p))) ==> r is Ok,
        { unimplemented!() }
        #[verifier::external_body]
        pub fn write_all(&mut self, buf: &[u8], Tracked(w): Tracked<&mut World>) -> (r: std::io::Result<()>)
            requires is_staging(old(self).path()),
            ensures final(self).path() == old(self).path(), final(w).reliable == old(w).reliable,
                final(w).log == old(w).log.push(Eff::Write(old(self).path())),
                same_except(final(w).files, old(w).files, set![old(self).path()]),
                (r is Ok && old(w).files.contains_key(old(self).path())) ==> final(w).files.contains_key(old(self).path())
                    && final(w).files[old(self).path()] == (FileS { bytes: old(w).files[old(self).path()].bytes + buf@, synced: false }),
                old(w).reliable ==> r is Ok,
        { unimplemented!() }
        // durability: after sync_all the file's current bytes are on stable storage
        #[verifier::external_body]
        pub fn sync_all(&self, Tracked(w): Tracked<&mut World>) -> (r: std::io::Result<()>)
            ensures final(w).reliable == old(w).reliable, final(w).log == old(w).log.push(Eff::Sync(self.path())),
                same_except(final(w).files, old(w).files, Set::empty()),      // no bytes change anywhere
                (r is Ok && old(w).files.contains_key(self.path())) ==> final(w).files[self.path()].synced,
                old(w).reliable ==> r is Ok,
        { unimplemented!() }
    }
}

// the archive's three names are pairwise distinct, and the temp name is a staging name
pub proof fn lemma_archive_names(path: PathV)
    ensures path + ATMP() != path, path + BAK() != path, path + ATMP() != path + BAK(), is_staging(path + ATMP())
{
    lemma_tmp_nonempty();
    broadcast use ax_strv_inj;
    reveal_strlit(".tmp"); reveal_strlit(".bak");
    assert(".tmp"@[1] != ".bak"@[1]);
    assert(ATMP() != BAK());
    lemma_prefix_inj(path, ATMP(), BAK());
    assert((path + ATMP()).len() != path.len());
    assert((path + BAK()).len() != path.len());
}
