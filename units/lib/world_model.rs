// ---- ghost file-system world (DESIGN §2.4): a model of the OS, not of copia. All of this is ASSUMED (A). ----
#[verifier::external_type_specification] #[verifier::external_body] pub struct ExIoError(std::io::Error);
#[verifier::external_type_specification] #[verifier::external_body] pub struct ExPathBuf(PathBuf);
#[verifier::external_type_specification] #[verifier::external_body] pub struct ExPath(Path);
#[verifier::external_type_specification] #[verifier::external_body] pub struct ExOsString(OsString);
#[verifier::external_type_specification] #[verifier::external_body] pub struct ExOsStr(OsStr);

// path algebra: a path is its byte string; join = concatenation with '/'
pub type PathV = Seq<u8>;
pub uninterp spec fn pv(p: &Path) -> PathV;
pub uninterp spec fn pbv(p: &PathBuf) -> PathV;
pub uninterp spec fn osv(p: &OsStr) -> PathV;
pub uninterp spec fn osbv(p: &OsString) -> PathV;
pub uninterp spec fn strv(s: Seq<char>) -> PathV;   // UTF-8 bytes of a string
pub uninterp spec fn asp<P>(p: P) -> PathV;         // AsRef<Path> / AsRef<OsStr> view
pub open spec fn SEP() -> PathV { seq![47u8] }
pub open spec fn joinv(a: PathV, b: PathV) -> PathV { a + SEP() + b }
pub open spec fn TMP() -> PathV { strv(".copia-tmp"@) }       // reserved staging suffix of data files
pub open spec fn ATMP() -> PathV { strv(".tmp"@) }            // staging suffix of the archive file
pub open spec fn BAK() -> PathV { strv(".bak"@) }

pub broadcast axiom fn asp_path(p: &Path) ensures #[trigger] asp::<&Path>(p) == pv(p);
pub broadcast axiom fn asp_pathbuf(p: &PathBuf) ensures #[trigger] asp::<&PathBuf>(p) == pbv(p);
pub broadcast axiom fn asp_pathbuf_val(p: PathBuf) ensures #[trigger] asp::<PathBuf>(p) == pbv(&p);
pub broadcast axiom fn asp_str(p: &str) ensures #[trigger] asp::<&str>(p) == strv(p@);
pub broadcast axiom fn asp_string(p: String) ensures #[trigger] asp::<String>(p) == strv(p@);
pub broadcast axiom fn ax_strv_len(s: Seq<char>) ensures #[trigger] strv(s).len() >= s.len();
pub broadcast axiom fn ax_strv_inj(a: Seq<char>, b: Seq<char>) ensures #[trigger] strv(a) == #[trigger] strv(b) ==> a == b;   // UTF-8 is injective

pub assume_specification<P: AsRef<Path>> [Path::join] (a: &Path, b: P) -> (r: PathBuf) ensures pbv(&r) == joinv(pv(a), asp(b));
pub assume_specification [<PathBuf as core::ops::Deref>::deref] (a: &PathBuf) -> (r: &Path) ensures pv(r) == pbv(a);
pub assume_specification [<PathBuf as Clone>::clone] (a: &PathBuf) -> (r: PathBuf) ensures r == *a;
pub assume_specification [Path::to_path_buf] (a: &Path) -> (r: PathBuf) ensures pbv(&r) == pv(a);
pub assume_specification [Path::as_os_str] (a: &Path) -> (r: &OsStr) ensures osv(r) == pv(a);
pub assume_specification [Path::parent] (a: &Path) -> (r: Option<&Path>);
pub assume_specification [OsStr::to_owned] (a: &OsStr) -> (r: OsString) ensures osbv(&r) == osv(a);
pub assume_specification<T: AsRef<OsStr>> [OsString::push] (a: &mut OsString, s: T) ensures osbv(final(a)) == osbv(old(a)) + asp(s);
pub assume_specification [<PathBuf as From<OsString>>::from] (a: OsString) -> (r: PathBuf) ensures pbv(&r) == osbv(&a);

// files: bytes + "has been flushed to stable storage"; log: every effect in program order (crash points are its prefixes)
pub struct FileS { pub bytes: Seq<u8>, pub synced: bool }
pub enum Eff { Mkdir(PathV), Write(PathV), Sync(PathV), Rename(PathV, PathV), Unlink(PathV) }
pub struct World { pub files: Map<PathV, FileS>, pub log: Seq<Eff>, pub reliable: bool }

// new and old agree on every path outside s: same files, same bytes; a flushed file stays flushed
pub open spec fn same_except(new: Map<PathV, FileS>, old: Map<PathV, FileS>, s: Set<PathV>) -> bool {
    forall|p: PathV| !s.contains(p) ==> (#[trigger] new.dom().contains(p)) == old.dom().contains(p)
        && (new.dom().contains(p) ==> new[p].bytes == old[p].bytes && (old[p].synced ==> new[p].synced))
}
pub open spec fn ends_with(p: PathV, suf: PathV) -> bool { exists|q: PathV| p == #[trigger] (q + suf) }
// names that may be written non-atomically: they are outside every property's domain
pub open spec fn is_staging(p: PathV) -> bool { ends_with(p, TMP()) || ends_with(p, ATMP()) }

#[verifier::external_body]
pub fn vfs_create_dir_all<P: AsRef<Path>>(p: P, Tracked(w): Tracked<&mut World>) -> (r: std::io::Result<()>)
    ensures final(w).files == old(w).files, final(w).reliable == old(w).reliable,
        final(w).log == old(w).log.push(Eff::Mkdir(asp(p))),
        old(w).reliable ==> r is Ok,
{ unimplemented!() }

// NON-ATOMIC: only allowed onto a staging name; on failure the staging name may hold anything
#[verifier::external_body]
pub fn vfs_copy<P: AsRef<Path>, Q: AsRef<Path>>(from: P, to: Q, Tracked(w): Tracked<&mut World>) -> (r: std::io::Result<u64>)
    requires is_staging(asp(to)),
    ensures
        final(w).reliable == old(w).reliable,
        final(w).log == old(w).log.push(Eff::Write(asp(to))),
        r is Ok ==> old(w).files.contains_key(asp(from))
            && final(w).files == old(w).files.insert(asp(to), FileS { bytes: old(w).files[asp(from)].bytes, synced: false }),
        r is Err ==> same_except(final(w).files, old(w).files, set![asp(to)]),
        (old(w).reliable && old(w).files.contains_key(asp(from))) ==> r is Ok,
{ unimplemented!() }

// ATOMIC. Discipline (C08/C10): a staging file may only be published after it was flushed (sync_all).
#[verifier::external_body]
pub fn vfs_rename<P: AsRef<Path>, Q: AsRef<Path>>(from: P, to: Q, Tracked(w): Tracked<&mut World>) -> (r: std::io::Result<()>)
    requires (is_staging(asp(from)) && old(w).files.contains_key(asp(from))) ==> old(w).files[asp(from)].synced,
    ensures
        final(w).reliable == old(w).reliable,
        r is Ok ==> old(w).files.contains_key(asp(from))
            && final(w).files == old(w).files.remove(asp(from)).insert(asp(to), old(w).files[asp(from)])
            && final(w).log == old(w).log.push(Eff::Rename(asp(from), asp(to))),
        r is Err ==> final(w).files == old(w).files && final(w).log == old(w).log,
        (old(w).reliable && old(w).files.contains_key(asp(from))) ==> r is Ok,
{ unimplemented!() }

#[verifier::external_body]
pub fn vfs_remove_file<P: AsRef<Path>>(p: P, Tracked(w): Tracked<&mut World>) -> (r: std::io::Result<()>)
    ensures
        final(w).reliable == old(w).reliable,
        r is Ok ==> final(w).files == old(w).files.remove(asp(p)) && final(w).log == old(w).log.push(Eff::Unlink(asp(p))),
        r is Err ==> final(w).files == old(w).files && final(w).log == old(w).log,
        (old(w).reliable && old(w).files.contains_key(asp(p))) ==> r is Ok,
{ unimplemented!() }

#[verifier::external_body]
pub fn vfs_read<P: AsRef<Path>>(p: P, Tracked(w): Tracked<&World>) -> (r: std::io::Result<Vec<u8>>)
    ensures r is Ok ==> w.files.contains_key(asp(p)) && r->Ok_0@ == w.files[asp(p)].bytes,
{ unimplemented!() }

#[verifier::external_body]
pub fn vfs_exists(p: &Path, Tracked(w): Tracked<&World>) -> (r: bool) ensures r == w.files.contains_key(pv(p)) { unimplemented!() }

// std::fs::File by contract: a handle remembers its path (ghost)
pub mod vfs {
    use super::*;
    #[verifier::external_body]
    pub struct File { _p: () }
    impl File {
        pub uninterp spec fn path(&self) -> PathV;
        // NON-ATOMIC truncate+create: staging names only
        #[verifier::external_body]
        pub fn create<P: AsRef<Path>>(p: P, Tracked(w): Tracked<&mut World>) -> (r: std::io::Result<File>)
            requires is_staging(asp(p)),
            ensures final(w).reliable == old(w).reliable, final(w).log == old(w).log.push(Eff::Write(asp(p))),
                r is Ok ==> r->Ok_0.path() == asp(p) && final(w).files == old(w).files.insert(asp(p), FileS { bytes: Seq::empty(), synced: false }),
                r is Err ==> same_except(final(w).files, old(w).files, set![asp(p)]),
                old(w).reliable ==> r is Ok,
        { unimplemented!() }
        #[verifier::external_body]
        pub fn open<P: AsRef<Path>>(p: P, Tracked(w): Tracked<&World>) -> (r: std::io::Result<File>)
            ensures r is Ok ==> r->Ok_0.path() == asp(p), (w.reliable && w.files.contains_key(asp(p))) ==> r is Ok,
        { unimplemented!() }
        #[verifier::external_body]
        pub fn write_all(&mut self, buf: &[u8], Tracked(w): Tracked<&mut World>) -> (r: std::io::Result<()>)
            requires is_staging(old(self).path()),
            ensures final(self).path() == old(self).path(), final(w).reliable == old(w).reliable,
                final(w).log == old(w).log.push(Eff::Write(old(self).path())),
                same_except(final(w).files, old(w).files, set![old(self).path()]),
                (r is Ok && old(w).files.contains_key(old(self).path())) ==> final(w).files.contains_key(old(self).path())
                    && final(w).files[old(self).path()] == (FileS { bytes: old(w).files[old(self).path()].bytes + buf@, synced: false }),
                old(w).reliable ==> r is Ok,
        { unimplemented!() }
        // durability: after sync_all the file's current bytes are on stable storage
        #[verifier::external_body]
        pub fn sync_all(&self, Tracked(w): Tracked<&mut World>) -> (r: std::io::Result<()>)
            ensures final(w).reliable == old(w).reliable, final(w).log == old(w).log.push(Eff::Sync(self.path())),
                same_except(final(w).files, old(w).files, Set::empty()),      // no bytes change anywhere
                (r is Ok && old(w).files.contains_key(self.path())) ==> final(w).files[self.path()].synced,
                old(w).reliable ==> r is Ok,
        { unimplemented!() }
    }
}

pub broadcast proof fn lemma_join_suffix(a: PathV, x: PathV, t: PathV)
    ensures #[trigger] (joinv(a, x) + t) =~= joinv(a, x + t)
{ }
pub proof fn lemma_tmp_nonempty() ensures TMP().len() > 0, ATMP().len() > 0, BAK().len() > 0
{ broadcast use ax_strv_len; reveal_strlit(".copia-tmp"); reveal_strlit(".tmp"); reveal_strlit(".bak"); assert(".copia-tmp"@.len() == 10); assert(".tmp"@.len() == 4); assert(".bak"@.len() == 4); }
pub proof fn lemma_prefix_inj(x: PathV, t1: PathV, t2: PathV)
    ensures (x + t1 == x + t2) ==> t1 == t2
{
    if x + t1 == x + t2 {
        assert((x + t1).subrange(x.len() as int, (x + t1).len() as int) =~= t1);
        assert((x + t2).subrange(x.len() as int, (x + t2).len() as int) =~= t2);
    }
}
// the archive's three names are pairwise distinct, and the temp name is a staging name
pub proof fn lemma_archive_names(path: PathV)
    ensures path + ATMP() != path, path + BAK() != path, path + ATMP() != path + BAK(), is_staging(path + ATMP())
{
    lemma_tmp_nonempty();
    broadcast use ax_strv_inj;
    reveal_strlit(".tmp"); reveal_strlit(".bak");
    assert(".tmp"@[1] != ".bak"@[1]);
    assert(ATMP() != BAK());
    lemma_prefix_inj(path, ATMP(), BAK());
    assert((path + ATMP()).len() != path.len());
    assert((path + BAK()).len() != path.len());
}
pub proof fn lemma_join_inj(a: PathV, x: PathV, y: PathV)
    ensures joinv(a, x) == joinv(a, y) ==> x == y
{
    if joinv(a, x) == joinv(a, y) {
        assert(joinv(a, x).subrange(a.len() as int + 1, joinv(a, x).len() as int) =~= x);
        assert(joinv(a, y).subrange(a.len() as int + 1, joinv(a, y).len() as int) =~= y);
    }
}
pub proof fn lemma_suffix_inj(x: PathV, y: PathV, t: PathV)
    ensures (x + t == y + t) ==> x == y
{
    if x + t == y + t {
        assert((x + t).len() == (y + t).len());
        assert((x + t).subrange(0, x.len() as int) =~= x);
        assert((y + t).subrange(0, y.len() as int) =~= y);
    }
}

// BTreeMap<PathBuf,_> keyed by byte view (A): PathBuf's Ord/Eq agree with the byte view
pub broadcast axiom fn ax_pathbuf_keys()
    ensures #[trigger] borrowed_key_ordering_matches::<PathBuf, Path>(), key_obeys_cmp_spec::<PathBuf>(),
        borrowed_key_ordering_matches::<PathBuf, PathBuf>();
pub broadcast axiom fn ax_pbv_inj(a: PathBuf, b: PathBuf)
    ensures #[trigger] pbv(&a) == #[trigger] pbv(&b) ==> a == b;
pub open spec fn mget<V>(m: Map<PathBuf, V>, p: PathV) -> Option<V> {
    if exists|k: PathBuf| m.contains_key(k) && pbv(&k) == p {
        Some(m[choose|k: PathBuf| m.contains_key(k) && pbv(&k) == p])
    } else { None }
}
pub broadcast axiom fn ax_contains_borrowed<V>(m: Map<PathBuf, V>, q: &Path)
    ensures #[trigger] contains_borrowed_key::<PathBuf, V, Path>(m, q) == (mget(m, pv(q)) is Some);
pub broadcast axiom fn ax_maps_borrowed<V>(m: Map<PathBuf, V>, q: &Path, v: V)
    ensures #[trigger] maps_borrowed_key_to_value::<PathBuf, V, Path>(m, q, v) == (mget(m, pv(q)) == Some(v));
pub broadcast axiom fn ax_removed_borrowed<V>(m: Map<PathBuf, V>, n: Map<PathBuf, V>, q: &Path)
    ensures #[trigger] borrowed_key_removed::<PathBuf, V, Path>(m, n, q)
        == (forall|p: PathV| #[trigger] mget(n, p) == (if p == pv(q) { None } else { mget(m, p) }));
pub broadcast axiom fn ax_contains_borrowed_pb<V>(m: Map<PathBuf, V>, q: &PathBuf)
    ensures #[trigger] contains_borrowed_key::<PathBuf, V, PathBuf>(m, q) == (mget(m, pbv(q)) is Some);
pub broadcast axiom fn ax_maps_borrowed_pb<V>(m: Map<PathBuf, V>, q: &PathBuf, v: V)
    ensures #[trigger] maps_borrowed_key_to_value::<PathBuf, V, PathBuf>(m, q, v) == (mget(m, pbv(q)) == Some(v));

pub proof fn lemma_mget_insert<V>(m: Map<PathBuf, V>, k: PathBuf, v: V, p: PathV)
    ensures mget(m.insert(k, v), p) == (if p == pbv(&k) { Some(v) } else { mget(m, p) })
{
    broadcast use ax_pbv_inj;
    let n = m.insert(k, v);
    if p == pbv(&k) {
        assert(n.contains_key(k) && pbv(&k) == p);
        let c = choose|c: PathBuf| n.contains_key(c) && pbv(&c) == p;
        assert(c == k);
    } else {
        if exists|c: PathBuf| m.contains_key(c) && pbv(&c) == p {
            let c0 = choose|c: PathBuf| m.contains_key(c) && pbv(&c) == p;
            assert(n.contains_key(c0) && pbv(&c0) == p);
            let c1 = choose|c: PathBuf| n.contains_key(c) && pbv(&c) == p;
            assert(c1 == c0);
        } else {
            assert forall|c: PathBuf| !(n.contains_key(c) && pbv(&c) == p) by { }
        }
    }
}
pub proof fn lemma_mget_key<V>(m: Map<PathBuf, V>, k: PathBuf)
    requires m.contains_key(k)
    ensures mget(m, pbv(&k)) == Some(m[k])
{
    broadcast use ax_pbv_inj;
    let c = choose|c: PathBuf| m.contains_key(c) && pbv(&c) == pbv(&k);
    assert(c == k);
}
pub proof fn lemma_mget_empty<V>(p: PathV)
    ensures mget(Map::<PathBuf, V>::empty(), p) is None
{ }
#[verifier::external_body] pub fn vfmt() -> String { String::new() }    // R3: diagnostics text is opaque
