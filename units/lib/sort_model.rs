// ---- assumed contract of slice::sort (A): result is ordered by T's Ord and is a permutation ----
pub uninterp spec fn ord_le<T>(a: T, b: T) -> bool;     // T's `Ord` (a total order; only named, never unfolded)
pub open spec fn sorted<T>(v: Seq<T>) -> bool { forall|i: int, j: int| 0 <= i <= j < v.len() ==> ord_le(v[i], v[j]) }
pub assume_specification<T: Ord> [<[T]>::sort] (v: &mut [T])
    ensures sorted(final(v)@), final(v)@.len() == old(v)@.len(),
        forall|x: T| final(v)@.contains(x) == old(v)@.contains(x),
        old(v)@.no_duplicates() ==> final(v)@.no_duplicates();
pub assume_specification<T: Copy> [Option::<&T>::copied] (o: Option<&T>) -> (r: Option<T>)
    ensures r == (match o { Some(x) => Some(*x), None => None });
pub assume_specification<T, U, F: FnOnce(T) -> U> [Option::<T>::map_or] (o: Option<T>, default: U, f: F) -> (r: U)
    requires o is Some ==> f.requires((o->Some_0,)),
    ensures o is None ==> r == default, o is Some ==> f.ensures((o->Some_0,), r);
