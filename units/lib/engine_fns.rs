// ---- the two engines: signature + delta (src/sync.rs, src/async_sync.rs) ----
impl CopiaSync {
//@extract file=src/sync.rs impl="Sync for CopiaSync" fn=signature
//@ret res
//@requires
        self.bs() > 0,
//@ensures
        // block index is a u32: fewer than 2^32 blocks (same domain clause as AsyncCopiaSync::signature's precondition)
        res is Ok ==> res->Ok_0.block_size == self.bs()
            && (stream_of(&basis).len() < 0xFFFF_FFFF * (self.bs() as int) ==> sig_of(res->Ok_0, stream_of(&basis))),
        io_ok() ==> res is Ok,
//@end
//@extract file=src/sync.rs impl="Sync for CopiaSync" fn=delta
//@sections delta_contract.sec
//@end
}
impl AsyncCopiaSync {
//@extract file=src/async_sync.rs impl="AsyncCopiaSync" fn=delta
//@sig /pub async fn/ => pub fn
//@sig /AsyncRead \+ Unpin/ => Read
//@replace /\.await/ =>  #all
//@sections delta_contract.sec
//@end
}

// C01 as a consequence of the two contracts: the delta's postcondition establishes the antecedent of patch's
// success clause, and patch's output clause then gives exactly the source.
pub proof fn lemma_c01_roundtrip(d: Delta, basis: Seq<u8>, s: Seq<u8>)
    requires
        d.source_size == s.len(), d.checksum.bytes() == H(s), d.basis_size == basis.len(),
        cpy(d.ops@) + lit(d.ops@) == s.len(), ops_ok(d.ops@, basis.len() as int), out(d.ops@, basis) == s,
        s.len() <= u64::MAX,
    ensures
        valid_ops(d.ops@, d.basis_size), total_len(d.ops@) == d.source_size, total_len(d.ops@) <= u64::MAX,
        H(out(d.ops@, basis)) == d.checksum.bytes(),
{
    lemma_total_is_lit_plus_cpy(d.ops@);
    assert forall|k: int| 0 <= k < d.ops@.len() implies copy_in(#[trigger] d.ops@[k], d.basis_size) by {
        assert(op_ok(d.ops@[k], basis.len() as int));
    }
}
