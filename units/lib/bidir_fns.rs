// ---- src/bin/copia/bidir.rs: copy_atomic, apply, run_bisync against the ghost world (C02, C06, C07, C08, C15) ----
//@item file=src/bin/copia/reconcile.rs kind=enum name=ConflictKind
//@item file=src/bin/copia/reconcile.rs kind=enum name=Action
impl vstd::std_specs::cmp::PartialEqSpecImpl for Action {
    open spec fn obeys_eq_spec() -> bool { true }
    open spec fn eq_spec(&self, other: &Self) -> bool { *self == *other }
}
//@item file=src/bin/copia/bidir.rs kind=struct name=BidirOptions

// new and old agree on every NON-STAGING path outside s (staging names are outside every property's domain)
pub open spec fn same_live(new: Map<PathV, FileS>, old: Map<PathV, FileS>, s: Set<PathV>) -> bool {
    forall|p: PathV| !s.contains(p) && !is_staging(p) ==> (#[trigger] new.dom().contains(p)) == old.dom().contains(p)
        && (new.dom().contains(p) ==> new[p].bytes == old[p].bytes && (old[p].synced ==> new[p].synced))
}
pub open spec fn log_extends(new: Seq<Eff>, old: Seq<Eff>) -> bool { old.len() <= new.len() && forall|i: int| 0 <= i < old.len() ==> #[trigger] new[i] == old[i] }
pub open spec fn no_unlink_since(log: Seq<Eff>, from: int) -> bool { forall|i: int| from <= i < log.len() ==> !(#[trigger] log[i] is Unlink) }
pub open spec fn roots_disjoint(ra: PathV, rb: PathV) -> bool { forall|x: PathV, y: PathV| #[trigger] joinv(ra, x) != #[trigger] joinv(rb, y) }

//@extract file=src/bin/copia/bidir.rs fn=copy_atomic
//@ret r
//@param+
    Tracked(w): Tracked<&mut World>
//@requires
    pv(src) != pv(dst) + TMP(),
//@ensures
    final(w).reliable == old(w).reliable,
    // C08/C02: whatever happens (success, failure, a crash between any two steps) no non-staging path other than `dst`
    // changes, and `dst` changes only by the final rename of a FLUSHED staging file
    same_live(final(w).files, old(w).files, set![pv(dst)]),
    r is Ok ==> old(w).files.contains_key(pv(src)) && final(w).files.contains_key(pv(dst))
        && final(w).files[pv(dst)].bytes == old(w).files[pv(src)].bytes && final(w).files[pv(dst)].synced,
    r is Err ==> same_live(final(w).files, old(w).files, Set::empty()),
    log_extends(final(w).log, old(w).log), no_unlink_since(final(w).log, old(w).log.len() as int),
    (old(w).reliable && old(w).files.contains_key(pv(src))) ==> r is Ok,
//@replace /std::fs::create_dir_all\(p\)/ => vfs_create_dir_all(p, Tracked(w))
//@replace /std::fs::copy\(src, &tmp\)/ => vfs_copy(src, &tmp, Tracked(w))
//@replace? /std::fs::File::open\(&tmp\)\?\.sync_all\(\)/ => vfs::File::open(&tmp, Tracked(&*w))?.sync_all(Tracked(w))
//@replace /std::fs::rename\(&tmp, dst\)/ => vfs_rename(&tmp, dst, Tracked(w))
//@at entry
    broadcast use asp_path, asp_pathbuf, asp_str;
    proof { lemma_tmp_nonempty(); }
    let ghost w0 = *w;
//@at before /std::fs::copy\(src, &tmp\)/
    proof {
        assert(pbv(&tmp) == pv(dst) + TMP());
        assert(is_staging(pbv(&tmp))) by { assert(ends_with(pbv(&tmp), TMP())); }
        assert(same_live(w.files, w0.files, Set::empty()));
    }
//@at after /std::fs::copy\(src, &tmp\)\?;/
    let ghost w1 = *w;
    proof {
        assert(w1.files.contains_key(pbv(&tmp)) && w1.files[pbv(&tmp)].bytes == w0.files[pv(src)].bytes);
        assert(same_live(w1.files, w0.files, Set::empty()));
    }
//@at before /std::fs::rename\(&tmp, dst\)/
    proof {
        // (a flush in between changes no bytes anywhere)
        assert(!Set::<PathV>::empty().contains(pbv(&tmp)));
        assert(w.files.dom().contains(pbv(&tmp)) == w1.files.dom().contains(pbv(&tmp)));
        assert(w.files.contains_key(pbv(&tmp)) && w.files[pbv(&tmp)].bytes == w0.files[pv(src)].bytes);
        assert(same_live(w.files, w0.files, Set::empty())) by {
            assert forall|p: PathV| !is_staging(p) implies (#[trigger] w.files.dom().contains(p)) == w0.files.dom().contains(p)
                && (w.files.dom().contains(p) ==> w.files[p].bytes == w0.files[p].bytes && (w0.files[p].synced ==> w.files[p].synced)) by {
                assert(!Set::<PathV>::empty().contains(p));
                assert(w1.files.dom().contains(p) == w0.files.dom().contains(p));
            }
        }
    }
//@end

// ---- apply ----
pub uninterp spec fn fp_of(bytes: Seq<u8>) -> Fingerprint;       // what fingerprint_path computes from a file's bytes
// what the scan saw at `rel` on one side is what is on disk there
pub open spec fn scanned_at(w: World, root: PathV, m: Map<PathBuf, Fingerprint>, rel: PathV) -> bool {
    match mget(m, rel) {
        Some(fp) => w.files.contains_key(joinv(root, rel)) && fp_of(w.files[joinv(root, rel)].bytes) == fp,
        None => !w.files.contains_key(joinv(root, rel)),
    }
}
pub uninterp spec fn hex12(h: Seq<u8>) -> Seq<char>;              // first 12 hex digits
pub uninterp spec fn conflict_suffix(host: Seq<char>, hex: Seq<char>) -> Seq<char>;   // ".conflict-" + host + "-" + hex
pub uninterp spec fn lex_ge(a: Seq<u8>, b: Seq<u8>) -> bool;     // byte-wise lexicographic >= (A: [u8; 32]'s Ord)
#[verifier::external_body]
fn short_hex(h: &[u8; 32]) -> (r: String) ensures r@ == hex12(h@) { unimplemented!() }      // iterator + write!: assumed (A)
// R3': the conflict-copy suffix is DATA, not a diagnostic: format!(".conflict-{host}-{}", hex) by contract
#[verifier::external_body]
fn vfmt_conflict(host: &str, hex: String) -> (r: String) ensures r@ == conflict_suffix(host@, hex@), strv(r@).len() > 0 { unimplemented!() }
// R5 shims for `[u8; 32]` comparisons (Verus gives array comparison no meaning)
#[verifier::external_body] fn hash_ge(a: &[u8; 32], b: &[u8; 32]) -> (r: bool) ensures r == lex_ge(a@, b@) { a >= b }
#[verifier::external_body] fn hash_gt(a: &[u8; 32], b: &[u8; 32]) -> (r: bool) ensures r == (lex_ge(a@, b@) && a@ != b@) { a > b }
#[verifier::external_body] fn hash_le(a: &[u8; 32], b: &[u8; 32]) -> (r: bool) ensures r == lex_ge(b@, a@) { a <= b }
#[verifier::external_body] fn hash_lt(a: &[u8; 32], b: &[u8; 32]) -> (r: bool) ensures r == (lex_ge(b@, a@) && a@ != b@) { a < b }

pub open spec fn conflict_name(rel: PathV, host: Seq<char>, loser: Fingerprint) -> PathV {
    rel + strv(conflict_suffix(host, hex12(loser.blake3@)))
}
// the non-staging paths an action may touch
pub open spec fn touched(act: Action, ra: PathV, rb: PathV, rel: PathV, ln: PathV) -> Set<PathV> {
    let pa = joinv(ra, rel); let pb = joinv(rb, rel);
    match act {
        Action::Noop => Set::empty(),
        Action::ConvergeIdentical => Set::empty(),
        Action::PropagateAtoB => set![pb],
        Action::PropagateBtoA => set![pa],
        Action::DeleteA => set![pa],
        Action::DeleteB => set![pb],
        Action::Conflict(ConflictKind::DeleteVsModify) => set![pa, pb],
        Action::Conflict(ConflictKind::BothChanged) => set![pa, pb, joinv(ra, ln), joinv(rb, ln)],
    }
}
pub open spec fn loser_of(am: Map<PathBuf, Fingerprint>, bm: Map<PathBuf, Fingerprint>, rel: PathV) -> Fingerprint {
    let fa = mget(am, rel)->Some_0; let fb = mget(bm, rel)->Some_0;
    if lex_ge(fa.blake3@, fb.blake3@) { fb } else { fa }
}
// the conflict-copy name a BothChanged action on rel uses (meaningful when both sides have rel)
pub open spec fn ln_of(am: Map<PathBuf, Fingerprint>, bm: Map<PathBuf, Fingerprint>, rel: PathV, host: Seq<char>) -> PathV {
    conflict_name(rel, host, loser_of(am, bm, rel))
}
pub open spec fn a_wins(am: Map<PathBuf, Fingerprint>, bm: Map<PathBuf, Fingerprint>, rel: PathV) -> bool {
    lex_ge(mget(am, rel)->Some_0.blake3@, mget(bm, rel)->Some_0.blake3@)
}
// outcome of a divergent edit (C06): the greater BLAKE3 at the path on both sides, the other at the conflict-copy name on both sides
pub open spec fn conflict_done(n: Map<PathV, FileS>, o: Map<PathV, FileS>, am: Map<PathBuf, Fingerprint>, bm: Map<PathBuf, Fingerprint>,
                               ra: PathV, rb: PathV, rel: PathV, host: Seq<char>) -> bool {
    let pa = joinv(ra, rel); let pb = joinv(rb, rel);
    let wbytes = if a_wins(am, bm, rel) { o[pa].bytes } else { o[pb].bytes };
    let lbytes = if a_wins(am, bm, rel) { o[pb].bytes } else { o[pa].bytes };
    let ln = ln_of(am, bm, rel, host);
    &&& n.contains_key(pa) && n[pa].bytes == wbytes && n.contains_key(pb) && n[pb].bytes == wbytes
    &&& (!is_staging(joinv(ra, ln)) && !is_staging(joinv(rb, ln)) ==>
            n.contains_key(joinv(ra, ln)) && n[joinv(ra, ln)].bytes == lbytes
            && n.contains_key(joinv(rb, ln)) && n[joinv(rb, ln)].bytes == lbytes)
}
pub proof fn lemma_insert_view<V>(c0: Map<PathBuf, V>, c1: Map<PathBuf, V>, relv: PathV, v: V)
    requires exists|k: PathBuf| pbv(&k) == relv && c1 == c0.insert(k, v)
    ensures forall|p: PathV| #[trigger] mget(c1, p) == (if p == relv { Some(v) } else { mget(c0, p) })
{
    let k = choose|k: PathBuf| pbv(&k) == relv && c1 == c0.insert(k, v);
    assert forall|p: PathV| #[trigger] mget(c1, p) == (if p == relv { Some(v) } else { mget(c0, p) }) by { lemma_mget_insert(c0, k, v, p); }
}

//@extract file=src/bin/copia/bidir.rs fn=apply
//@ret r
//@param+
    Tracked(w): Tracked<&mut World>
//@requires
    scanned_at(*old(w), pv(root_a), a@, pv(rel)),
    scanned_at(*old(w), pv(root_b), b@, pv(rel)),
    roots_disjoint(pv(root_a), pv(root_b)),
    // C02 / H7: a divergent edit may only write its conflict-copies over nothing, or over the very bytes being preserved
    (act == Action::Conflict(ConflictKind::BothChanged) && mget(a@, pv(rel)) is Some && mget(b@, pv(rel)) is Some) ==> ({
        let fa = mget(a@, pv(rel))->Some_0; let fb = mget(b@, pv(rel))->Some_0;
        let a_wins = lex_ge(fa.blake3@, fb.blake3@);
        let loser = if a_wins { fb } else { fa };
        let lbytes = if a_wins { old(w).files[joinv(pv(root_b), pv(rel))].bytes } else { old(w).files[joinv(pv(root_a), pv(rel))].bytes };
        let ln = ln_of(a@, b@, pv(rel), host@);
        &&& (old(w).files.contains_key(joinv(pv(root_a), ln)) ==> old(w).files[joinv(pv(root_a), ln)].bytes == lbytes)
        &&& (old(w).files.contains_key(joinv(pv(root_b), ln)) ==> old(w).files[joinv(pv(root_b), ln)].bytes == lbytes)
    }),
//@ensures
    final(w).reliable == old(w).reliable,
    log_extends(final(w).log, old(w).log),
    // C07 / C02: a file is unlinked only by a Delete action, and only the path that action names
    forall|i: int| old(w).log.len() <= i < final(w).log.len() && (#[trigger] final(w).log[i]) is Unlink ==>
        (act == Action::DeleteA && final(w).log[i] == Eff::Unlink(joinv(pv(root_a), pv(rel))))
        || (act == Action::DeleteB && final(w).log[i] == Eff::Unlink(joinv(pv(root_b), pv(rel)))),
    // frame (C02, C08): whether it succeeds, fails or is cut short, only the action's own paths may change
    same_live(final(w).files, old(w).files, touched(act, pv(root_a), pv(root_b), pv(rel), ln_of(a@, b@, pv(rel), host@))),
    // what success means, per action (paths outside the reserved staging names)
    (r is Ok && !is_staging(joinv(pv(root_a), pv(rel))) && !is_staging(joinv(pv(root_b), pv(rel)))) ==> ({
        let pa = joinv(pv(root_a), pv(rel)); let pb = joinv(pv(root_b), pv(rel));
        let o = old(w).files; let n = final(w).files;
        match act {
            Action::PropagateAtoB => o.contains_key(pa) && n.contains_key(pa) && n.contains_key(pb) && n[pb].bytes == o[pa].bytes && n[pa].bytes == o[pa].bytes,
            Action::PropagateBtoA => o.contains_key(pb) && n.contains_key(pb) && n.contains_key(pa) && n[pa].bytes == o[pb].bytes && n[pb].bytes == o[pb].bytes,
            Action::Conflict(ConflictKind::DeleteVsModify) =>
                (mget(a@, pv(rel)) is Some ==> n.contains_key(pb) && n[pb].bytes == o[pa].bytes && n.contains_key(pa) && n[pa].bytes == o[pa].bytes)
                && (mget(a@, pv(rel)) is None && mget(b@, pv(rel)) is Some ==> n.contains_key(pa) && n[pa].bytes == o[pb].bytes && n.contains_key(pb) && n[pb].bytes == o[pb].bytes),
            // C06: winner = the version with the greater BLAKE3 at the path on both sides; loser at <path>.conflict-<host>-<hex12> on both sides
            Action::Conflict(ConflictKind::BothChanged) => (mget(a@, pv(rel)) is Some && mget(b@, pv(rel)) is Some) ==>
                conflict_done(n, o, a@, b@, pv(root_a), pv(root_b), pv(rel), host@),
            _ => true,
        }
    }),
    // the recorded common state only ever gains the path itself (from a side that has it) or the conflict-copy name (C06 / H6)
    forall|p: PathV| (#[trigger] mget(final(common)@, p)) is Some ==> mget(old(common)@, p) is Some
        || (p == pv(rel) && (mget(a@, pv(rel)) is Some || mget(b@, pv(rel)) is Some))
        || (act == Action::Conflict(ConflictKind::BothChanged) && mget(a@, pv(rel)) is Some && mget(b@, pv(rel)) is Some
            && p == ln_of(a@, b@, pv(rel), host@)),
//@replace /std::fs::remove_file\(&pa\)/ => vfs_remove_file(&pa, Tracked(w))
//@replace /std::fs::remove_file\(&pb\)/ => vfs_remove_file(&pb, Tracked(w))
//@replace /copy_atomic\(&pa, &pb\)/ => copy_atomic(&pa, &pb, Tracked(w)) #all
//@replace /copy_atomic\(&pb, &pa\)/ => copy_atomic(&pb, &pa, Tracked(w)) #all
//@replace /copy_atomic\(&lose_full, &lose_root\.join\(&loser_name\)\)/ => copy_atomic(&lose_full, &lose_root.join(&loser_name), Tracked(w))
//@replace /copy_atomic\(&lose_full, &win_root\.join\(&loser_name\)\)/ => copy_atomic(&lose_full, &win_root.join(&loser_name), Tracked(w))
//@replace /copy_atomic\(&win_full, &lose_full\)/ => copy_atomic(&win_full, &lose_full, Tracked(w))
//@replace? /fa\.blake3 >= fb\.blake3/ => hash_ge(&fa.blake3, &fb.blake3)
//@replace? /fa\.blake3 > fb\.blake3/ => hash_gt(&fa.blake3, &fb.blake3)
//@replace? /fa\.blake3 <= fb\.blake3/ => hash_le(&fa.blake3, &fb.blake3)
//@replace? /fa\.blake3 < fb\.blake3/ => hash_lt(&fa.blake3, &fb.blake3)
//@replace /format!\("\.conflict-\{host\}-\{\}", short_hex\(&lose_fp\.blake3\)\)/ => vfmt_conflict(host, short_hex(&lose_fp.blake3))
//@at entry
    broadcast use asp_path, asp_pathbuf, asp_pathbuf_val, asp_str, asp_string, ax_pathbuf_keys, ax_contains_borrowed, ax_maps_borrowed, ax_removed_borrowed, lemma_join_suffix;
    proof { lemma_tmp_nonempty(); }
    let ghost w0 = *w;
    let ghost c00 = common@;
//@at after /copy_atomic\(&pa, &pb\)\?;/ #all
            proof {
                assert(pbv(&pa) == joinv(pv(root_a), pv(rel)) && pbv(&pb) == joinv(pv(root_b), pv(rel)));
                assert(pbv(&pa) != pbv(&pb));
                assert(!set![pbv(&pb)].contains(pbv(&pa)));
                assert(!is_staging(pbv(&pa)) ==> w.files.dom().contains(pbv(&pa)) == w0.files.dom().contains(pbv(&pa)));
            }
//@at after /copy_atomic\(&pb, &pa\)\?;/ #all
            proof {
                assert(pbv(&pa) == joinv(pv(root_a), pv(rel)) && pbv(&pb) == joinv(pv(root_b), pv(rel)));
                assert(pbv(&pa) != pbv(&pb));
                assert(!set![pbv(&pa)].contains(pbv(&pb)));
                assert(!is_staging(pbv(&pb)) ==> w.files.dom().contains(pbv(&pb)) == w0.files.dom().contains(pbv(&pb)));
            }
//@at before /copy_atomic\(&lose_full, &lose_root\.join\(&loser_name\)\)/
            let ghost lnv = pbv(&loser_name);
            let ghost w1 = *w;
            proof {
                assert(lnv == ln_of(a@, b@, pv(rel), host@));
                assert(lnv.len() > pv(rel).len());
                lemma_join_inj(pv(lose_root), lnv, pv(rel));
                lemma_join_inj(pv(win_root), lnv, pv(rel));
                assert(joinv(pv(lose_root), lnv) != joinv(pv(lose_root), pv(rel)));
                assert(joinv(pv(win_root), lnv) != joinv(pv(win_root), pv(rel)));
                assert(joinv(pv(lose_root), lnv) != joinv(pv(win_root), pv(rel)));
                assert(joinv(pv(win_root), lnv) != joinv(pv(lose_root), pv(rel)));
                assert(joinv(pv(lose_root), lnv) != joinv(pv(win_root), lnv));
                assert(joinv(pv(lose_root), lnv).len() < (joinv(pv(lose_root), lnv) + TMP()).len());
            }
//@at before /copy_atomic\(&lose_full, &win_root\.join\(&loser_name\)\)/
            let ghost w2 = *w;
            proof {
                assert(!is_staging(pbv(&lose_full)) ==> w2.files.dom().contains(pbv(&lose_full)) == w1.files.dom().contains(pbv(&lose_full)));
            }
//@at before /copy_atomic\(&win_full, &lose_full\)/
            let ghost w3 = *w;
            proof {
                assert(!is_staging(pbv(&win_full)) ==> w3.files.dom().contains(pbv(&win_full)) == w2.files.dom().contains(pbv(&win_full)));
                assert(!is_staging(pbv(&win_full)) ==> w2.files.dom().contains(pbv(&win_full)) == w1.files.dom().contains(pbv(&win_full)));
                assert(!is_staging(joinv(pv(lose_root), lnv)) ==> w3.files.dom().contains(joinv(pv(lose_root), lnv)) == w2.files.dom().contains(joinv(pv(lose_root), lnv)));
            }
//@at before /common\.insert\(rel\.to_path_buf\(\), \*win_fp\);/
            proof {
                let w4 = *w;
                let d1 = joinv(pv(lose_root), lnv); let d2 = joinv(pv(win_root), lnv);
                let lf = pbv(&lose_full); let wf = pbv(&win_full);
                assert(lf == joinv(pv(lose_root), pv(rel)) && wf == joinv(pv(win_root), pv(rel)));
                assert(d1 != lf && d2 != lf && wf != lf && d1 != d2 && d1 != wf && d2 != wf);
                assert(w1 == w0);
                let fa_s = mget(a@, pv(rel))->Some_0; let fb_s = mget(b@, pv(rel))->Some_0;
                assert(mget(a@, pv(rel)) == Some(*fa) && mget(b@, pv(rel)) == Some(*fb));
                if lex_ge(fa_s.blake3@, fb_s.blake3@) {
                    assert(pv(win_root) == pv(root_a) && pv(lose_root) == pv(root_b) && *lose_fp == fb_s);
                } else {
                    assert(pv(win_root) == pv(root_b) && pv(lose_root) == pv(root_a) && *lose_fp == fa_s);
                }
                assert(lnv == ln_of(a@, b@, pv(rel), host@));
                assert(lex_ge(fa_s.blake3@, fb_s.blake3@) == a_wins(a@, b@, pv(rel)));
                if !is_staging(lf) && !is_staging(wf) {
                    assert(w1.files.contains_key(lf));
                    assert(w2.files.dom().contains(lf) == w1.files.dom().contains(lf));
                    assert(w2.files.contains_key(lf) && w2.files[lf].bytes == w1.files[lf].bytes);
                    assert(w2.files.dom().contains(wf) == w1.files.dom().contains(wf));
                    assert(w3.files.dom().contains(wf) == w2.files.dom().contains(wf));
                    assert(w3.files.contains_key(wf) && w3.files[wf].bytes == w1.files[wf].bytes);
                    assert(w4.files.contains_key(lf) && w4.files[lf].bytes == w1.files[wf].bytes);
                    assert(same_live(w4.files, w3.files, set![lf]));
                    assert(!set![lf].contains(wf));
                    assert(w4.files.dom().contains(wf) == w3.files.dom().contains(wf));
                    assert(w4.files.contains_key(wf) && w4.files[wf].bytes == w1.files[wf].bytes);
                    if !is_staging(d1) && !is_staging(d2) {
                        assert(w2.files.contains_key(d1) && w2.files[d1].bytes == w1.files[lf].bytes);
                        assert(w3.files.contains_key(d2) && w3.files[d2].bytes == w1.files[lf].bytes);
                        assert(!set![d2].contains(d1));
                        assert(w3.files.dom().contains(d1) == w2.files.dom().contains(d1));
                        assert(w3.files.contains_key(d1) && w3.files[d1].bytes == w1.files[lf].bytes);
                        assert(!set![lf].contains(d1) && !set![lf].contains(d2));
                        assert(w4.files.dom().contains(d1) == w3.files.dom().contains(d1));
                        assert(w4.files.dom().contains(d2) == w3.files.dom().contains(d2));
                        assert(w4.files.contains_key(d1) && w4.files[d1].bytes == w1.files[lf].bytes);
                        assert(w4.files.contains_key(d2) && w4.files[d2].bytes == w1.files[lf].bytes);
                    }
                    assert(conflict_done(w4.files, w0.files, a@, b@, pv(root_a), pv(root_b), pv(rel), host@));
                }
            }
//@at before /common\.insert\(rel\.to_path_buf\(\), \*fp\);/ #all
                let ghost c0 = common@;
//@at after /common\.insert\(rel\.to_path_buf\(\), \*fp\);/ #all
                proof { lemma_insert_view(c0, common@, pv(rel), *fp); }
//@end
