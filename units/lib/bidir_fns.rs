// ---- src/bin/copia/bidir.rs: copy_atomic, apply, run_bisync against the ghost world (C02, C06, C07, C08, C15) ----
//@item file=src/bin/copia/reconcile.rs kind=enum name=ConflictKind
//@item file=src/bin/copia/reconcile.rs kind=enum name=Action
impl vstd::std_specs::cmp::PartialEqSpecImpl for Action {
    open spec fn obeys_eq_spec() -> bool { true }
    open spec fn eq_spec(&self, other: &Self) -> bool { *self == *other }
}
//@item file=src/bin/copia/bidir.rs kind=struct name=BidirOptions

// new and old agree on every NON-STAGING path outside s (staging names are outside every property's domain)
pub open spec fn same_live(new: Map<PathV, FileS>, old: Map<PathV, FileS>, s: Set<PathV>) -> bool {
    forall|p: PathV| !s.contains(p) && !is_staging(p) ==> (#[trigger] new.dom().contains(p)) == old.dom().contains(p)
        && (new.dom().contains(p) ==> new[p].bytes == old[p].bytes && (old[p].synced ==> new[p].synced))
}
pub open spec fn log_extends(new: Seq<Eff>, old: Seq<Eff>) -> bool { old.len() <= new.len() && forall|i: int| 0 <= i < old.len() ==> #[trigger] new[i] == old[i] }
pub open spec fn no_unlink_since(log: Seq<Eff>, from: int) -> bool { forall|i: int| from <= i < log.len() ==> !(#[trigger] log[i] is Unlink) }
pub open spec fn roots_disjoint(ra: PathV, rb: PathV) -> bool { forall|x: PathV, y: PathV| #[trigger] joinv(ra, x) != #[trigger] joinv(rb, y) }

//@extract file=src/bin/copia/bidir.rs fn=copy_atomic
//@ret r
//@param+
    Tracked(w): Tracked<&mut World>
//@requires
    pv(src) != pv(dst) + TMP(),
//@ensures
    final(w).reliable == old(w).reliable,
    // C08/C02: whatever happens (success, failure, a crash between any two steps) no non-staging path other than `dst`
    // changes, and `dst` changes only by the final rename of a FLUSHED staging file
    same_live(final(w).files, old(w).files, set![pv(dst)]),
    r is Ok ==> old(w).files.contains_key(pv(src)) && final(w).files.contains_key(pv(dst)) && final(w).files[pv(dst)].bytes == old(w).files[pv(src)].bytes,
    r is Ok ==> final(w).files.contains_key(pv(dst)) && final(w).files[pv(dst)].synced,     // C08: what is published was flushed first
    r is Err ==> same_live(final(w).files, old(w).files, Set::empty()),
    log_extends(final(w).log, old(w).log), no_unlink_since(final(w).log, old(w).log.len() as int),
    forall|i: int| old(w).log.len() <= i < final(w).log.len() && (#[trigger] final(w).log[i]) is Rename ==> final(w).log[i]->Rename_1 == pv(dst),
    (old(w).reliable && old(w).files.contains_key(pv(src))) ==> r is Ok,
//@replace /std::fs::create_dir_all\(p\)/ => vfs_create_dir_all(p, Tracked(w))
//@replace /std::fs::copy\(src, &tmp\)/ => vfs_copy(src, &tmp, Tracked(w))
//@replace? /std::fs::File::open\(&tmp\)\?\.sync_all\(\)/ => vfs::File::open(&tmp, Tracked(&*w))?.sync_all(Tracked(w))
//@replace /std::fs::rename\(&tmp, dst\)/ => vfs_rename(&tmp, dst, Tracked(w))
//@at entry
    broadcast use asp_path, asp_pathbuf, asp_str;
    proof { lemma_tmp_nonempty(); }
    let ghost w0 = *w;
//@at before /std::fs::copy\(src, &tmp\)/
    proof {
        assert(pbv(&tmp) == pv(dst) + TMP());
        assert(is_staging(pbv(&tmp))) by { assert(ends_with(pbv(&tmp), TMP())); }
        assert(same_live(w.files, w0.files, Set::empty()));
    }
//@at after /std::fs::copy\(src, &tmp\)\?;/
    let ghost w1 = *w;
    proof {
        assert(w1.files.contains_key(pbv(&tmp)) && w1.files[pbv(&tmp)].bytes == w0.files[pv(src)].bytes);
        assert(same_live(w1.files, w0.files, Set::empty()));
    }
//@at before /std::fs::rename\(&tmp, dst\)/
    proof {
        // (a flush in between changes no bytes anywhere)
        assert(!Set::<PathV>::empty().contains(pbv(&tmp)));
        assert(w.files.dom().contains(pbv(&tmp)) == w1.files.dom().contains(pbv(&tmp)));
        assert(w.files.contains_key(pbv(&tmp)) && w.files[pbv(&tmp)].bytes == w0.files[pv(src)].bytes);
        assert(same_live(w.files, w0.files, Set::empty())) by {
            assert forall|p: PathV| !is_staging(p) implies (#[trigger] w.files.dom().contains(p)) == w0.files.dom().contains(p)
                && (w.files.dom().contains(p) ==> w.files[p].bytes == w0.files[p].bytes && (w0.files[p].synced ==> w.files[p].synced)) by {
                assert(!Set::<PathV>::empty().contains(p));
                assert(w1.files.dom().contains(p) == w0.files.dom().contains(p));
            }
        }
    }
//@end

// ---- apply ----
pub uninterp spec fn fp_of(bytes: Seq<u8>) -> Fingerprint;       // what fingerprint_path computes from a file's bytes
// what the scan saw at `rel` on one side is what is on disk there
pub open spec fn scanned_at(w: World, root: PathV, m: Map<PathBuf, Fingerprint>, rel: PathV) -> bool {
    match mget(m, rel) {
        Some(fp) => w.files.contains_key(joinv(root, rel)) && fp_of(w.files[joinv(root, rel)].bytes) == fp,
        None => !w.files.contains_key(joinv(root, rel)),
    }
}
pub uninterp spec fn hex12(h: Seq<u8>) -> Seq<char>;              // first 12 hex digits
pub uninterp spec fn conflict_suffix(host: Seq<char>, hex: Seq<char>) -> Seq<char>;   // ".conflict-" + host + "-" + hex
pub uninterp spec fn lex_ge(a: Seq<u8>, b: Seq<u8>) -> bool;     // byte-wise lexicographic >= (A: [u8; 32]'s Ord)
#[verifier::external_body]
fn short_hex(h: &[u8; 32]) -> (r: String) ensures r@ == hex12(h@) { unimplemented!() }      // iterator + write!: assumed (A)
// R3': the conflict-copy suffix is DATA, not a diagnostic: format!(".conflict-{host}-{}", hex) by contract
#[verifier::external_body]
fn vfmt_conflict(host: &str, hex: String) -> (r: String) ensures r@ == conflict_suffix(host@, hex@), strv(r@).len() > 0 { unimplemented!() }
// R5 shims for `[u8; 32]` comparisons (Verus gives array comparison no meaning)
#[verifier::external_body] fn hash_ge(a: &[u8; 32], b: &[u8; 32]) -> (r: bool) ensures r == lex_ge(a@, b@) { a >= b }
#[verifier::external_body] fn hash_gt(a: &[u8; 32], b: &[u8; 32]) -> (r: bool) ensures r == (lex_ge(a@, b@) && a@ != b@) { a > b }
#[verifier::external_body] fn hash_le(a: &[u8; 32], b: &[u8; 32]) -> (r: bool) ensures r == lex_ge(b@, a@) { a <= b }
#[verifier::external_body] fn hash_lt(a: &[u8; 32], b: &[u8; 32]) -> (r: bool) ensures r == (lex_ge(b@, a@) && a@ != b@) { a < b }

pub open spec fn conflict_name(rel: PathV, host: Seq<char>, loser: Fingerprint) -> PathV {
    rel + strv(conflict_suffix(host, hex12(loser.blake3@)))
}
// the non-staging paths an action may touch
pub open spec fn touched(act: Action, ra: PathV, rb: PathV, rel: PathV, ln: PathV) -> Set<PathV> {
    let pa = joinv(ra, rel); let pb = joinv(rb, rel);
    match act {
        Action::Noop => Set::empty(),
        Action::ConvergeIdentical => Set::empty(),
        Action::PropagateAtoB => set![pb],
        Action::PropagateBtoA => set![pa],
        Action::DeleteA => set![pa],
        Action::DeleteB => set![pb],
        Action::Conflict(ConflictKind::DeleteVsModify) => set![pa, pb],
        Action::Conflict(ConflictKind::BothChanged) => set![pa, pb, joinv(ra, ln), joinv(rb, ln)],
    }
}
pub open spec fn loser_of(am: Map<PathBuf, Fingerprint>, bm: Map<PathBuf, Fingerprint>, rel: PathV) -> Fingerprint {
    let fa = mget(am, rel)->Some_0; let fb = mget(bm, rel)->Some_0;
    if lex_ge(fa.blake3@, fb.blake3@) { fb } else { fa }
}
// the conflict-copy name a BothChanged action on rel uses (meaningful when both sides have rel)
pub open spec fn ln_of(am: Map<PathBuf, Fingerprint>, bm: Map<PathBuf, Fingerprint>, rel: PathV, host: Seq<char>) -> PathV {
    conflict_name(rel, host, loser_of(am, bm, rel))
}
pub open spec fn a_wins(am: Map<PathBuf, Fingerprint>, bm: Map<PathBuf, Fingerprint>, rel: PathV) -> bool {
    lex_ge(mget(am, rel)->Some_0.blake3@, mget(bm, rel)->Some_0.blake3@)
}
// outcome of a divergent edit (C06): the greater BLAKE3 at the path on both sides, the other at the conflict-copy name on both sides
pub open spec fn conflict_done(n: Map<PathV, FileS>, o: Map<PathV, FileS>, am: Map<PathBuf, Fingerprint>, bm: Map<PathBuf, Fingerprint>,
                               ra: PathV, rb: PathV, rel: PathV, host: Seq<char>) -> bool {
    let pa = joinv(ra, rel); let pb = joinv(rb, rel);
    let wbytes = if a_wins(am, bm, rel) { o[pa].bytes } else { o[pb].bytes };
    let lbytes = if a_wins(am, bm, rel) { o[pb].bytes } else { o[pa].bytes };
    let ln = ln_of(am, bm, rel, host);
    &&& n.contains_key(pa) && n[pa].bytes == wbytes && n.contains_key(pb) && n[pb].bytes == wbytes
    &&& (!is_staging(joinv(ra, ln)) && !is_staging(joinv(rb, ln)) ==>
            n.contains_key(joinv(ra, ln)) && n[joinv(ra, ln)].bytes == lbytes
            && n.contains_key(joinv(rb, ln)) && n[joinv(rb, ln)].bytes == lbytes)
}
// side condition of "no version is lost" for one action (C02): what the scan saw at rel is still on disk on both
// sides, and (H7) a divergent edit writes its conflict-copies over nothing or over the very bytes being preserved
pub open spec fn apply_pre(w: World, am: Map<PathBuf, Fingerprint>, bm: Map<PathBuf, Fingerprint>, ra: PathV, rb: PathV, rel: PathV, act: Action, host: Seq<char>) -> bool {
    &&& scanned_at(w, ra, am, rel)
    &&& scanned_at(w, rb, bm, rel)
    &&& conflict_names_free(w, am, bm, ra, rb, rel, act, host)
}
pub open spec fn conflict_names_free(w: World, am: Map<PathBuf, Fingerprint>, bm: Map<PathBuf, Fingerprint>, ra: PathV, rb: PathV, rel: PathV, act: Action, host: Seq<char>) -> bool {
    (act == Action::Conflict(ConflictKind::BothChanged) && mget(am, rel) is Some && mget(bm, rel) is Some) ==> ({
        let lbytes = if a_wins(am, bm, rel) { w.files[joinv(rb, rel)].bytes } else { w.files[joinv(ra, rel)].bytes };
        let ln = ln_of(am, bm, rel, host);
        &&& (w.files.contains_key(joinv(ra, ln)) ==> w.files[joinv(ra, ln)].bytes == lbytes)
        &&& (w.files.contains_key(joinv(rb, ln)) ==> w.files[joinv(rb, ln)].bytes == lbytes)
    })
}
// (H7b) the conflict-copy name a divergent edit writes is not itself a path of the plan: otherwise the action planned
// for that path was computed from a scan that this write has just made stale
pub open spec fn conflict_name_not_planned(plan: Seq<(PathBuf, Action)>, am: Map<PathBuf, Fingerprint>, bm: Map<PathBuf, Fingerprint>, rel: PathV, act: Action, host: Seq<char>) -> bool {
    (act == Action::Conflict(ConflictKind::BothChanged) && mget(am, rel) is Some && mget(bm, rel) is Some)
        ==> forall|j: int| 0 <= j < plan.len() ==> pbv(&(#[trigger] plan[j]).0) != ln_of(am, bm, rel, host)
}
pub open spec fn under(root: PathV, p: PathV) -> bool { exists|x: PathV| p == #[trigger] joinv(root, x) }
pub proof fn lemma_insert_view<V>(c0: Map<PathBuf, V>, c1: Map<PathBuf, V>, relv: PathV, v: V)
    requires exists|k: PathBuf| pbv(&k) == relv && c1 == c0.insert(k, v)
    ensures forall|p: PathV| #[trigger] mget(c1, p) == (if p == relv { Some(v) } else { mget(c0, p) })
{
    let k = choose|k: PathBuf| pbv(&k) == relv && c1 == c0.insert(k, v);
    assert forall|p: PathV| #[trigger] mget(c1, p) == (if p == relv { Some(v) } else { mget(c0, p) }) by { lemma_mget_insert(c0, k, v, p); }
}

//@extract file=src/bin/copia/bidir.rs fn=apply
//@ret r
//@param+
    Tracked(w): Tracked<&mut World>
//@requires
    roots_disjoint(pv(root_a), pv(root_b)),
//@ensures
    final(w).reliable == old(w).reliable,
    log_extends(final(w).log, old(w).log),
    // C07 / C02: a file is unlinked only by a Delete action, and only the path that action names
    forall|i: int| old(w).log.len() <= i < final(w).log.len() && (#[trigger] final(w).log[i]) is Unlink ==>
        (act == Action::DeleteA && final(w).log[i] == Eff::Unlink(joinv(pv(root_a), pv(rel))))
        || (act == Action::DeleteB && final(w).log[i] == Eff::Unlink(joinv(pv(root_b), pv(rel)))),
    // frame (C02, C08): whether it succeeds, fails or is cut short, only the action's own paths may change
    same_live(final(w).files, old(w).files, touched(act, pv(root_a), pv(root_b), pv(rel), ln_of(a@, b@, pv(rel), host@))),
    // what success means, per action (paths outside the reserved staging names)
    (r is Ok && scanned_at(*old(w), pv(root_a), a@, pv(rel)) && scanned_at(*old(w), pv(root_b), b@, pv(rel))
        && !is_staging(joinv(pv(root_a), pv(rel))) && !is_staging(joinv(pv(root_b), pv(rel)))) ==> ({
        let pa = joinv(pv(root_a), pv(rel)); let pb = joinv(pv(root_b), pv(rel));
        let o = old(w).files; let n = final(w).files;
        match act {
            Action::PropagateAtoB => o.contains_key(pa) && n.contains_key(pa) && n.contains_key(pb) && n[pb].bytes == o[pa].bytes && n[pa].bytes == o[pa].bytes,
            Action::PropagateBtoA => o.contains_key(pb) && n.contains_key(pb) && n.contains_key(pa) && n[pa].bytes == o[pb].bytes && n[pb].bytes == o[pb].bytes,
            Action::Conflict(ConflictKind::DeleteVsModify) =>
                (mget(a@, pv(rel)) is Some ==> n.contains_key(pb) && n[pb].bytes == o[pa].bytes && n.contains_key(pa) && n[pa].bytes == o[pa].bytes)
                && (mget(a@, pv(rel)) is None && mget(b@, pv(rel)) is Some ==> n.contains_key(pa) && n[pa].bytes == o[pb].bytes && n.contains_key(pb) && n[pb].bytes == o[pb].bytes),
            // C06: winner = the version with the greater BLAKE3 at the path on both sides; loser at <path>.conflict-<host>-<hex12> on both sides
            Action::Conflict(ConflictKind::BothChanged) => (mget(a@, pv(rel)) is Some && mget(b@, pv(rel)) is Some) ==>
                conflict_done(n, o, a@, b@, pv(root_a), pv(root_b), pv(rel), host@),
            _ => true,
        }
    }),
    // C08: every rename lands inside one of the two trees (never on the archive)
    forall|i: int| old(w).log.len() <= i < final(w).log.len() && (#[trigger] final(w).log[i]) is Rename ==>
        under(pv(root_a), final(w).log[i]->Rename_1) || under(pv(root_b), final(w).log[i]->Rename_1),
    // C06: what is recorded for the path is the fingerprint of the version now on both sides
    r is Ok ==> (match act {
        Action::Noop => final(common)@ == old(common)@,
        Action::ConvergeIdentical => mget(a@, pv(rel)) is Some ==> mget(final(common)@, pv(rel)) == mget(a@, pv(rel)),
        Action::PropagateAtoB => mget(a@, pv(rel)) is Some ==> mget(final(common)@, pv(rel)) == mget(a@, pv(rel)),
        Action::PropagateBtoA => mget(b@, pv(rel)) is Some ==> mget(final(common)@, pv(rel)) == mget(b@, pv(rel)),
        Action::DeleteA => mget(final(common)@, pv(rel)) is None,
        Action::DeleteB => mget(final(common)@, pv(rel)) is None,
        Action::Conflict(ConflictKind::DeleteVsModify) => (mget(a@, pv(rel)) is Some ==> mget(final(common)@, pv(rel)) == mget(a@, pv(rel)))
            && (mget(a@, pv(rel)) is None && mget(b@, pv(rel)) is Some ==> mget(final(common)@, pv(rel)) == mget(b@, pv(rel))),
        Action::Conflict(ConflictKind::BothChanged) => (mget(a@, pv(rel)) is Some && mget(b@, pv(rel)) is Some) ==>
            mget(final(common)@, ln_of(a@, b@, pv(rel), host@)) == Some(loser_of(a@, b@, pv(rel)))
            && mget(final(common)@, pv(rel)) == Some(if a_wins(a@, b@, pv(rel)) { mget(a@, pv(rel))->Some_0 } else { mget(b@, pv(rel))->Some_0 }),
    }),
    // and nothing else in the record changes
    forall|p: PathV| p != pv(rel) && !(act == Action::Conflict(ConflictKind::BothChanged) && p == ln_of(a@, b@, pv(rel), host@))
        ==> #[trigger] mget(final(common)@, p) == mget(old(common)@, p),
    // the recorded common state only ever gains the path itself (from a side that has it) or the conflict-copy name (C06 / H6)
    forall|p: PathV| (#[trigger] mget(final(common)@, p)) is Some ==> mget(old(common)@, p) is Some
        || (p == pv(rel) && (mget(a@, pv(rel)) is Some || mget(b@, pv(rel)) is Some))
        || (act == Action::Conflict(ConflictKind::BothChanged) && mget(a@, pv(rel)) is Some && mget(b@, pv(rel)) is Some
            && p == ln_of(a@, b@, pv(rel), host@)),
//@replace? /std::fs::remove_file\((&?\w+)\)/ => vfs_remove_file(\1, Tracked(w)) #all
//@replace /copy_atomic\(&pa, &pb\)/ => copy_atomic(&pa, &pb, Tracked(w)) #all
//@replace /copy_atomic\(&pb, &pa\)/ => copy_atomic(&pb, &pa, Tracked(w)) #all
//@replace /copy_atomic\(&lose_full, &lose_root\.join\(&loser_name\)\)/ => copy_atomic(&lose_full, &lose_root.join(&loser_name), Tracked(w))
//@replace /copy_atomic\(&lose_full, &win_root\.join\(&loser_name\)\)/ => copy_atomic(&lose_full, &win_root.join(&loser_name), Tracked(w))
//@replace /copy_atomic\(&win_full, &lose_full\)/ => copy_atomic(&win_full, &lose_full, Tracked(w))
//@replace? /fa\.blake3 >= fb\.blake3/ => hash_ge(&fa.blake3, &fb.blake3)
//@replace? /fa\.blake3 > fb\.blake3/ => hash_gt(&fa.blake3, &fb.blake3)
//@replace? /fa\.blake3 <= fb\.blake3/ => hash_le(&fa.blake3, &fb.blake3)
//@replace? /fa\.blake3 < fb\.blake3/ => hash_lt(&fa.blake3, &fb.blake3)
//@replace /format!\("\.conflict-\{host\}-\{\}", short_hex\(&lose_fp\.blake3\)\)/ => vfmt_conflict(host, short_hex(&lose_fp.blake3))
//@at entry
    broadcast use asp_path, asp_pathbuf, asp_pathbuf_val, asp_str, asp_string, ax_pathbuf_keys, ax_contains_borrowed, ax_maps_borrowed, ax_removed_borrowed, lemma_join_suffix;
    proof { lemma_tmp_nonempty(); }
    let ghost w0 = *w;
    let ghost c00 = common@;
//@at after /copy_atomic\(&pa, &pb\)\?;/ #all
            proof {
                assert(pbv(&pa) == joinv(pv(root_a), pv(rel)) && pbv(&pb) == joinv(pv(root_b), pv(rel)));
                assert(pbv(&pa) != pbv(&pb));
                assert(!set![pbv(&pb)].contains(pbv(&pa)));
                assert(!is_staging(pbv(&pa)) ==> w.files.dom().contains(pbv(&pa)) == w0.files.dom().contains(pbv(&pa)));
            }
//@at after /copy_atomic\(&pb, &pa\)\?;/ #all
            proof {
                assert(pbv(&pa) == joinv(pv(root_a), pv(rel)) && pbv(&pb) == joinv(pv(root_b), pv(rel)));
                assert(pbv(&pa) != pbv(&pb));
                assert(!set![pbv(&pa)].contains(pbv(&pb)));
                assert(!is_staging(pbv(&pb)) ==> w.files.dom().contains(pbv(&pb)) == w0.files.dom().contains(pbv(&pb)));
            }
//@at before /let win_full = win_root\.join\(rel\);/
            let ghost lnv = pbv(&loser_name);
            let ghost mut w1 = *w; let ghost mut w2 = *w; let ghost mut w3 = *w;
//@at before /copy_atomic\(&lose_full, &lose_root\.join\(&loser_name\)\)/
            proof { w1 = *w; w2 = *w; w3 = *w; }
            proof {
                assert(lnv == ln_of(a@, b@, pv(rel), host@));
                assert(lnv.len() > pv(rel).len());
                lemma_join_inj(pv(lose_root), lnv, pv(rel));
                lemma_join_inj(pv(win_root), lnv, pv(rel));
                assert(joinv(pv(lose_root), lnv) != joinv(pv(lose_root), pv(rel)));
                assert(joinv(pv(win_root), lnv) != joinv(pv(win_root), pv(rel)));
                assert(joinv(pv(lose_root), lnv) != joinv(pv(win_root), pv(rel)));
                assert(joinv(pv(win_root), lnv) != joinv(pv(lose_root), pv(rel)));
                assert(joinv(pv(lose_root), lnv) != joinv(pv(win_root), lnv));
                assert(joinv(pv(lose_root), lnv).len() < (joinv(pv(lose_root), lnv) + TMP()).len());
            }
//@at before /copy_atomic\(&lose_full, &win_root\.join\(&loser_name\)\)/
            proof { w2 = *w; w3 = *w; }
            proof {
                assert(!is_staging(pbv(&lose_full)) ==> w2.files.dom().contains(pbv(&lose_full)) == w1.files.dom().contains(pbv(&lose_full)));
            }
//@at before /copy_atomic\(&win_full, &lose_full\)/
            proof { w3 = *w; }
            proof {
                assert(!is_staging(pbv(&win_full)) ==> w3.files.dom().contains(pbv(&win_full)) == w2.files.dom().contains(pbv(&win_full)));
                assert(!is_staging(pbv(&win_full)) ==> w2.files.dom().contains(pbv(&win_full)) == w1.files.dom().contains(pbv(&win_full)));
                assert(!is_staging(joinv(pv(lose_root), lnv)) ==> w3.files.dom().contains(joinv(pv(lose_root), lnv)) == w2.files.dom().contains(joinv(pv(lose_root), lnv)));
            }
//@at before /common\.insert\(rel\.to_path_buf\(\), \*win_fp\);/
            proof {
                let w4 = *w;
                let d1 = joinv(pv(lose_root), lnv); let d2 = joinv(pv(win_root), lnv);
                let lf = pbv(&lose_full); let wf = pbv(&win_full);
                assert(lf == joinv(pv(lose_root), pv(rel)) && wf == joinv(pv(win_root), pv(rel)));
                assert(d1 != lf && d2 != lf && wf != lf && d1 != d2 && d1 != wf && d2 != wf);
                assert(w1 == w0);
                let fa_s = mget(a@, pv(rel))->Some_0; let fb_s = mget(b@, pv(rel))->Some_0;
                assert(mget(a@, pv(rel)) == Some(*fa) && mget(b@, pv(rel)) == Some(*fb));
                if lex_ge(fa_s.blake3@, fb_s.blake3@) {
                    assert(pv(win_root) == pv(root_a) && pv(lose_root) == pv(root_b) && *lose_fp == fb_s);
                } else {
                    assert(pv(win_root) == pv(root_b) && pv(lose_root) == pv(root_a) && *lose_fp == fa_s);
                }
                assert(lnv == ln_of(a@, b@, pv(rel), host@));
                assert(lex_ge(fa_s.blake3@, fb_s.blake3@) == a_wins(a@, b@, pv(rel)));
                if !is_staging(lf) && !is_staging(wf) {
                    assert(w1.files.contains_key(lf));
                    assert(w2.files.dom().contains(lf) == w1.files.dom().contains(lf));
                    assert(w2.files.contains_key(lf) && w2.files[lf].bytes == w1.files[lf].bytes);
                    assert(w2.files.dom().contains(wf) == w1.files.dom().contains(wf));
                    assert(w3.files.dom().contains(wf) == w2.files.dom().contains(wf));
                    assert(w3.files.contains_key(wf) && w3.files[wf].bytes == w1.files[wf].bytes);
                    assert(w4.files.contains_key(lf) && w4.files[lf].bytes == w1.files[wf].bytes);
                    assert(same_live(w4.files, w3.files, set![lf]));
                    assert(!set![lf].contains(wf));
                    assert(w4.files.dom().contains(wf) == w3.files.dom().contains(wf));
                    assert(w4.files.contains_key(wf) && w4.files[wf].bytes == w1.files[wf].bytes);
                    if !is_staging(d1) && !is_staging(d2) {
                        assert(w2.files.contains_key(d1) && w2.files[d1].bytes == w1.files[lf].bytes);
                        assert(w3.files.contains_key(d2) && w3.files[d2].bytes == w1.files[lf].bytes);
                        assert(!set![d2].contains(d1));
                        assert(w3.files.dom().contains(d1) == w2.files.dom().contains(d1));
                        assert(w3.files.contains_key(d1) && w3.files[d1].bytes == w1.files[lf].bytes);
                        assert(!set![lf].contains(d1) && !set![lf].contains(d2));
                        assert(w4.files.dom().contains(d1) == w3.files.dom().contains(d1));
                        assert(w4.files.dom().contains(d2) == w3.files.dom().contains(d2));
                        assert(w4.files.contains_key(d1) && w4.files[d1].bytes == w1.files[lf].bytes);
                        assert(w4.files.contains_key(d2) && w4.files[d2].bytes == w1.files[lf].bytes);
                    }
                    assert(conflict_done(w4.files, w0.files, a@, b@, pv(root_a), pv(root_b), pv(rel), host@));
                }
            }
//@at after /common\.insert\(rel\.to_path_buf\(\), \*win_fp\);/
            let ghost c5 = common@;
            proof { lemma_insert_view(c00, c5, pv(rel), *win_fp); }
//@at after /common\.insert\(loser_name, \*lose_fp\);/
            proof {
                lemma_insert_view(c5, common@, lnv, *lose_fp);
                assert(lnv != pv(rel));
                assert(*lose_fp == loser_of(a@, b@, pv(rel)));
            }
//@at before /common\.insert\(rel\.to_path_buf\(\), \*fp\);/ #all
                let ghost c0 = common@;
//@at after /common\.insert\(rel\.to_path_buf\(\), \*fp\);/ #all
                proof { lemma_insert_view(c0, common@, pv(rel), *fp); }
//@end

// ---- run_bisync ----
//@include table_spec.rs
pub struct VErr { _p: () }      // R11: Box<dyn std::error::Error> => opaque error channel
impl From<String> for VErr { #[verifier::external_body] fn from(e: String) -> Self { VErr { _p: () } } }
impl From<std::io::Error> for VErr { #[verifier::external_body] fn from(e: std::io::Error) -> Self { VErr { _p: () } } }

// the scan (meta.rs discover_local_fingerprints: directory walk + streaming BLAKE3) by contract (A): it reports, for every
// relative path, the fingerprint of the file there or its absence, and changes nothing
pub open spec fn scanned_all(w: World, root: PathV, m: Map<PathBuf, Fingerprint>) -> bool { forall|rel: PathV| #[trigger] scanned_at(w, root, m, rel) }
#[verifier::external_body]
pub fn discover_local_fingerprints(root: &Path, Tracked(w): Tracked<&World>) -> (r: std::result::Result<FpMap, VErr>)
    ensures r is Ok ==> scanned_all(*w, pv(root), r->Ok_0@)
{ unimplemented!() }
pub uninterp spec fn pair_id(ra: PathV, rb: PathV) -> Seq<char>;
pub uninterp spec fn archive_pathv(pair: Seq<char>) -> PathV;        // ~/.copia/archive/<pair>.json
#[verifier::external_body]
pub fn root_pair_hash(a: &Path, b: &Path) -> (r: String) ensures r@ == pair_id(pv(a), pv(b)) { unimplemented!() }
#[verifier::external_body]
pub fn archive_path(pair_hash: &str) -> (r: PathBuf) ensures pbv(&r) == archive_pathv(pair_hash@) { unimplemented!() }
#[verifier::external_body]
fn host_id() -> (r: String) { unimplemented!() }
// whole-tree reconcile: PROVED in unit `reconcile` (same table text, included from lib/table_spec.rs); restated here over
// byte views of the keys (getv(m, p) == mget(m, pbv(&p)) because PathBuf equality is equality of the byte view)
#[verifier::external_body]
pub fn reconcile(a: &FpMap, b: &FpMap, base: &FpMap, trust_base: bool) -> (out: Vec<(PathBuf, Action)>)
    ensures
        forall|i: int| 0 <= i < out@.len() ==> ({
            let (p, act) = #[trigger] out@[i];
            &&& (mget(a@, pbv(&p)) is Some || mget(b@, pbv(&p)) is Some)
            &&& act == table(mget(a@, pbv(&p)), mget(b@, pbv(&p)), if trust_base { mget(base@, pbv(&p)) } else { None })
            &&& act != Action::Noop
        }),
        forall|i: int, j: int| #![trigger out@[i], out@[j]] 0 <= i < j < out@.len() ==> out@[i].0 != out@[j].0,
{ unimplemented!() }
// R5 shims for closure-taking std calls in run_bisync
#[verifier::external_body]
pub fn base_of(loaded: &Option<Archive>) -> (r: FpMap)     // loaded.as_ref().map_or_else(FpMap::new, |z| z.entries.clone())
    ensures loaded is Some ==> r@ == loaded->Some_0.entries@, loaded is None ==> r@ == Map::<PathBuf, Fingerprint>::empty()
{ unimplemented!() }
#[verifier::external_body]
pub fn arc_or_fresh(loaded: Option<Archive>, pair: &String, host: &String) -> (r: Archive)   // loaded.unwrap_or_else(|| Archive::fresh(pair.clone(), host.clone()))
    ensures loaded is Some ==> r == loaded->Some_0, loaded is None ==> r.format_version == 1 && r.root_pair_hash@ == pair@ && r.epoch == 0,
{ unimplemented!() }
#[verifier::external_body]
pub fn count_conflicts(plan: &Vec<(PathBuf, Action)>) -> (r: usize) { unimplemented!() }     // diagnostics only
#[verifier::external_body]
pub fn string_into_verr(s: String) -> (r: VErr) { unimplemented!() }

// is the file at the archive path a record this pair may trust? (C07)
pub open spec fn trusted_archive(w: World, apath: PathV, pair: Seq<char>) -> bool {
    w.files.contains_key(apath) && parse_archive(w.files[apath].bytes) is Some
        && parse_archive(w.files[apath].bytes)->Some_0.format_version == 1
        && parse_archive(w.files[apath].bytes)->Some_0.root_pair_hash@ == pair
}
pub open spec fn archive_names(apath: PathV) -> Set<PathV> { set![apath, apath + ATMP(), apath + BAK()] }
// a conflict-copy name created by some BothChanged entry of the plan
pub open spec fn is_conflict_name(plan: Seq<(PathBuf, Action)>, upto: int, am: Map<PathBuf, Fingerprint>, bm: Map<PathBuf, Fingerprint>, host: Seq<char>, p: PathV) -> bool {
    exists|j: int| 0 <= j < upto && (#[trigger] plan[j]).1 == Action::Conflict(ConflictKind::BothChanged) && p == ln_of(am, bm, pbv(&plan[j].0), host)
}
pub open spec fn conflict_shaped(p: PathV) -> bool { exists|rel: PathV, host: Seq<char>, f: Fingerprint| p == #[trigger] conflict_name(rel, host, f) }
pub open spec fn on_a_side(w0: World, ra: PathV, rb: PathV, p: PathV) -> bool { w0.files.contains_key(joinv(ra, p)) || w0.files.contains_key(joinv(rb, p)) }
// C06 / H6: a record names only paths that exist on a side when the run starts, or conflict-copy names
pub open spec fn record_ok(w0: World, ra: PathV, rb: PathV, entries: Map<PathBuf, Fingerprint>) -> bool {
    forall|p: PathV| (#[trigger] mget(entries, p)) is Some ==> on_a_side(w0, ra, rb, p) || conflict_shaped(p)
}
pub proof fn lemma_untrusted_never_deletes(a: Option<Fingerprint>, b: Option<Fingerprint>)
    ensures table(a, b, None) != Action::DeleteA, table(a, b, None) != Action::DeleteB
{ }

//@extract file=src/bin/copia/bidir.rs fn=run_bisync
//@sig /Box<dyn std::error::Error>/ => VErr
//@ret res
//@param+
    Tracked(w): Tracked<&mut World>
//@requires
    roots_disjoint(pv(root_a), pv(root_b)),
    // the archive lives outside both trees and is not itself a staging name
    forall|x: PathV| !archive_names(archive_pathv(pair_id(pv(root_a), pv(root_b)))).contains(#[trigger] joinv(pv(root_a), x)),
    forall|x: PathV| !archive_names(archive_pathv(pair_id(pv(root_a), pv(root_b)))).contains(#[trigger] joinv(pv(root_b), x)),
    !is_staging(archive_pathv(pair_id(pv(root_a), pv(root_b)))),
    // domain (listed): the epoch counter of a trusted archive is below u64::MAX
    trusted_archive(*old(w), archive_pathv(pair_id(pv(root_a), pv(root_b))), pair_id(pv(root_a), pv(root_b)))
        ==> parse_archive(old(w).files[archive_pathv(pair_id(pv(root_a), pv(root_b)))].bytes)->Some_0.epoch < u64::MAX,
//@ensures
    final(w).reliable == old(w).reliable, log_extends(final(w).log, old(w).log),
    // C15: a dry run changes nothing at all
    opts.dry_run ==> final(w).files == old(w).files && final(w).log == old(w).log,
    // C07: without a trusted archive for THIS pair at the archive path, nothing is ever unlinked
    !trusted_archive(*old(w), archive_pathv(pair_id(pv(root_a), pv(root_b))), pair_id(pv(root_a), pv(root_b)))
        ==> no_unlink_since(final(w).log, old(w).log.len() as int),
    // C08: the record never runs ahead of the data: once the archive has been renamed into place, no further
    // rename into either tree happens (and data renames only publish flushed files: vfs_rename's precondition)
    forall|i: int, j: int| old(w).log.len() <= i < j < final(w).log.len()
        && (#[trigger] final(w).log[i]) is Rename && final(w).log[i]->Rename_1 == archive_pathv(pair_id(pv(root_a), pv(root_b)))
        && (#[trigger] final(w).log[j]) is Rename
        ==> !(under(pv(root_a), final(w).log[j]->Rename_1) || under(pv(root_b), final(w).log[j]->Rename_1)),
    // ... and the live record changes only by rename: whatever happens it is the old bytes, absent, or a complete new record
    // C06 / H6: the new record names only paths that exist on a side (as scanned) or conflict-copies made by this run
    (!opts.dry_run && final(w).files.contains_key(archive_pathv(pair_id(pv(root_a), pv(root_b))))
        && (old(w).files.contains_key(archive_pathv(pair_id(pv(root_a), pv(root_b)))) ==>
            final(w).files[archive_pathv(pair_id(pv(root_a), pv(root_b)))].bytes != old(w).files[archive_pathv(pair_id(pv(root_a), pv(root_b)))].bytes))
        ==> parse_archive(final(w).files[archive_pathv(pair_id(pv(root_a), pv(root_b)))].bytes) is Some
            && record_ok(*old(w), pv(root_a), pv(root_b), parse_archive(final(w).files[archive_pathv(pair_id(pv(root_a), pv(root_b)))].bytes)->Some_0.entries@),
//@replace /discover_local_fingerprints\(root_a\)/ => discover_local_fingerprints(root_a, Tracked(&*w))
//@replace /discover_local_fingerprints\(root_b\)/ => discover_local_fingerprints(root_b, Tracked(&*w))
//@replace /Archive::load\(&apath, &pair\)/ => Archive::load(&apath, &pair, Tracked(&*w))
//@replace /(?s)loaded\s*\.as_ref\(\)\s*\.map_or_else\(FpMap::new, \|z\| z\.entries\.clone\(\)\)/ => base_of(&loaded)
//@replace /(?s)plan\s*\.iter\(\)\s*\.filter\(\|\(_, act\)\| matches!\(act, Action::Conflict\(_\)\)\)\s*\.count\(\)/ => count_conflicts(&plan)
//@replace /loaded\.unwrap_or_else\(\|\| Archive::fresh\(pair\.clone\(\), host\.clone\(\)\)\)/ => arc_or_fresh(loaded, &pair, &host)
//@replace /arc\.save\(&apath\)/ => arc.save(&apath, Tracked(w))
//@replace /(?s)apply\(\s*root_a,\s*root_b,\s*path,\s*\*act,\s*&a,\s*&b,\s*&host,\s*&mut common,\s*&mut conflict_paths,\s*\)/ => apply(root_a, root_b, path, *act, &a, &b, &host, &mut common, &mut conflict_paths, Tracked(w))
//@replace /(?s)Err\(format!\(\s*"\{\} path\(s\) had conflicts \(both versions preserved\)",\s*conflict_paths\.len\(\)\s*\)\s*\.into\(\)\)/ => Err(string_into_verr(vfmt()))
//@at entry
    broadcast use asp_path, asp_pathbuf, asp_pathbuf_val, asp_str, asp_string, ax_pathbuf_keys, ax_contains_borrowed, ax_maps_borrowed, ax_removed_borrowed;
    let ghost w0 = *w;
    let ghost apv = archive_pathv(pair_id(pv(root_a), pv(root_b)));
    let ghost prv = pair_id(pv(root_a), pv(root_b));
    proof { lemma_archive_names(apv); }
//@loop /in &plan/ invariant
            *w == w0, w0 == *old(w),
//@at before /let host = host_id\(\);/
    proof {
        assert(pbv(&apath) == apv && pair@ == prv);
        assert(loaded is Some ==> trusted_archive(w0, apv, prv));
        assert forall|i: int| 0 <= i < plan@.len() && !trust_base implies (#[trigger] plan@[i]).1 != Action::DeleteA && plan@[i].1 != Action::DeleteB by {
            lemma_untrusted_never_deletes(mget(a@, pbv(&plan@[i].0)), mget(b@, pbv(&plan@[i].0)));
        }
    }
//@replace? /let mut common = FpMap::new\(\);/ => let mut common = fpmap_new();
//@replace? /for \(p, fp\) in &base(?= \{)/ => for (p, fp) in bit: base.iter()
//@loop? /in &base/ invariant
            w0 == *old(w), *w == w0, scanned_all(w0, pv(root_a), a@), scanned_all(w0, pv(root_b), b@),
            record_ok(w0, pv(root_a), pv(root_b), common@),
//@at? loop /in &base/ entry
        broadcast use asp_path, asp_pathbuf, asp_pathbuf_val, asp_str, asp_string, ax_pathbuf_keys, ax_contains_borrowed, ax_maps_borrowed, ax_contains_borrowed_pb, ax_maps_borrowed_pb;
        let ghost cb = common@;
//@at? loop /in &base/ end
        proof {
            assert forall|q: PathV| (#[trigger] mget(common@, q)) is Some implies on_a_side(w0, pv(root_a), pv(root_b), q) || conflict_shaped(q) by {
                if common@ != cb {
                    lemma_insert_view(cb, common@, pbv(p), *fp);
                    if q == pbv(p) {
                        assert(scanned_at(w0, pv(root_a), a@, q) && scanned_at(w0, pv(root_b), b@, q));
                    }
                }
            }
        }
//@loop /for \(path, act\) in &plan/ iter it
//@loop /for \(path, act\) in &plan/ invariant
            it.seq().len() == plan@.len(), forall|i: int| 0 <= i < it.seq().len() ==> *(#[trigger] it.seq()[i]) == plan@[i],
            w0 == *old(w), !opts.dry_run, (loaded is Some) == trust_base, loaded is Some ==> trusted_archive(w0, apv, pair_id(pv(root_a), pv(root_b))),
            w.reliable == w0.reliable, log_extends(w.log, w0.log),
            roots_disjoint(pv(root_a), pv(root_b)),
            apv == archive_pathv(pair_id(pv(root_a), pv(root_b))), !is_staging(apv),
            forall|x: PathV| !archive_names(apv).contains(#[trigger] joinv(pv(root_a), x)),
            forall|x: PathV| !archive_names(apv).contains(#[trigger] joinv(pv(root_b), x)),
            scanned_all(w0, pv(root_a), a@), scanned_all(w0, pv(root_b), b@),
            forall|i: int| 0 <= i < plan@.len() && !trust_base ==> (#[trigger] plan@[i]).1 != Action::DeleteA && plan@[i].1 != Action::DeleteB,
            forall|i: int| 0 <= i < plan@.len() ==> mget(a@, pbv(&(#[trigger] plan@[i]).0)) is Some || mget(b@, pbv(&plan@[i].0)) is Some,
            // C07: an unlink only ever happens under a trusted base
            forall|i: int| w0.log.len() <= i < w.log.len() && (#[trigger] w.log[i]) is Unlink ==> trust_base,
            // C08: every rename so far landed inside a tree
            forall|i: int| w0.log.len() <= i < w.log.len() && (#[trigger] w.log[i]) is Rename ==> under(pv(root_a), w.log[i]->Rename_1) || under(pv(root_b), w.log[i]->Rename_1),
            // the archive file is untouched while data is applied
            w.files.dom().contains(apv) == w0.files.dom().contains(apv), w.files.dom().contains(apv) ==> w.files[apv].bytes == w0.files[apv].bytes,
            // C06 / H6: the record-to-be names only paths present on a side or conflict-copies made so far
            record_ok(w0, pv(root_a), pv(root_b), common@),
            host@ == host_g,
//@at loop /for \(path, act\) in &plan/ entry
        broadcast use asp_path, asp_pathbuf, asp_pathbuf_val, asp_str, asp_string, ax_pathbuf_keys, ax_contains_borrowed, ax_maps_borrowed, ax_removed_borrowed;
        let ghost k = it.index() as int;
        let ghost wk = *w;
        let ghost ck = common@;
        proof { assert(*path == plan@[k].0 && *act == plan@[k].1); assert(pbv(path) == pbv(&plan@[k].0)); }
        // C02 side condition (H7): the conflict-copy names a divergent edit is about to write are free, or already hold
        // the very bytes being preserved. Nothing in run_bisync establishes this.
        proof { assert(conflict_names_free(*w, a@, b@, pv(root_a), pv(root_b), pbv(path), *act, host@)); }
        proof { assert(conflict_name_not_planned(plan@, a@, b@, pbv(path), *act, host@)); }
//@at loop /for \(path, act\) in &plan/ end
        proof {
            let relv = pbv(&plan@[k].0);
            let lnk = ln_of(a@, b@, relv, host@);
            // the archive path is none of the paths this action may touch, and is not a staging name
            assert(!touched(plan@[k].1, pv(root_a), pv(root_b), relv, lnk).contains(apv)) by {
                assert(archive_names(apv).contains(apv));
                assert(!archive_names(apv).contains(joinv(pv(root_a), relv)) && !archive_names(apv).contains(joinv(pv(root_b), relv)));
                assert(!archive_names(apv).contains(joinv(pv(root_a), lnk)) && !archive_names(apv).contains(joinv(pv(root_b), lnk)));
            }
            assert(w.files.dom().contains(apv) == wk.files.dom().contains(apv));
            assert forall|p: PathV| (#[trigger] mget(common@, p)) is Some implies on_a_side(w0, pv(root_a), pv(root_b), p) || conflict_shaped(p) by {
                if mget(ck, p) is Some {
                } else if p == relv {
                    assert(scanned_at(w0, pv(root_a), a@, relv) && scanned_at(w0, pv(root_b), b@, relv));
                } else {
                    assert(plan@[k].1 == Action::Conflict(ConflictKind::BothChanged) && p == lnk);
                    assert(p == conflict_name(relv, host@, loser_of(a@, b@, relv)));
                }
            }
        }
//@at after loop /for \(path, act\) in &plan/
    let ghost w_data = *w;
//@at before /arc\.save\(&apath\)\?;/
    proof {
        assert(arc.entries@ == common@);
        assert(record_ok(w0, pv(root_a), pv(root_b), arc.entries@));
        assert(w.files.dom().contains(apv) == w0.files.dom().contains(apv));
        assert(w.files.dom().contains(apv) ==> w.files[apv].bytes == w0.files[apv].bytes);
        assert(pbv(&apath) == apv);
    }
//@at after /arc\.save\(&apath\)\?;/
    proof {
        assert(w.files.contains_key(apv));
        assert(parse_archive(w.files[apv].bytes) == Some(arc));
        assert(record_ok(w0, pv(root_a), pv(root_b), parse_archive(w.files[apv].bytes)->Some_0.entries@));
    }
//@at after /let host = host_id\(\);/
    let ghost host_g = host@;
//@loop /in &conflict_paths/ invariant
            *w == w_save,
//@at before /if opts\.verbose && !conflict_paths\.is_empty\(\)/
    let ghost w_save = *w;
//@at end
    proof {
        let n = w.log;
        assert forall|i: int, j: int| w0.log.len() <= i < j < n.len() && (#[trigger] n[i]) is Rename && n[i]->Rename_1 == apv && (#[trigger] n[j]) is Rename
            implies !(under(pv(root_a), n[j]->Rename_1) || under(pv(root_b), n[j]->Rename_1)) by {
            // a rename onto the archive can only be one of save's effects, and so is everything after it
            if i < w_data.log.len() {
                assert(w_data.log[i] == n[i]);
                assert(under(pv(root_a), apv) || under(pv(root_b), apv));
                assert(archive_names(apv).contains(apv));
                assert(false);
            }
            assert(archive_effect(n[j], apv));
            assert(archive_names(apv).contains(apv) && archive_names(apv).contains(apv + BAK()));
        }
    }
//@end
