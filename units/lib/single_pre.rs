// ---- block-size validity (same text as the cli unit) ----
pub open spec fn is_pow2(n: int) -> bool { exists|k: nat| n == vstd::arithmetic::power2::pow2(k) }
pub assume_specification [usize::is_power_of_two] (x: usize) -> (r: bool) ensures r == is_pow2(x as int);
pub open spec fn valid_bs(n: usize) -> bool { is_pow2(n as int) && 512 <= n <= 65536 }
