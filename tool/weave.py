"""Weaver: turns a unit template (Verus prelude + contract overlay) into a single
Verus file in which every function under contract is the text currently in
/repo, copied byte for byte except for the logged, purely syntactic rewrite
rules of DESIGN.md §2.1.

Template directives (lines starting with `//@`):

  //@include REL/PATH                      inline another template
  //@item file=F kind=struct|enum|const|type name=N [impl="hdr"] [keep_attrs]
  //@extract file=F fn=N [impl="hdr"] [nth=K]
      //@name NEW                          rename the emitted fn
      //@ret NAME                          `-> T`  =>  `-> (NAME: T)`
      //@param+                            (raw lines) appended to the parameter list (ghost params, R7)
      //@sig /RE/ => REPL                  edit inside the signature (logged)
      //@attr                              (raw lines) emitted before the fn
      //@requires | //@ensures | //@decreases        (raw lines)
      //@loop K invariant|decreases|ensures|invariant_except_break   (raw lines)
      //@loop K iter NAME                  `for x in E` => `for x in NAME: E`   (R8)
      //@at entry|end|loop K entry|loop K end|after loop K|before /RE/ [#k]|after /RE/ [#k]   (raw lines)
      //@replace /RE/ => REPL [#all]       site shim / ghost threading inside the body (R5/R7, logged)
      //@norule R1|R2|R3|R0
  //@end

Anything that cannot be located raises Lost (=> UNDECIDED, never VIOLATION).
"""
import hashlib
import os
import re

import rustlex as rl


class Lost(Exception):
    """an anchor / function / pattern the overlay needs is not in the repo text any more"""


DROP_STMT_MACROS = {"println", "eprintln", "print", "eprint", "info", "debug", "warn", "trace", "error",
                    "debug_span", "info_span", "trace_span"}


def _sha(s):
    return hashlib.sha256(s.encode()).hexdigest()[:16]


class Piece:
    __slots__ = ("text", "origin")

    def __init__(self, text, origin):
        self.text, self.origin = text, origin


class Unit:
    def __init__(self):
        self.pieces = []
        self.log = []          # extraction log entries (dicts)
        self.functions = []    # dict(name, file, impl, fn, out_start_line, out_end_line, repo_line)
        self.text = ""
        self.line_origin = []  # per output line (1-based index-1): dict(kind, file, line)

    def emit(self, text, origin):
        if text:
            self.pieces.append(Piece(text, origin))

    def finish(self, file_text_cache):
        self.text = "".join(p.text for p in self.pieces)
        # per-line origin: origin of first non-ws char on the line
        origins = []
        off_lines = {}
        line_first = None
        for p in self.pieces:
            off = 0
            for ch in p.text:
                if ch == "\n":
                    origins.append(line_first)
                    line_first = None
                elif line_first is None and not ch.isspace():
                    line_first = (p.origin, off)
                    if p.origin[0] == "tmpl":
                        lead = p.origin[3] or 0
                        off_lines[id(line_first)] = max(0, p.text.count("\n", 0, off) - lead)
                off += 1
        origins.append(line_first)
        out = []
        for o in origins:
            if o is None:
                out.append(None)
                continue
            (kind, f, pos, tag), off = o
            if kind == "repo":
                src = file_text_cache[f]
                out.append(dict(kind="repo", file=f.replace("@R6", " (after R6 inlining)"), line=src.count("\n", 0, pos + off) + 1))
            elif kind == "edit":
                src = file_text_cache[f]
                out.append(dict(kind="edit", file=f.replace("@R6", " (after R6 inlining)"), line=src.count("\n", 0, pos) + 1, rule=tag))
            else:
                out.append(dict(kind="tmpl", file=f, line=pos + off_lines.get(id(o), 0)))
        self.line_origin = out


def _split_top(s):
    """split at top-level commas (parens/brackets/braces/angle-free heuristic)"""
    out, depth, cur = [], 0, ""
    for ch in s:
        if ch in "([{<":
            depth += 1
        elif ch in ")]}>":
            depth -= 1
        if ch == "," and depth == 0:
            out.append(cur)
            cur = ""
        else:
            cur += ch
    if cur.strip():
        out.append(cur)
    return out


def _parse_kv(s):
    out = {}
    for m in re.finditer(r'(\w+)=("([^"]*)"|\S+)', s):
        out[m.group(1)] = m.group(3) if m.group(3) is not None else m.group(2)
    for flag in re.sub(r'(\w+)=("([^"]*)"|\S+)', "", s).split():
        out[flag] = True
    return out


def _parse_re_arrow(s):
    # /RE/ => REPL [#all]
    m = re.match(r"\s*/(.*)/\s*=>\s?(.*)$", s)
    if not m:
        raise ValueError("bad replace directive: " + s)
    pat, repl = m.group(1), m.group(2)
    allf = False
    if repl.rstrip().endswith("#all"):
        allf = True
        repl = repl.rstrip()[:-4].rstrip()
    return pat, repl, allf


def _parse_re_k(s):
    m = re.match(r"\s*/(.*)/\s*(#(\d+|all))?\s*$", s)
    if not m:
        raise ValueError("bad anchor: " + s)
    return m.group(1), (-1 if m.group(3) == "all" else int(m.group(3) or 0))


def _loop_index(sel, loops, src, toks, f, fn):
    """loop selector: ordinal, or /regex/ matched against the loop header text (first match)"""
    if re.fullmatch(r"\d+", sel):
        n = int(sel)
        if n >= len(loops):
            raise Lost("%s::%s: loop %d not found (function has %d loops)" % (f, fn, n, len(loops)))
        return n
    m = re.fullmatch(r"(~?)/(.*)/", sel)
    if not m:
        raise ValueError("bad loop selector " + sel)
    for i, lp in enumerate(loops):
        # /RE/ is matched against the loop header, ~/RE/ against the whole loop text (header and body)
        hdr = src[toks[lp["kw_tok"]].start:(toks[lp["body_close"]].end if m.group(1) else toks[lp["body_open"]].start)]
        if re.search(m.group(2), hdr):
            return i
    raise Lost("%s::%s: no loop matches %s" % (f, fn, sel))


def _split_loop_sel(words):
    """['loop', SEL..., what, ...] where SEL may contain spaces if it is a /regex/ -> (sel, rest)"""
    if words[1].startswith("/") or words[1].startswith("~/"):
        j = 1
        while not (words[j].endswith("/") and (j > 1 or len(words[j].lstrip("~")) > 1)):
            j += 1
        return " ".join(words[1:j + 1]), words[j + 1:]
    return words[1], words[2:]


class Weaver:
    def __init__(self, repo_root, vacuity=None):
        self.repo = repo_root
        self.cache = {}
        self.tokcache = {}
        self.vacuity = vacuity  # None | "entry"
        self.vmap = {}

    def src(self, f):
        if f not in self.cache:
            p = os.path.join(self.repo, f)
            if not os.path.exists(p):
                raise Lost("file %s not found" % f)
            self.cache[f] = open(p, encoding="utf-8").read()
            self.tokcache[f] = rl.tokenize(self.cache[f])
        return self.cache[f], self.tokcache[f]

    def weave(self, template_path):
        u = Unit()
        self._process(template_path, u)
        u.finish(self.cache)
        return u

    # ------------------------------------------------------------------
    def _process(self, path, u):
        lines = open(path, encoding="utf-8").read().split("\n")
        i = 0
        rel = os.path.relpath(path, os.path.dirname(os.path.dirname(os.path.abspath(__file__))))
        while i < len(lines):
            ln = lines[i]
            st = ln.strip()
            if st.startswith("//@include "):
                inc = os.path.join(os.path.dirname(path), st[len("//@include "):].strip())
                self._process(inc, u)
                i += 1
                continue
            if st.startswith("//@item "):
                self._item(_parse_kv(st[len("//@item "):]), u)
                i += 1
                continue
            if st.startswith("//@extract "):
                head = _parse_kv(st[len("//@extract "):])
                j = i + 1
                sections = []
                cur = None
                # `//@sections FILE` inlines the section lines of another file (shared contracts for twin engines)
                k2 = i + 1
                while k2 < len(lines) and lines[k2].strip() != "//@end":
                    if lines[k2].strip().startswith("//@sections "):
                        incp = os.path.join(os.path.dirname(path), lines[k2].strip()[len("//@sections "):].strip())
                        lines[k2:k2 + 1] = open(incp, encoding="utf-8").read().rstrip("\n").split("\n")
                        continue
                    k2 += 1
                while j < len(lines) and lines[j].strip() != "//@end":
                    s2 = lines[j].strip()
                    if s2.startswith("//@"):
                        cur = [s2[3:].strip(), [], j + 1]
                        sections.append(cur)
                    elif cur is not None:
                        cur[1].append(lines[j])
                    elif s2:
                        raise ValueError("%s:%d: raw line before any section" % (path, j + 1))
                    j += 1
                if j >= len(lines):
                    raise ValueError("%s:%d: //@extract without //@end" % (path, i + 1))
                self._extract(head, sections, u, rel)
                i = j + 1
                continue
            if st.startswith("//@"):
                raise ValueError("%s:%d: unknown directive %s" % (path, i + 1, st))
            u.emit(ln + "\n", ("tmpl", rel, i + 1, None))
            i += 1

    # ------------------------------------------------------------------
    def _item(self, kv, u):
        f = kv["file"]
        src, toks = self.src(f)
        try:
            s, e = rl.find_item(src, toks, kv["kind"], kv["name"], kv.get("impl"))
        except LookupError as ex:
            raise Lost("%s: %s" % (f, ex))
        text = src[s:e]
        # R0: of the item's own attributes only `derive(Clone, Copy)` is carried over (others are dropped)
        kept = []
        pre = src[:s]
        mm = re.search(r"((?:\s*(?:///[^\n]*\n|#\[[^\]]*\]\s*))+)\s*$", pre)
        if mm:
            for dm in re.finditer(r"#\[derive\(([^)]*)\)\]", mm.group(1)):
                for d in dm.group(1).split(","):
                    d = d.strip()
                    if d in ("Clone", "Copy", "PartialEq", "Eq") and d not in kept:
                        kept.append(d)
        derive_prefix = "#[derive(%s)]\n" % ", ".join(kept) if kept else ""
        if not kv.get("keep_attrs"):
            text = rl.strip_attrs_and_docs(text)
        if kv.get("nosuper"):
            text = re.sub(r"\bsuper::\w+::", "", text)
        if kv.get("nopub"):
            text = re.sub(r"^pub(\([a-z]+\))?\s+", "", text)
        u.log.append(dict(kind="item", file=f, item=kv["kind"] + " " + kv["name"], impl=kv.get("impl"),
                          repo_line=src.count("\n", 0, s) + 1, sha_repo=_sha(src[s:e]), sha_emitted=_sha(text),
                          edits=["R0 attributes/doc comments dropped"] if text != src[s:e] else []))
        u.emit(derive_prefix + text + "\n", ("edit", f, s, "R0") if (derive_prefix or text != src[s:e]) else ("repo", f, s, None))

    # ------------------------------------------------------------------
    def _extract(self, head, sections, u, tmpl_rel):
        f = head["file"]
        src, toks = self.src(f)
        try:
            it = rl.find_fn(src, toks, head["fn"], head.get("impl"), int(head.get("nth", 0)))
        except LookupError as ex:
            raise Lost("%s: %s" % (f, ex))
        edits = []   # (start, end, text, tag, prio)
        elog = []
        # R6 (helper inlining): `HELPER(ARGS.., || BODY)?` is beta-reduced with the helper's CURRENT body from the repo
        real_f = f
        for (hd, body, lno) in sections:
            if hd.split()[0] == "inline":
                f, src, toks, it = self._inline(real_f, f, src, toks, it, head, hd.split()[1], elog)
        norules = set()

        def T(i):
            return toks[i]

        def add(s, e, text, tag, prio=50, origin=None):
            edits.append((s, e, prio, len(edits), text, tag, origin))

        body_lo, body_hi = it.body_open, it.body_close
        loops = rl.find_loops(toks, body_lo + 1, body_hi)
        fn_text = src[it.start:it.end]

        def tmpl_origin(line, lead=0):
            return ("tmpl", tmpl_rel, line + 1, lead)

        def raw(lines):
            return "\n".join(lines) + "\n" if lines else ""

        # collect sections
        req, ens, dec, attr = [], [], [], []
        ret_name = None
        new_name = None
        param_plus = []
        twins = []
        loop_hdr = set()
        sig_pats = []
        for (hd, body, lno) in sections:
            w = hd.split()
            if not w:
                continue
            k = w[0]
            if k == "norule":
                norules.add(w[1])
        for (hd, body, lno) in sections:
            w = hd.split()
            k = w[0]
            optional = k.endswith("?") and k not in ("replace?",)
            if optional:
                k = k[:-1]
                w[0] = k
                hd = hd.replace(k + "?", k, 1)
                n_before = len(edits)
                try:
                    self._one_section(k, w, hd, body, lno, src, toks, it, loops, add, tmpl_origin, f, head, loop_hdr, raw, T)
                except Lost:
                    del edits[n_before:]
                continue
            if k == "norule":
                pass
            elif k == "ret":
                ret_name = w[1]
            elif k == "name":
                new_name = w[1]
            elif k == "param+":
                param_plus.append((body, lno))
            elif k == "attr":
                attr.append((body, lno))
            elif k == "requires":
                req.append((body, lno))
            elif k == "ensures":
                ens.append((body, lno))
            elif k == "decreases":
                dec.append((body, lno))
            elif k == "sig":
                pat, repl, allf = _parse_re_arrow(hd[3:])
                sig_s, sig_e = it.start, toks[it.body_open].start
                ms = list(re.finditer(pat, src[sig_s:sig_e]))
                if not ms:
                    raise Lost("%s::%s: signature pattern /%s/ not found" % (f, head["fn"], pat))
                sig_pats.append((pat, repl))
                for m in (ms if allf else ms[:1]):
                    add(sig_s + m.start(), sig_s + m.end(), m.expand(repl), "sig")
                    elog.append("sig: `%s` => `%s`" % (m.group(0), m.expand(repl)))
            elif k == "loop":
                sel, rest = _split_loop_sel(w)
                n = _loop_index(sel, loops, src, toks, f, head["fn"])
                lp = loops[n]
                what = rest[0]
                w = ["loop", str(n)] + rest
                if what == "iter":
                    # for PAT in EXPR {  => for PAT in NAME: EXPR {
                    if lp["kw"] != "for":
                        raise Lost("%s::%s: loop %d is not a for loop" % (f, head["fn"], n))
                    k2 = lp["kw_tok"] + 1
                    depth = 0
                    in_tok = None
                    while k2 < lp["body_open"]:
                        t = T(k2)
                        if t.kind == "punct" and t.text in rl.OPEN:
                            k2 = rl.match_close(toks, k2) + 1
                            continue
                        if t.kind == "ident" and t.text == "in":
                            in_tok = k2
                            break
                        k2 += 1
                    if in_tok is None:
                        raise Lost("for without in")
                    add(T(in_tok).end, T(in_tok).end, " " + w[3] + ":", "R8", origin=tmpl_origin(lno))
                    elog.append("R8: loop %d iterator named `%s` (ghost only)" % (n, w[3]))
                else:
                    pos = T(lp["body_open"]).start
                    prio = {"invariant_except_break": 10, "invariant": 12, "ensures": 14, "decreases": 16}[what]
                    if (n, what) not in loop_hdr:
                        loop_hdr.add((n, what))
                        add(pos, pos, "\n" + what + "\n", "contract", prio)
                    add(pos, pos, raw(body), "contract", prio + 1, origin=tmpl_origin(lno))
            elif k == "at":
                where = hd[2:].strip()
                self._anchor(where, body, lno, src, toks, it, loops, add, tmpl_origin, f, head["fn"])
            elif k == "inline":
                pass
            elif k == "twin":
                twins.append(_parse_re_arrow(hd[len("twin"):]))
            elif k in ("replace", "replace?"):
                pat, repl, allf = _parse_re_arrow(hd[len(k):])
                bs, be = T(body_lo).end, T(body_hi).start
                ms = list(re.finditer(pat, src[bs:be]))
                if not ms:
                    if k == "replace?":
                        continue
                    raise Lost("%s::%s: body pattern /%s/ not found" % (f, head["fn"], pat))
                for m in (ms if allf else ms[:1]):
                    add(bs + m.start(), bs + m.end(), m.expand(repl), "R5/R7")
                    elog.append("R5/R7 site: `%s` => `%s` (line %d)" % (
                        m.group(0), m.expand(repl), src.count("\n", 0, bs + m.start()) + 1))
            else:
                raise ValueError("unknown section //@%s" % hd)

        # signature edits -------------------------------------------------
        if new_name:
            add(T(it.name_tok).start, T(it.name_tok).end, new_name, "rename")
        for (body, lno) in param_plus:
            # before the closing paren; add a comma if the list does not end with one
            k2 = it.params_close - 1
            while T(k2).kind in ("ws", "comment"):
                k2 -= 1
            sep = "" if T(k2).text in (",", "(") else ", "
            add(T(it.params_close).start, T(it.params_close).start, sep + " ".join(x.strip() for x in body),
                "R7", origin=tmpl_origin(lno))
            elog.append("R7: ghost parameter appended: " + " ".join(x.strip() for x in body))
        if ret_name:
            if it.arrow is None:
                raise Lost("%s::%s has no return type any more" % (f, head["fn"]))
            ts = T(it.arrow + 1).end
            te = T(it.where).start if it.where is not None else T(it.body_open).start
            ty = src[ts:te].strip()
            for (pat, repl) in sig_pats:
                ty = re.sub(pat, repl, ty)
            # signature edits inside the return type are folded into the `ret` rewrite
            edits[:] = [e for e in edits if not (e[5] == "sig" and ts <= e[0] and e[1] <= te)]
            add(ts, te, " (" + ret_name + ": " + ty + ")\n", "ret")
        contract = ""
        pos = T(it.body_open).start
        if req:
            add(pos, pos, "\nrequires\n", "contract", 20)
            for (body, lno) in req:
                add(pos, pos, raw(body), "contract", 21, origin=tmpl_origin(lno))
        if ens or self.vacuity == "ensures":
            add(pos, pos, "\nensures\n", "contract", 22)
            for (body, lno) in ens:
                add(pos, pos, raw(body), "contract", 23, origin=tmpl_origin(lno))
        if dec:
            add(pos, pos, "\ndecreases\n", "contract", 24)
            for (body, lno) in dec:
                add(pos, pos, raw(body), "contract", 25, origin=tmpl_origin(lno))
        if self.vacuity == "entry":
            p2 = T(it.body_open).end
            add(p2, p2, " assert(false); ", "vacuity", 99)

        # automatic rules ---------------------------------------------------
        self._auto_rules(src, toks, it, loops, add, elog, norules, f, head["fn"], twins)

        # apply -----------------------------------------------------------------
        # an explicit site replacement (R5/R7) wins over automatic rules that fall inside its span
        explicit = [(e[0], e[1]) for e in edits if e[5] == "R5/R7" and e[0] < e[1]]
        edits = [e for e in edits if e[5] == "R5/R7" or e[0] == e[1] or not any(a <= e[0] and e[1] <= b for (a, b) in explicit)]
        # among explicit replacements, a statement-level one swallows the smaller ones strictly inside it (e.g. `.await` erasure)
        edits = [e for e in edits if not (e[5] == "R5/R7" and e[0] < e[1] and any((a <= e[0] and e[1] <= b) and (a, b) != (e[0], e[1]) for (a, b) in explicit))]
        # a zero-width insertion (hint) strictly inside a replaced span has lost its place
        for e in edits:
            if e[0] == e[1] and any(a < e[0] < b for (a, b) in explicit):
                raise Lost("%s::%s: a hint anchor lies inside a replaced statement (line %d)" % (f, head["fn"], src.count("\n", 0, e[0]) + 1))
        edits.sort(key=lambda e: (e[0], 0 if e[0] == e[1] else 1, e[2], e[3]))
        # overlap check
        last_end = it.start
        for (s, e, prio, _, text, tag, origin) in edits:
            if s < last_end and not (s == e and s == last_end):
                if s < last_end:
                    raise Lost("%s::%s: overlapping rewrites at line %d (%s)" % (
                        f, head["fn"], src.count("\n", 0, s) + 1, tag))
            last_end = max(last_end, e)
        start_piece = len(u.pieces)
        for (body, lno) in attr:
            u.emit(raw(body), tmpl_origin(lno))
        cur = it.start
        for (s, e, prio, _, text, tag, origin) in edits:
            if s > cur:
                u.emit(src[cur:s], ("repo", f, cur, None))
            if origin is not None:
                u.emit(text, origin)
            else:
                u.emit(text, ("edit", f, s, tag))
            cur = max(cur, e)
        u.emit(src[cur:it.end], ("repo", f, cur, None))
        u.emit("\n", ("tmpl", tmpl_rel, sections[0][2] if sections else 0, None))
        emitted = "".join(p.text for p in u.pieces[start_piece:])
        qual = ((head.get("impl") or "").split(" for ")[-1].strip() + "::" if head.get("impl") else "") + (new_name or head["fn"])
        u.log.append(dict(kind="fn", file=f, impl=head.get("impl"), fn=head["fn"], emitted_as=qual,
                          repo_line=src.count("\n", 0, it.start) + 1,
                          repo_end_line=src.count("\n", 0, it.end) + 1,
                          sha_repo=_sha(fn_text), sha_emitted=_sha(emitted), edits=elog,
                          loops=len(loops)))
        u.functions.append(dict(name=qual, file=f, fn=head["fn"], impl=head.get("impl"),
                                repo_line=src.count("\n", 0, it.start) + 1, piece_lo=start_piece,
                                piece_hi=len(u.pieces),
                                # loops of the CURRENT repo text the template gives no invariant for: a proof of this
                                # function cannot even be attempted (a failure is then `undecided`, not a violation)
                                # (a loop inside a statement range replaced by a summary call is not part of the woven text)
                                unannotated_loops=[n for n in range(len(loops)) if not any((n, w_) in loop_hdr for w_ in ("invariant", "invariant_except_break"))
                                                   and not any(a <= T(loops[n]["kw_tok"]).start < b for (a, b) in explicit)]))

    def _inline(self, real_f, f, src, toks, it, head, helper, elog):
        """returns (virtual file key, virtual src, toks, item) with every `helper(A.., || [-> T] { BODY })?` call in the
        function replaced by the helper's body, its closure parameter call `P()` replaced by `{ BODY }` and its final
        `Ok(x)` by `x` (the trailing `?` of the call is dropped with it)."""
        osrc, otoks = self.src(real_f)
        try:
            hit = rl.find_fn(osrc, otoks, helper, None)
        except LookupError as ex:
            raise Lost("%s: R6 helper %s" % (real_f, ex))
        hbody = osrc[otoks[hit.body_open].end:otoks[hit.body_close].start]
        # helper parameters
        ptxt = osrc[otoks[hit.params_open].end:otoks[hit.params_close].start]
        pnames = [x.split(":")[0].strip() for x in _split_top(ptxt)]
        if len(pnames) < 1:
            raise Lost("R6: helper %s has no parameters" % helper)
        fparam = pnames[-1]
        m_tail = re.search(r"Ok\(\s*(\w+)\s*\)\s*$", hbody.rstrip())
        if not m_tail or not re.search(r"\b%s\(\)" % re.escape(fparam), hbody):
            raise Lost("R6: helper %s no longer has the shape `.. %s() .. Ok(x)`" % (helper, fparam))
        fn_s, fn_e = it.start, it.end
        text = src[fn_s:fn_e]
        out = []
        pos = 0
        n = 0
        for m in re.finditer(r"\b%s\(" % re.escape(helper), text):
            # argument list by bracket matching on tokens of the function text
            ftoks = rl.tokenize(text)
            k = next(i for i, t in enumerate(ftoks) if t.start == m.end() - 1)
            c = rl.match_close(ftoks, k)
            args = rl.split_args(ftoks, k + 1, c)
            if len(args) != len(pnames):
                raise Lost("R6: call of %s has %d arguments, helper has %d parameters" % (helper, len(args), len(pnames)))
            atext = [text[ftoks[a].start:ftoks[b - 1].end].strip() for (a, b) in args]
            clo = atext[-1]
            mc = re.match(r"\|\|\s*(->\s*[^{]+)?\{", clo)
            if not mc:
                raise Lost("R6: last argument of %s is not a `|| { .. }` closure" % helper)
            cbody = clo[mc.end() - 1:]
            ctoks = rl.tokenize(cbody)
            if any((t.kind == "punct" and t.text == "?") or (t.kind == "ident" and t.text == "return") for t in ctoks):
                raise Lost("R6 side condition violated: the closure passed to %s contains `?` or `return` (beta-reduction would change where they exit to)" % helper)
            end = ftoks[c].end
            rest = text[end:]
            q = re.match(r"\s*\?", rest)
            if not q:
                raise Lost("R6: call of %s is not followed by `?`" % helper)
            inl = hbody.rstrip()
            inl = inl[:m_tail.start()] + m_tail.group(1)
            # parameters first (in the HELPER's text only), then the closure body - so an argument that happens to share
            # its name with a variable of the closure body is not substituted a second time
            for pn, at in zip(pnames[:-1], atext[:-1]):
                if pn != at:
                    rep = at if re.fullmatch(r"[\w.]+", at) else "(" + at + ")"
                    inl = re.sub(r"\b%s\b" % re.escape(pn), lambda _m, rep=rep: rep, inl)
            inl = re.sub(r"\b%s\(\)" % re.escape(fparam), lambda _m: cbody, inl)
            out.append(text[pos:m.start()])
            out.append("{" + inl + "\n}")
            pos = end + q.end()
            n += 1
        if n == 0:
            raise Lost("%s::%s: R6: no call of %s found" % (real_f, head["fn"], helper))
        out.append(text[pos:])
        vtext = src[:fn_s] + "".join(out) + src[fn_e:]
        vkey = real_f + "@R6"
        self.cache[vkey] = vtext
        self.tokcache[vkey] = rl.tokenize(vtext)
        self.vmap[vkey] = (real_f, osrc.count("\n", 0, hit.start) + 1)
        elog.append("R6: %d call(s) of `%s(.., || BODY)?` beta-reduced with the helper's current body (repo line %d); line numbers inside this function refer to the inlined text" % (n, helper, osrc.count("\n", 0, hit.start) + 1))
        try:
            it2 = rl.find_fn(vtext, self.tokcache[vkey], head["fn"], head.get("impl"), int(head.get("nth", 0)))
        except LookupError as ex:
            raise Lost("R6 result unparsable: %s" % ex)
        return vkey, vtext, self.tokcache[vkey], it2

    def _one_section(self, k, w, hd, body, lno, src, toks, it, loops, add, tmpl_origin, f, head, loop_hdr, raw, T):
        """optional (`?`) sections: only `loop ...` contracts and `at ...` hints may be optional"""
        if k == "loop":
            sel, rest = _split_loop_sel(w)
            n = _loop_index(sel, loops, src, toks, f, head["fn"])
            lp = loops[n]
            what = rest[0]
            if what == "iter":
                raise ValueError("optional `loop? .. iter` is not supported")
            pos = T(lp["body_open"]).start
            prio = {"invariant_except_break": 10, "invariant": 12, "ensures": 14, "decreases": 16}[what]
            if (n, what) not in loop_hdr:
                loop_hdr.add((n, what))
                add(pos, pos, "\n" + what + "\n", "contract", prio)
            add(pos, pos, raw(body), "contract", prio + 1, origin=tmpl_origin(lno))
        elif k == "at":
            self._anchor(hd[2:].strip(), body, lno, src, toks, it, loops, add, tmpl_origin, f, head["fn"])
        else:
            raise ValueError("only `loop?` and `at?` sections may be optional")

    # ------------------------------------------------------------------
    def _anchor(self, where, body, lno, src, toks, it, loops, add, tmpl_origin, f, fn):
        T = lambda i: toks[i]
        text = "\n" + "\n".join(body) + "\n"
        w = where.split()
        if where == "entry":
            p = T(it.body_open).end
            add(p, p, text, "hint", 30, origin=tmpl_origin(lno, 1))
        elif where == "end":
            # before the tail expression if the body ends with one, else before the closing brace
            p = self._tail_start(src, toks, it.body_open, it.body_close) if it.arrow is not None else T(it.body_close).start
            add(p, p, text, "hint", 70, origin=tmpl_origin(lno, 1))
        elif w[0] == "loop":
            sel, rest = _split_loop_sel(w)
            n = _loop_index(sel, loops, src, toks, f, fn)
            w = ["loop", str(n)] + rest
            lp = loops[n]
            if w[2] == "entry":
                p = T(lp["body_open"]).end
                add(p, p, text, "hint", 30, origin=tmpl_origin(lno, 1))
            elif w[2] == "end":
                p = T(lp["body_close"]).start
                add(p, p, text, "hint", 60, origin=tmpl_origin(lno, 1))
            else:
                raise ValueError("bad loop anchor " + where)
        elif w[0] == "after" and w[1] == "loop":
            sel, rest = _split_loop_sel(w[1:])
            n = _loop_index(sel, loops, src, toks, f, fn)
            p = T(loops[n]["body_close"]).end
            add(p, p, text, "hint", 30, origin=tmpl_origin(lno, 1))
        elif w[0] == "before-loop":
            sel, rest = _split_loop_sel(w)
            n = _loop_index(sel, loops, src, toks, f, fn)
            p = src.rfind("\n", 0, T(loops[n]["kw_tok"]).start) + 1
            add(p, p, "\n".join(body) + "\n", "hint", 30, origin=tmpl_origin(lno))
        elif w[0] in ("before", "after"):
            pat, k = _parse_re_k(where[len(w[0]):])
            bs, be = T(it.body_open).end, T(it.body_close).start
            ms = list(re.finditer(pat, src[bs:be]))
            if (k >= 0 and len(ms) <= k) or not ms:
                raise Lost("%s::%s: anchor /%s/ #%d not found" % (f, fn, pat, k))
            for m in (ms if k < 0 else [ms[k]]):
                if w[0] == "before":
                    p = src.rfind("\n", 0, bs + m.start()) + 1
                    add(p, p, "\n".join(body) + "\n", "hint", 40, origin=tmpl_origin(lno))
                else:
                    # after the end of the statement: the next `;` at depth 0 from the match, then end of line
                    p = bs + m.end() if src[bs + m.end() - 1] == ";" else self._stmt_end(src, toks, bs + m.end())
                    add(p, p, text, "hint", 40, origin=tmpl_origin(lno, 1))
        else:
            raise ValueError("bad anchor " + where)

    def _stmt_end(self, src, toks, off):
        # token index at/after off
        i = 0
        while i < len(toks) and toks[i].end <= off:
            i += 1
        while i < len(toks):
            t = toks[i]
            if t.kind == "punct" and t.text in rl.OPEN:
                i = rl.match_close(toks, i) + 1
                continue
            if t.kind == "punct" and t.text == ";":
                return t.end
            if t.kind == "punct" and t.text in rl.CLOSE:
                return t.start
            i += 1
        raise Lost("statement end not found")

    def _tail_start(self, src, toks, bo, bc):
        """offset where a hint 'at end' goes: before the tail expression of block bo..bc if it has one,
        else just before the closing brace."""
        # walk statements at depth 0
        i = bo + 1
        last_stmt_start = None
        stmt_start = None
        while i < bc:
            t = toks[i]
            if t.kind in ("ws", "comment"):
                i += 1
                continue
            if stmt_start is None:
                stmt_start = i
            if t.kind == "punct" and t.text in rl.OPEN:
                j = rl.match_close(toks, i)
                # block-like statement ends at `}` if it started with a block keyword
                first = toks[stmt_start]
                if t.text == "{" and first.kind == "ident" and first.text in ("if", "while", "for", "loop", "match", "unsafe") or (t.text == "{" and stmt_start == i):
                    # look ahead: else / method chain continues the expression
                    k = j + 1
                    while k < bc and toks[k].kind in ("ws", "comment"):
                        k += 1
                    if k < bc and (toks[k].kind == "ident" and toks[k].text == "else"):
                        i = j + 1
                        continue
                    if k < bc and toks[k].kind == "punct" and toks[k].text in ".?":
                        i = j + 1
                        continue
                    if k >= bc:
                        # block-like expression in tail position
                        return toks[stmt_start].start if first.text in ("if", "match") and self._is_value_tail(toks, stmt_start, bc) else toks[bc].start
                    stmt_start = None
                    i = j + 1
                    continue
                i = j + 1
                continue
            if t.kind == "punct" and t.text == ";":
                stmt_start = None
            i += 1
        if stmt_start is not None:
            return toks[stmt_start].start
        return toks[bc].start

    def _is_value_tail(self, toks, s, bc):
        return True

    # ------------------------------------------------------------------
    def _auto_rules(self, src, toks, it, loops, add, elog, norules, f, fn, twins=()):
        if "ALL" in norules:
            return      # plain extraction (Kani): the function text is emitted byte for byte
        T = lambda i: toks[i]
        lo, hi = it.body_open + 1, it.body_close
        line = lambda off: src.count("\n", 0, off) + 1
        # R0: attributes inside the body
        if "R0" not in norules:
            i = lo
            while i < hi:
                t = T(i)
                if t.kind == "punct" and t.text == "#" and T(i + 1).kind == "punct" and T(i + 1).text == "[":
                    c = rl.match_close(toks, i + 1)
                    atext = src[t.start:T(c).end]
                    if re.search(r'cfg\s*\(\s*feature\s*=\s*"tracing"\s*\)', atext):
                        # drop the attribute and the statement/block it guards
                        k = c + 1
                        while T(k).kind in ("ws", "comment"):
                            k += 1
                        if T(k).kind == "punct" and T(k).text == "{":
                            e = rl.match_close(toks, k)
                            end = T(e).end
                        else:
                            end = self._stmt_end(src, toks, T(k).start)
                        add(t.start, end, "", "R0")
                        elog.append("R0: tracing-only block dropped (line %d)" % line(t.start))
                        # skip
                        while i < hi and T(i).start < end:
                            i += 1
                        continue
                    add(t.start, T(c).end, "", "R0")
                    elog.append("R0: attribute `%s` dropped (line %d)" % (atext, line(t.start)))
                    i = c + 1
                    continue
                i += 1
        # R12: a by-value `mut self` receiver (not accepted by the verifier) => `self`, rebound at entry as a mutable local
        # `self_`; every `self` token of the body is renamed. Same moves, same assignments.
        if "R12" not in norules:
            k = it.start_tok if hasattr(it, "start_tok") else None
            sig_s, sig_e = it.start, T(it.body_open).start
            m = re.search(r'\(\s*mut\s+self\b', src[sig_s:sig_e])
            if m:
                ms = sig_s + m.start() + m.group(0).index("mut")
                add(ms, ms + len("mut"), "", "R12")
                p0 = T(it.body_open).end
                add(p0, p0, " let mut self_ = self;", "R12", 5)
                for i in range(lo, hi):
                    t = T(i)
                    if t.kind == "ident" and t.text == "self":
                        add(t.start, t.end, "self_", "R12")
                elog.append("R12: `mut self` receiver => `self` rebound as the mutable local `self_` (line %d)" % line(sig_s))
        # R1: for (I, &X) in E.iter().enumerate()
        if "R1" not in norules:
            for n, lp in enumerate(loops):
                if lp["kw"] != "for":
                    continue
                hdr = src[T(lp["kw_tok"]).start:T(lp["body_open"]).start]
                m = re.match(r"for\s*\(\s*(\w+)\s*,\s*(&?)\s*(\w+)\s*\)\s+in\s+(.+?)\s*\.\s*iter\s*\(\s*\)\s*\.\s*enumerate\s*\(\s*\)\s*$", hdr, re.S)
                if not m:
                    continue
                # side condition: no break/continue in the body
                for k in range(lp["body_open"], lp["body_close"]):
                    if T(k).kind == "ident" and T(k).text in ("break", "continue"):
                        raise Lost("%s::%s: R1 side condition violated (break/continue in enumerate loop)" % (f, fn))
                I, AMP, X, E = m.group(1), m.group(2), m.group(3), m.group(4)
                kv = "__k%d" % n
                add(T(lp["kw_tok"]).start, T(lp["body_open"]).start,
                    "let mut %s: usize = 0;\n while %s < %s.len() " % (kv, kv, E), "R1")
                p = T(lp["body_open"]).end
                add(p, p, " let %s = %s; let %s = %s%s[%s];" % (I, kv, X, "" if AMP else "&", E, kv), "R1", 20)
                p = T(lp["body_close"]).start
                add(p, p, " %s += 1;\n" % kv, "R1", 90)
                elog.append("R1: `%s` => indexed while loop over `%s` (line %d)" % (
                    re.sub(r"\s+", " ", hdr.strip()), E, line(T(lp["kw_tok"]).start)))
        # R10: `continue` in a `for` loop (Verus has none): `if C { continue; } REST` => `if C { } else { REST }`
        if "R10" not in norules:
            for n, lp in enumerate(loops):
                if lp["kw"] != "for":
                    continue
                # nested loops own their continues
                inner = [l2 for l2 in loops if l2["body_open"] > lp["body_open"] and l2["body_close"] < lp["body_close"]]
                def in_inner(k):
                    return any(l2["body_open"] < k < l2["body_close"] for l2 in inner)
                conts = [k for k in range(lp["body_open"] + 1, lp["body_close"])
                         if T(k).kind == "ident" and T(k).text == "continue" and not in_inner(k)]
                if not conts:
                    continue
                # top-level statements of the body
                k = lp["body_open"] + 1
                closers = 0
                handled = set()
                while k < lp["body_close"]:
                    t = T(k)
                    if t.kind == "punct" and t.text in rl.OPEN:
                        k = rl.match_close(toks, k) + 1
                        continue
                    if t.kind == "ident" and t.text == "if":
                        # find the block
                        j = k + 1
                        while not (T(j).kind == "punct" and T(j).text == "{"):
                            if T(j).kind == "punct" and T(j).text in "([":
                                j = rl.match_close(toks, j)
                            j += 1
                        e = rl.match_close(toks, j)
                        inner_sig = [q for q in range(j + 1, e) if T(q).kind not in ("ws", "comment")]
                        nxt = e + 1
                        while T(nxt).kind in ("ws", "comment"):
                            nxt += 1
                        # `continue;` must be the LAST statement of the block (anything before it stays in the `if` arm) and no
                        # other `continue` may sit deeper inside the block
                        tail_ok = len(inner_sig) >= 2 and T(inner_sig[-2]).text == "continue" and T(inner_sig[-1]).text == ";" \
                            and (len(inner_sig) == 2 or T(inner_sig[-3]).text in (";", "}")) \
                            and not any(T(q).kind == "ident" and T(q).text == "continue" for q in inner_sig[:-2])
                        if tail_ok and not (T(nxt).kind == "ident" and T(nxt).text == "else"):
                            inner_sig = inner_sig[-2:]
                            add(T(inner_sig[0]).start, T(inner_sig[1]).end, "", "R10")
                            add(T(e).end, T(e).end, " else {", "R10", 10)
                            closers += 1
                            handled.add(inner_sig[0])
                            elog.append("R10: `if .. { ..; continue; }` => if/else wrapping the rest of the loop body (line %d)" % line(T(k).start))
                        k = e + 1
                        continue
                    k += 1
                if set(conts) != handled:
                    raise Lost("%s::%s: R10 side condition violated (a `continue` that is not the last statement of a top-level `if` block)" % (f, fn))
                pz = T(lp["body_close"]).start
                add(pz, pz, "}" * closers + "\n", "R10", 95)
        # R2: debug_assert*/assert*
        if "R2" not in norules:
            for mc in rl.find_macros(toks, lo, hi, {"debug_assert", "debug_assert_eq", "debug_assert_ne",
                                                     "assert", "assert_eq", "assert_ne"}):
                args = rl.split_args(toks, mc["open"] + 1, mc["close"])
                nm = mc["name"]
                s0 = T(mc["start_tok"]).start
                if nm.endswith("_eq") or nm.endswith("_ne"):
                    op = "==" if nm.endswith("_eq") else "!="
                    if len(args) < 2:
                        raise Lost("malformed " + nm)
                    add(s0, T(mc["open"]).end, "assert((", "R2")
                    comma = args[0][1]
                    add(T(comma).start, T(comma).end, ") %s (" % op, "R2")
                    endb = T(args[1][1]).start if args[1][1] < mc["close"] else T(mc["close"]).start
                    add(endb, T(mc["close"]).end, "))", "R2")
                else:
                    add(s0, T(mc["open"]).end, "assert(", "R2")
                    endb = T(args[0][1]).start if len(args) > 1 else T(mc["close"]).start
                    add(endb, T(mc["close"]).end, ")", "R2")
                elog.append("R2: `%s!` => proof obligation `assert(..)` (line %d)" % (nm, line(s0)))
                # exec calls inside the asserted expression are replaced by their spec twins (overlay table, optional)
                a0, a1 = T(mc["open"]).end, T(mc["close"]).start
                for (pat, repl, _allf) in twins:
                    for m in re.finditer(pat, src[a0:a1]):
                        add(a0 + m.start(), a0 + m.end(), m.expand(repl), "R2-twin")
                        elog.append("R2: spec twin `%s` => `%s` inside the assertion (line %d)" % (m.group(0), m.expand(repl), line(a0 + m.start())))
        # R3: diagnostics
        if "R3" not in norules:
            for mc in rl.find_macros(toks, lo, hi, DROP_STMT_MACROS | {"format"}):
                s0 = T(mc["start_tok"]).start
                if mc["name"] == "format":
                    add(s0, T(mc["close"]).end, "vfmt()", "R3")
                    elog.append("R3: `format!(..)` => opaque vfmt() (line %d)" % line(s0))
                else:
                    if mc["semi"] is None:
                        continue
                    add(s0, T(mc["semi"]).end, "", "R3")
                    elog.append("R3: `%s!(..);` dropped (line %d)" % (mc["name"], line(s0)))


def locate(u, out_line):
    """origin dict for a 1-based output line"""
    if 1 <= out_line <= len(u.line_origin):
        return u.line_origin[out_line - 1]
    return None


def function_at(u, out_line):
    """which extracted function contains output line"""
    # compute piece line ranges lazily
    if not hasattr(u, "_fn_lines"):
        ranges = []
        # cumulative newline counts
        cum = [0]
        for p in u.pieces:
            cum.append(cum[-1] + p.text.count("\n"))
        for fn in u.functions:
            ranges.append((cum[fn["piece_lo"]] + 1, cum[fn["piece_hi"]] + 1, fn))
        u._fn_lines = ranges
    for lo, hi, fn in u._fn_lines:
        if lo <= out_line <= hi:
            return fn
    return None


if __name__ == "__main__":
    import sys
    w = Weaver(sys.argv[2] if len(sys.argv) > 2 else "/repo")
    unit = w.weave(sys.argv[1])
    sys.stdout.write(unit.text)
