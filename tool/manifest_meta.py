NOTES = ("One entry point: ./check <ID> [--tier quick|thorough] [--replay FILE]. Exit 0 = every obligation of the property's slice "
         "discharged; 1 = a slice obligation fails (VIOLATION line, replay file names the obligation and carries the verifier output, "
         "plus a concrete witness replayed on the real code when the directed search finds one, else the line ends no-failing-input-found); "
         "2 = UNDECIDED (lost anchor, unsupported construct, resource limit) - never an alarm. See DESIGN.md.")

NOT_APPLICABLE = [
]

CHECKS = {}
CHECKS["C17"] = dict(
    text="Unbounded deductive proof (Verus/Z3) that every public operation of RollingChecksum and FastRollingChecksum preserves the representation invariant tying the state to the exact sums of the ghost window, and that digest() equals the defining formula; overflow freedom of every arithmetic step included. The function bodies are extracted from src/checksum.rs on every run.",
    note="Trusted: Verus+Z3, the extractor's logged syntactic rewrites (R0 attributes, R1 enumerate-loop to indexed loop, R2 debug_assert to proof obligation), usize is 64-bit. Fast windows bounded by 2^24 bytes. No assumed contracts.",
    technique="Verus contracts (requires/ensures/loop invariants) on extracted function text; representation invariant + lemmas",
    design_ref="DESIGN.md §3 C17",
)
CHECKS["C18"] = dict(
    text="Complete proof of the per-path table: four loop-free Kani/CBMC harnesses over fully symbolic (a, b, base) — including arbitrary 32-byte digests and both entry types — on the unedited reconcile.rs (== table, mirror symmetry, dependence only on the equality pattern, no delete without base); plus an unbounded Verus proof that whole-tree reconcile emits exactly the non-trivial decisions for the union of paths, once each, with the base ignored when untrusted.",
    note="Trusted: Kani+CBMC, Verus+Z3, extractor rules; assumed std contracts for sort_unstable/dedup/Option::copied, BTreeMap<PathBuf,_> key model, one R5 shim for keys().chain().collect().",
    technique="Kani function harnesses (complete, loop-free) + Verus contract with loop invariant on extracted text",
    design_ref="DESIGN.md §3 C18",
)
CHECKS["C19"] = dict(
    text="Unbounded Verus proofs on extracted text: build_plan equals its set definitions (transfer/skipped/delete), glob_match equals the recursive wildcard semantics for all patterns and texts, is_excluded equals the component/whole-path rule; needs_transfer additionally proved complete by Kani on the real file. The remote-listing parser is outside reach and only validated differentially (reported as assumed_validated).",
    note="Trusted: Verus+Z3, Kani+CBMC, extractor rules (R9 &BTreeMap in for, R10 continue, R5 shims), assumed std contracts (sort, map_or, copied, BTreeMap key model for PathBuf, std::path component grammar behind is_excluded's shims).",
    technique="Verus contracts + loop invariants on extracted text; Kani harness for the loop-free quick check; twin validation for assumed contracts",
    design_ref="DESIGN.md §3 C19",
)
CHECKS["C15"] = dict(
    text="Proof (Verus) of the wildcard semantics, the exclude rule and the planner clauses 'excluded paths are never transferred or deleted' and 'no delete without the flag'. Dry-run clauses are decided for bisync only once the world-model unit is registered; sync -r --dry-run is undecided (tokio orchestration).",
    note="Same trusted base as C19. Partial: the dry-run clause of `sync -r` and 'printed == performed' are not decided.",
    technique="Verus contracts on extracted planner/matcher text",
    design_ref="DESIGN.md §3 C15",
)
CHECKS["C05"] = dict(
    text="Unbounded Verus proof on the extracted bodies of CopiaSync::patch, AsyncCopiaSync::patch (async erased), Delta::validate and Delta::push_*: for every delta and basis, Ok with verification on implies BLAKE3(bytes written) == delta.checksum; bytes are read only from inside the basis content; no panic (every debug_assert is an obligation).",
    note="Trusted: Verus+Z3, extractor rules (R2, R4 async erasure, R7 ghost sink), std::io/tokio traits by ghost-view contracts, blake3 by contract (H a function; incremental == one-shot), iterator-sum helpers assumed. Output length < 2^64.",
    technique="Verus contracts + loop invariant on extracted patch/validate text; ghost sink for the writer",
    design_ref="DESIGN.md §3 C05",
)
CHECKS["C01"] = dict(
    text="Unbounded Verus proof on the extracted loops of CopiaSync::delta and AsyncCopiaSync::delta (async erased) and both patch engines: size/checksum/length-sum postconditions, and — under the explicit hypothesis that BLAKE3 does not collide — every copy inside the basis and out(ops, basis) == source; a lemma composes delta's postcondition with patch's success and output clauses. Signature generation and table lookups are assumed contracts validated by twins.",
    note="Trusted: Verus+Z3, extractor (R2/R4/R7), I/O + blake3 contracts, assumed+validated contracts for Signature::generate and SignatureTable lookups, collision_free() as hypothesis, io_ok() for success clauses. CLI chain and sync_files are twin-validated only.",
    technique="Verus loop invariants on extracted delta/patch text + composition lemma; twin validation for assumed repo contracts",
    design_ref="DESIGN.md §3 C01",
)
CHECKS["C16"] = dict(
    text="Unbounded Verus proof that the literal byte count of the delta computed by either engine EQUALS that of the textbook greedy scan (spec function g_lit), via the loop invariant lit(ops) + g_lit(S,basis,bs,pos) == g_lit(S,basis,bs,0); relies on the C17 checksum contracts discharged in the same run.",
    note="Trusted as C01. Conditional on no BLAKE3 collision (hypothesis in the postcondition).",
    technique="Verus loop invariant relating the code's scan to a recursive greedy spec function",
    design_ref="DESIGN.md §3 C16",
)
CHECKS["C20"] = dict(
    text="Verus proofs on extracted text of MessageType::from_u8, FrameHeader::{new,validate,encode,decode,read_from,write_to}, Message::msg_type, Codec::{write_message,read_message} (layout, Ok<=>valid, round-trip lemma, 16 MiB allocation bound, totality), a complete Kani harness for the encoded layout on the compiled crate, and the CLI wrappers run_signature/run_delta/run_patch verified to establish every callee precondition for arbitrary file contents (no panic reachable from a hostile .sig/.delta). bincode value codecs are assumed and only exercised through the real binary by a twin run.",
    note="Trusted: Verus+Z3, Kani+CBMC, extractor (R2/R3/R4/R5/R11), std::io contracts, shim modules for tokio::fs/bincode, *_le_bytes shims. Partial: serde/bincode value round trips and their allocation behaviour are not decided.",
    technique="Verus contracts on extracted codec + CLI wrapper text; Kani harness; CLI twin on the real binary",
    design_ref="DESIGN.md §3 C20",
)
_BISYNC_NOTE = "Trusted: Verus+Z3, extractor rules (R2/R3/R5/R7/R9/R11), the ghost file-system world model (atomic rename, non-atomic copy/write only on staging names, durability only after sync_all), std::path algebra, serde_json and the tree scan by contract. Partial where stated: multi-run induction and whole-tree equality are not mechanised."
CHECKS["C07"] = dict(
    text="Verus proofs on extracted Archive::load (Some only for the file at that path with matching pair and version), apply (unlink only on Delete*) and run_bisync (no trusted archive ==> no unlink effect in the world log), root_pair_hash (hex of BLAKE3 over canon(a) NUL canon(b), with an injectivity lemma under 'no collision'), plus a history twin on the real binary for the archive-fault scenarios.",
    note=_BISYNC_NOTE, technique="Verus contracts against a ghost file-system world (effect log)", design_ref="DESIGN.md §3 C02/C06/C07/C08")
CHECKS["C08"] = dict(
    text="Effect discipline proved against the ghost world: non-atomic writes only on staging names, live paths change only by rename of a FLUSHED staging file (primitive preconditions), Archive::save publishes a flushed temp by rename, run_bisync renames the archive only after every data rename; crash points are the boundaries between primitives, covered by per-primitive frame clauses rather than enumeration. The two-run clause (re-running after a kill converges to the uninterrupted result) has no contract: a BOUNDED enumeration on the real binary stands in - bisync killed right before every one of its file-system write calls, two setups covering all seven action kinds.",
    note=_BISYNC_NOTE, technique="Verus contracts against a ghost file-system world (frame + effect-order clauses)", design_ref="DESIGN.md §3 C02/C06/C07/C08")
CHECKS["C02"] = dict(
    text="Per-action 'no version lost' contract of apply (content + whole-world frame), the H7 side condition as a call-site obligation in run_bisync, and the no-stale-entry invariant of the recorded state; a history twin on the real binary replays concrete loss scenarios.",
    note=_BISYNC_NOTE, technique="Verus contracts against a ghost file-system world; call-site side conditions", design_ref="DESIGN.md §3 C02/C06/C07/C08")
CHECKS["C06"] = dict(
    text="Exact per-action contract for what apply records, winner/loser rule of divergent edits (greater BLAKE3 at the path, loser at the conflict-copy name, both sides), record-names-only-live-paths invariant of run_bisync; convergence/idempotence as whole-tree equality is exercised by the history twin only.",
    note=_BISYNC_NOTE, technique="Verus contracts against a ghost file-system world", design_ref="DESIGN.md §3 C02/C06/C07/C08")
_SERVE_NOTE = "Trusted: Verus+Z3 / Kani+CBMC, extractor rules, ghost world with commit lock and process-private staging names, fs2 flock as mutual exclusion, std::path component grammar behind safe_join (assumed, validated), ciborium by contract. Interleavings are not explored by a verifier: the lock-discipline contracts plus the standard linearizability argument; the session twin forces named schedules on the real binary."
CHECKS["C04"] = dict(text="Contracts on every Rust function that decides WHAT a recursive one-way sync does to the destination: the plan (build_plan, needs_transfer, is_excluded, glob_match: Verus + Kani, unbounded), one delivery (deliver_local, deliver_pull: frame, bytes, mtime), the delete application (apply_remote_deletes: exactly the planned unlinks locally; remotely ONE command whose xargs-cut argument list is exactly the planned paths) and the remote directory list (create_remote_dirs). The end-to-end statement over the orchestration functions and the remote shell has no contract; a BOUNDED run on the real binary stands in (15 awkward names incl. newlines, 4 destination states, 5 flag sets, 3 directions).",
                     note="Trusted: how xargs cuts its input (assumed), the one-way world, R3'/R5 shims, the path grammar. H12 (newline-delimited xargs lists: a stale name with a newline was not deleted while another file - or one in the remote working directory - was, exit 0) was found here and fixed in /repo 0e5c8c2; the pre-fix code fails apply_remote_deletes' push postcondition.",
                     technique="Verus contracts on plan, delivery, delete application and remote list encoding (ghost remote-command log); bounded end-to-end run on the real binary", design_ref="DESIGN.md §3 C04")
CHECKS["C14"] = dict(text="The per-file chain behind 'an unchanged tree is never re-sent', as contracts on the real functions: the quick check needs_transfer/build_plan selects a file exactly when it is absent or differs in size or whole-second mtime (Verus + Kani, shared with C19); set_local_mtime stamps epoch + max(secs, 0) and deliver_local/deliver_pull leave the delivered file with the planned whole-second mtime (Verus, against the one-way world extended with mtimes); lemma: such a file is not selected again. The two-run, three-direction statement itself is exercised by a BOUNDED twin on the real binary (sub-second, epoch and far-future mtimes).",
                     note="Trusted: set_local_mtime/mtime_secs and the discover_* functions by contract; the one-way world. Not decided by contract: the orchestration functions, the push direction and the remote listing (shell).",
                     technique="Verus contracts (quick check; mtime postcondition of delivery; composition lemma) + Kani (needs_transfer); bounded second-run twin on the real binary", design_ref="DESIGN.md §3 C14")
CHECKS["C13"] = dict(text="Verus contract on the extracted hub_sync over a ghost request log: after the List the run sends only compare-and-swap Puts, one for each local file whose listed hash differs, with expected == the listed hash and the local fingerprint as content hash; up-to-date files are skipped; Ok iff every needed Put was committed. That is the client-side half of the property for ONE run; the hub-side half is C03/C10. A run twin on the real binary (quiet hub, immediate second run, forced stale listing) validates the assumed HubClient contract.",
                     note="Trusted: HubClient methods and discover_local_fingerprints by contract, two R5 shims, the BTreeMap key model. Not decided: multi-client run sequences (induction on runs is a paper argument), the SSH target form.",
                     technique="Verus contract over a ghost request log (per-run client protocol); run twin on the real binary", design_ref="DESIGN.md §3 C13")
CHECKS["C09"] = dict(text="local->local and pull: Verus contracts on the extracted deliver_local / deliver_pull / tmp_path / create_local_dirs against a ghost world whose primitives allow non-atomic writes only on *.copia-tmp and a rename only of a WHOLE staging file, with an effect log whose prefixes are the kill points (unbounded: every file content, every outcome). push: NOT provable by contracts (the deciding step is a remote shell command) - a BOUNDED fault enumeration on the real binary stands in: every kill point of one 5-file tree per direction under a ptrace supervisor.",
                     note="Trusted: the ghost one-way world and transfer_file_from_remote's assumed contract (validated by the crash oracle incl. a failing remote end), R4 async erasure, path algebra. Bounded stand-in (push, and the two-run 're-run converges' clause for all directions): one tree, -j 1, all kill points. H13 (push published truncated files when the sender died) was found by it and fixed in /repo bb79f84.",
                     technique="Verus contracts against a ghost crash world (effect-log prefixes) for local/pull; bounded kill-point enumeration on the real binary for push", design_ref="DESIGN.md §3 C09")
CHECKS["C03"] = dict(text="cas_decide proved complete by Kani on the unedited wire.rs; atomic-section contracts of handle_put / handle_delete against a ghost world with a commit lock (compare and commit under one lock, acknowledged only if the rename happened); deterministic two-server sessions on the real binary as witnesses.",
                     note=_SERVE_NOTE, technique="Kani harness + Verus contracts against a ghost world with lock/ownership; session twin", design_ref="DESIGN.md §3 C03/C10/C11/C12")
CHECKS["C10"] = dict(text="Verus contracts: a live hub path only ever receives the rename of a fully written, flushed, hash-verified, process-private staging file; hash mismatch changes no live path; Get takes length, hash and content from one open file. Session twin with forced interleavings on the real binary. The quantifier over ALL kill points of a run is not a Verus obligation: a BOUNDED enumeration on the real binary stands in (one server killed before every one of its write calls, four sessions).",
                     note=_SERVE_NOTE, technique="Verus contracts against a ghost world with lock/ownership; session twin", design_ref="DESIGN.md §3 C03/C10/C11/C12")
CHECKS["C11"] = dict(text="Verus contract of safe_join over an assumed std::path component grammar (Some only for relative paths without '..', result = root joined with the request path) and 'every file-system primitive gets a path derived from safe_join's result'; refused request changes nothing and drains its content. Session twin with escape attempts on the real binary.",
                     note=_SERVE_NOTE, technique="Verus contracts (confinement precondition on every world primitive); session twin", design_ref="DESIGN.md §3 C03/C10/C11/C12")
CHECKS["C12"] = dict(text="Verus contracts of read_magic / read_frame / write_frame (total, allocation only after the 1 MiB bound check, clean EOF at a boundary is None) and of serve's prologue (no tree effect before magic and a well-formed frame); session twin with bad prologue, oversize prefixes, cut input, refused Puts of many sizes.",
                     note=_SERVE_NOTE, technique="Verus contracts on extracted wire/serve text; session twin", design_ref="DESIGN.md §3 C03/C10/C11/C12")
