NOTES = ("One entry point: ./check <ID> [--tier quick|thorough] [--replay FILE]. Exit 0 = every obligation of the property's slice "
         "discharged; 1 = a slice obligation fails (VIOLATION line, replay file names the obligation and carries the verifier output, "
         "plus a concrete witness replayed on the real code when the directed search finds one, else the line ends no-failing-input-found); "
         "2 = UNDECIDED (lost anchor, unsupported construct, resource limit) - never an alarm. See DESIGN.md.")

NOT_APPLICABLE = [
    dict(property_id="C04", reason="end state of a process tree (tokio tasks + ssh + remote sh pipelines); no contract on a Rust function states it. Decidable fragments are claimed under C19 (plan), C15 (exclude/delete) and C09 (per-file delivery)."),
    dict(property_id="C13", reason="client and hub are separate processes driven over pipes across several runs by several clients; needs a process-level history model, which is another technique family. Hub-side guarantees are claimed under C03/C10."),
    dict(property_id="C14", reason="stability of (size, mtime) through SystemTime, remote `touch -d @` and `find -printf %T@` in three directions; two of the three actors are not Rust code. needs_transfer (C19) is the decidable fragment."),
]

CHECKS = {}
CHECKS["C17"] = dict(
    text="Unbounded deductive proof (Verus/Z3) that every public operation of RollingChecksum and FastRollingChecksum preserves the representation invariant tying the state to the exact sums of the ghost window, and that digest() equals the defining formula; overflow freedom of every arithmetic step included. The function bodies are extracted from src/checksum.rs on every run.",
    note="Trusted: Verus+Z3, the extractor's logged syntactic rewrites (R0 attributes, R1 enumerate-loop to indexed loop, R2 debug_assert to proof obligation), usize is 64-bit. Fast windows bounded by 2^24 bytes. No assumed contracts.",
    technique="Verus contracts (requires/ensures/loop invariants) on extracted function text; representation invariant + lemmas",
    design_ref="DESIGN.md §3 C17",
)
