"""Minimal Rust lexer + item/statement locator used by the extractor.

Only what the weaver needs: tokenise (so that braces inside strings, chars,
comments and lifetimes never confuse matching), find `fn` items inside a given
`impl` block (or at module level), find loops of a body in source order, split
macro arguments, and locate struct/enum/const items.
"""
import re


class LexError(Exception):
    pass


class Tok:
    __slots__ = ("kind", "text", "start", "end")

    def __init__(self, kind, text, start, end):
        self.kind, self.text, self.start, self.end = kind, text, start, end

    def __repr__(self):
        return "Tok(%s,%r,%d)" % (self.kind, self.text, self.start)


_ident = re.compile(r"[A-Za-z_][A-Za-z0-9_]*")
_num = re.compile(r"[0-9][A-Za-z0-9_]*(\.[0-9][A-Za-z0-9_]*)?")
_ws = re.compile(r"\s+")


def tokenize(src):
    toks = []
    i, n = 0, len(src)
    while i < n:
        c = src[i]
        m = _ws.match(src, i)
        if m:
            toks.append(Tok("ws", m.group(), i, m.end()))
            i = m.end()
            continue
        if src.startswith("//", i):
            j = src.find("\n", i)
            j = n if j < 0 else j
            toks.append(Tok("comment", src[i:j], i, j))
            i = j
            continue
        if src.startswith("/*", i):
            depth, j = 1, i + 2
            while j < n and depth:
                if src.startswith("/*", j):
                    depth += 1
                    j += 2
                elif src.startswith("*/", j):
                    depth -= 1
                    j += 2
                else:
                    j += 1
            toks.append(Tok("comment", src[i:j], i, j))
            i = j
            continue
        # raw / byte strings
        m = re.match(r'(b|c)?r(#*)"', src[i:i + 40])
        if m:
            hashes = m.group(2)
            close = '"' + hashes
            j = src.find(close, i + m.end())
            if j < 0:
                raise LexError("unterminated raw string at %d" % i)
            j += len(close)
            toks.append(Tok("string", src[i:j], i, j))
            i = j
            continue
        if c == '"' or (c in "bc" and i + 1 < n and src[i + 1] == '"'):
            j = i + (1 if c == '"' else 2)
            while j < n and src[j] != '"':
                j += 2 if src[j] == "\\" else 1
            j += 1
            toks.append(Tok("string", src[i:j], i, j))
            i = j
            continue
        if c == "'" or (c == "b" and i + 1 < n and src[i + 1] == "'"):
            k = i + (1 if c == "'" else 2)
            # char literal or lifetime?
            if k < n and src[k] == "\\":
                j = src.find("'", k + 2)
                toks.append(Tok("char", src[i:j + 1], i, j + 1))
                i = j + 1
                continue
            if k + 1 < n and src[k + 1] == "'":
                toks.append(Tok("char", src[i:k + 2], i, k + 2))
                i = k + 2
                continue
            # multi-byte char literal like 'é'
            m2 = re.match(r"'[^'\\\n]'", src[i:i + 8])
            if m2 and c == "'":
                toks.append(Tok("char", m2.group(), i, i + m2.end()))
                i += m2.end()
                continue
            m = _ident.match(src, k)
            if m and c == "'":
                toks.append(Tok("lifetime", src[i:m.end()], i, m.end()))
                i = m.end()
                continue
            raise LexError("bad quote at %d" % i)
        m = _ident.match(src, i)
        if m:
            toks.append(Tok("ident", m.group(), i, m.end()))
            i = m.end()
            continue
        m = _num.match(src, i)
        if m:
            toks.append(Tok("num", m.group(), i, m.end()))
            i = m.end()
            continue
        toks.append(Tok("punct", c, i, i + 1))
        i += 1
    return toks


OPEN = {"(": ")", "[": "]", "{": "}"}
CLOSE = {")": "(", "]": "[", "}": "{"}


def sig(toks):
    """indices of significant tokens (no ws/comments)"""
    return [i for i, t in enumerate(toks) if t.kind not in ("ws", "comment")]


def match_close(toks, i):
    """toks[i] is an opening bracket; return index of its closing bracket."""
    assert toks[i].kind == "punct" and toks[i].text in OPEN, toks[i]
    depth = 0
    for j in range(i, len(toks)):
        t = toks[j]
        if t.kind != "punct":
            continue
        if t.text in OPEN:
            depth += 1
        elif t.text in CLOSE:
            depth -= 1
            if depth == 0:
                return j
    raise LexError("unbalanced bracket at %d" % toks[i].start)


def _norm(s):
    return re.sub(r"\s+", " ", s).strip()


class Item:
    """A located fn item: offsets into the source text."""

    def __init__(self, **kw):
        self.__dict__.update(kw)


def find_impls(src, toks):
    """yield (header_text, body_open_tok_index, body_close_tok_index) for every impl at any depth"""
    out = []
    for i, t in enumerate(toks):
        if t.kind == "ident" and t.text == "impl":
            # must be at item position: previous significant token is not an ident-ish type context like `-> impl`
            p = i - 1
            while p >= 0 and toks[p].kind in ("ws", "comment"):
                p -= 1
            if p >= 0 and toks[p].kind == "punct" and toks[p].text in (">", ":", "(", ",", "&", "<", "=", "+"):
                continue  # `-> impl Trait`, `x: impl Trait`
            if p >= 0 and toks[p].kind == "ident" and toks[p].text in ("dyn",):
                continue
            # header up to the first `{` at angle depth 0
            j = i + 1
            while j < len(toks) and not (toks[j].kind == "punct" and toks[j].text in "{;"):
                j += 1
            if j >= len(toks) or toks[j].text != "{":
                continue
            header = _norm(src[toks[i].end:toks[j].start])
            out.append((header, j, match_close(toks, j)))
    return out


def find_fn(src, toks, name, impl=None, nth=0):
    """Locate `fn name` directly inside the impl whose header matches `impl`
    (exact normalised text, e.g. 'RollingChecksum' or 'Sync for CopiaSync'),
    or at depth 0 of the file / of `mod` blocks when impl is None.
    Returns Item(start, sig_end(body '{' offset), body_open, body_close, params_open, params_close, ret_arrow, name_end)
    """
    ranges = []
    if impl is not None:
        for header, o, c in find_impls(src, toks):
            if header == _norm(impl):
                ranges.append((o, c))
        if not ranges:
            raise LookupError("impl `%s` not found" % impl)
    else:
        ranges.append((-1, len(toks)))
    found = []
    for (o, c) in ranges:
        depth = 0
        i = o + 1
        while i < c:
            t = toks[i]
            if t.kind == "punct" and t.text == "{":
                # skip nested blocks unless it is a `mod` body when impl is None
                if impl is None and _is_mod_open(toks, i):
                    i += 1
                    continue
                i = match_close(toks, i) + 1
                continue
            if t.kind == "ident" and t.text == "fn":
                k = i + 1
                while toks[k].kind in ("ws", "comment"):
                    k += 1
                if toks[k].kind == "ident" and toks[k].text == name:
                    found.append(_fn_item(src, toks, i, k))
            i += 1
    if len(found) <= nth:
        raise LookupError("fn `%s` not found in %s" % (name, "impl " + impl if impl else "module"))
    if len(found) > 1 and nth == 0 and impl is not None:
        # ambiguous only if more than one identical impl header has it
        pass
    return found[nth]


def _is_mod_open(toks, i):
    p = i - 1
    while p >= 0 and toks[p].kind in ("ws", "comment"):
        p -= 1
    if p < 0 or toks[p].kind != "ident":
        return False
    q = p - 1
    while q >= 0 and toks[q].kind in ("ws", "comment"):
        q -= 1
    return q >= 0 and toks[q].kind == "ident" and toks[q].text == "mod"


def _fn_item(src, toks, fn_i, name_i):
    # walk back over qualifiers: pub, pub(crate), const, async, unsafe, extern
    s = fn_i
    p = fn_i - 1
    while p >= 0:
        t = toks[p]
        if t.kind in ("ws",):
            p -= 1
            continue
        if t.kind == "ident" and t.text in ("pub", "const", "async", "unsafe", "extern", "default"):
            s = p
            p -= 1
            continue
        if t.kind == "punct" and t.text == ")":
            # pub(crate)
            q = p
            while q >= 0 and not (toks[q].kind == "punct" and toks[q].text == "("):
                q -= 1
            r = q - 1
            while r >= 0 and toks[r].kind == "ws":
                r -= 1
            if r >= 0 and toks[r].kind == "ident" and toks[r].text == "pub":
                s = r
                p = r - 1
                continue
        break
    # generics then params
    k = name_i + 1
    while toks[k].kind in ("ws", "comment"):
        k += 1
    if toks[k].kind == "punct" and toks[k].text == "<":
        depth = 0
        while True:
            t = toks[k]
            if t.kind == "punct" and t.text == "<":
                depth += 1
            elif t.kind == "punct" and t.text == ">" and not (toks[k - 1].kind == "punct" and toks[k - 1].text == "-"):
                depth -= 1
                if depth == 0:
                    break
            k += 1
        k += 1
        while toks[k].kind in ("ws", "comment"):
            k += 1
    if not (toks[k].kind == "punct" and toks[k].text == "("):
        raise LexError("expected ( after fn name at %d" % toks[k].start)
    po = k
    pc = match_close(toks, po)
    # return arrow?
    k = pc + 1
    arrow = None
    body = None
    while k < len(toks):
        t = toks[k]
        if t.kind == "punct" and t.text == "-" and toks[k + 1].text == ">":
            arrow = k
        if t.kind == "punct" and t.text == "{":
            body = k
            break
        if t.kind == "punct" and t.text == ";":
            raise LexError("fn without body")
        if t.kind == "punct" and t.text in "([":
            k = match_close(toks, k)
        k += 1
    bc = match_close(toks, body)
    # `where` clause start (if any) between params and body
    where = None
    for q in range(pc + 1, body):
        if toks[q].kind == "ident" and toks[q].text == "where":
            where = q
            break
    return Item(start=toks[s].start, fn_tok=fn_i, name_tok=name_i, params_open=po, params_close=pc,
                arrow=arrow, where=where, body_open=body, body_close=bc,
                end=toks[bc].end)


def find_loops(toks, lo, hi):
    """Loops (for/while/loop) between token indices lo..hi in source order.
    Returns list of dict(kw, kw_tok, body_open, body_close)."""
    out = []
    i = lo
    while i < hi:
        t = toks[i]
        if t.kind == "ident" and t.text in ("for", "while", "loop"):
            # `for<'a>` HRTB or `impl X for Y` never occur inside the bodies we extract; guard anyway
            k = i + 1
            while toks[k].kind in ("ws", "comment"):
                k += 1
            if t.text == "for" and toks[k].kind == "punct" and toks[k].text == "<":
                i += 1
                continue
            # label? (`'outer: loop`) is before; fine.
            j = k
            while j < hi:
                u = toks[j]
                if u.kind == "punct" and u.text in "([":
                    j = match_close(toks, j) + 1
                    continue
                if u.kind == "punct" and u.text == "{":
                    break
                j += 1
            if j >= hi:
                i += 1
                continue
            out.append(dict(kw=t.text, kw_tok=i, body_open=j, body_close=match_close(toks, j)))
        i += 1
    return out


def split_args(toks, lo, hi):
    """split token range lo..hi (exclusive) at top-level commas -> list of (a,b) token ranges"""
    out = []
    start = lo
    i = lo
    while i < hi:
        t = toks[i]
        if t.kind == "punct" and t.text in OPEN:
            i = match_close(toks, i) + 1
            continue
        if t.kind == "punct" and t.text == ",":
            out.append((start, i))
            start = i + 1
        i += 1
    if any(toks[k].kind not in ("ws", "comment") for k in range(start, hi)):
        out.append((start, hi))
    return out


def find_macros(toks, lo, hi, names):
    """macro invocations `name!( ... )` / `name!{...}` / `name![...]` between lo..hi.
    returns list of dict(name, start_tok, open, close, stmt_semi (index of following ';' or None))"""
    out = []
    i = lo
    while i < hi:
        t = toks[i]
        if t.kind == "ident" and t.text in names:
            k = i + 1
            if toks[k].kind == "punct" and toks[k].text == "!":
                k += 1
                while toks[k].kind in ("ws", "comment"):
                    k += 1
                if toks[k].kind == "punct" and toks[k].text in OPEN:
                    c = match_close(toks, k)
                    s = c + 1
                    while s < len(toks) and toks[s].kind in ("ws", "comment"):
                        s += 1
                    semi = s if s < len(toks) and toks[s].kind == "punct" and toks[s].text == ";" else None
                    # path prefix like tracing::info!
                    st = i
                    while st - 2 >= lo and toks[st - 1].text == ":" and toks[st - 2].text == ":":
                        st -= 3
                    out.append(dict(name=t.text, start_tok=st, open=k, close=c, semi=semi))
                    i = c + 1
                    continue
        i += 1
    return out


def find_item(src, toks, kind, name, impl=None):
    """Locate `struct|enum|const|static|type NAME` item; returns (start_offset, end_offset) excluding attributes/docs
    but including visibility."""
    ranges = []
    if impl is not None:
        for header, o, c in find_impls(src, toks):
            if header == _norm(impl):
                ranges.append((o, c))
        if not ranges:
            raise LookupError("impl `%s` not found" % impl)
    else:
        ranges.append((-1, len(toks)))
    for (o, c) in ranges:
        i = o + 1
        while i < c:
            t = toks[i]
            if t.kind == "punct" and t.text == "{":
                if impl is None and _is_mod_open(toks, i):
                    i += 1
                    continue
                i = match_close(toks, i) + 1
                continue
            if t.kind == "ident" and t.text == kind:
                k = i + 1
                while toks[k].kind in ("ws", "comment"):
                    k += 1
                if toks[k].kind == "ident" and toks[k].text == name:
                    # start: walk back over pub / pub(crate)
                    s = i
                    p = i - 1
                    while p >= 0 and toks[p].kind == "ws":
                        p -= 1
                    if p >= 0 and toks[p].kind == "ident" and toks[p].text == "pub":
                        s = p
                    elif p >= 0 and toks[p].text == ")":
                        q = p
                        while toks[q].text != "(":
                            q -= 1
                        r = q - 1
                        while toks[r].kind == "ws":
                            r -= 1
                        if toks[r].text == "pub":
                            s = r
                    # end: `;` at depth 0 or matching `}` (struct/enum)
                    j = k + 1
                    while j < c:
                        u = toks[j]
                        if u.kind == "punct" and u.text == "{" and kind in ("struct", "enum"):
                            e = match_close(toks, j)
                            return toks[s].start, toks[e].end
                        if u.kind == "punct" and u.text in "([{":
                            j = match_close(toks, j) + 1
                            continue
                        if u.kind == "punct" and u.text == ";":
                            return toks[s].start, toks[j].end
                        j += 1
            i += 1
    raise LookupError("%s `%s` not found" % (kind, name))


def strip_attrs_and_docs(text):
    """remove `#[...]` attributes and doc comments from an item text (struct/enum bodies)"""
    toks = tokenize(text)
    out = []
    i = 0
    while i < len(toks):
        t = toks[i]
        if t.kind == "comment" and (t.text.startswith("///") or t.text.startswith("//!") or t.text.startswith("/**")):
            i += 1
            continue
        if t.kind == "punct" and t.text == "#" and i + 1 < len(toks) and toks[i + 1].text == "[":
            i = match_close(toks, i + 1) + 1
            continue
        out.append(t.text)
        i += 1
    s = "".join(out)
    return re.sub(r"\n\s*\n+", "\n", s)
