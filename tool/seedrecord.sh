#!/bin/bash
# seedrecord.sh <seed-dir> <ID>... : copy a CONFIRMED seeded change into /verif/seeded/<id>/ and record which checks catch it
S=$(readlink -f "$1"); shift; ID=$(basename "$S"); D=/verif/seeded/$ID
[ -f "$S/confirm.json" ] || { echo "no confirm.json for $ID"; exit 2; }
mkdir -p $D; cp -r "$S"/* $D/
RES=$(/verif/tool/seedtest.sh "$S" "$@" 2>&1)
echo "$RES" > $D/check_results.txt
python3 - "$D" "$@" <<'PY'
import json,sys,re
d=sys.argv[1]; ids=sys.argv[2:]
meta=json.load(open(d+'/meta.json')); conf=json.load(open(d+'/confirm.json'))
res=open(d+'/check_results.txt').read()
det={}
for m in re.finditer(r'== \S+ vs (\S+): exit (\d+)', res): det[m.group(1)]={'exit':int(m.group(2))}
cur=None
for ln in res.splitlines():
    m=re.match(r'== \S+ vs (\S+): exit',ln)
    if m: cur=m.group(1); det[cur]['lines']=[]; continue
    if cur: det[cur]['lines'].append(re.sub(r'replay=\S+','replay=<path>',ln)[:260])
meta['confirmed']=conf
meta['what_i_ran']=["tool/seedconfirm.sh (scratch worktree of /repo HEAD: demo passes clean, fails patched; baseline 254/254 with patch; cli builds)", "tool/seedtest.sh (git -C /repo apply; ./check <ids>; git -C /repo checkout -- .)"]
meta['check_results']=det
json.dump(meta,open(d+'/meta.json','w'),indent=1)
print(d, {k:v['exit'] for k,v in det.items()})
PY
