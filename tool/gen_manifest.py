#!/usr/bin/env python3
"""Regenerates MANIFEST.json from tool/registry.py (+ manifest_meta.py texts)."""
import json, os, sys
HERE = os.path.dirname(os.path.abspath(__file__))
sys.path.insert(0, HERE)
import registry, manifest_meta as mm
ALL = [json.loads(l)['id'] for l in open(os.path.join(os.path.dirname(HERE), 'properties.jsonl'))]
checks = []
for pid in sorted(registry.PROPS):
    meta = mm.CHECKS[pid]
    checks.append(dict(
        property_id=pid,
        quick_cmd="./check %s --tier quick" % pid,
        thorough_cmd="./check %s --tier thorough" % pid,
        evidence_file="/verif/evidence/%s.json" % pid,
        replay_cmd_template="./check %s --replay {path}" % pid,
        engine="contracts",
        level_claimed=dict(category=registry.PROPS[pid].get("level", "proof"), text=meta["text"], design_ref=meta.get("design_ref", "DESIGN.md §3")),
        level_note=meta["note"],
        technique=meta["technique"],
    ))
m = dict(
    version=1,
    setup_cmd="./setup.sh",
    hooks=dict(guard="none", enable="no hooks: functions are extracted from /repo's working tree on every run and bin modules are #[path]-included unedited",
               baseline_off_cmd="/verif/tool/baseline.sh /repo", source_commits=[], add_only=True),
    engines=[dict(name="contracts", path="/verif/tool", serves_properties=sorted(registry.PROPS),
                  kind_free_text="contract-based deductive verification: Verus (Z3) on function text extracted mechanically from /repo on every run; Kani/CBMC function harnesses on the real source files for loop-free functions; native twin validation only for assumed contracts")],
    checks=checks,
    notes=mm.NOTES,
    not_applicable=mm.NOT_APPLICABLE + [dict(property_id=l, reason='check not built yet (planned, DESIGN.md §8); not claimed in this commit') for l in ALL if l not in registry.PROPS and l not in {x['property_id'] for x in mm.NOT_APPLICABLE}],
)
json.dump(m, open(os.path.join(os.path.dirname(HERE), "MANIFEST.json"), "w"), indent=1)
print("MANIFEST.json: %d checks, %d not applicable" % (len(checks), len(mm.NOT_APPLICABLE)))
