#!/bin/bash
# seedtest.sh <seed-dir> <ID>... : apply the seeded patch to /repo, run the given checks, undo. Prints one line per check.
S=$(readlink -f "$1"); shift
cd /repo && git diff --quiet || { echo "/repo is dirty; refusing"; exit 2; }
git -C /repo apply "$S/patch.diff" || { echo "patch does not apply"; exit 2; }
for id in "$@"; do
  OUT=$(cd /verif && ./check $id --no-evidence 2>&1); RC=$?
  echo "== $(basename $S) vs $id: exit $RC"
  echo "$OUT" | grep -E "^(VIOLATION|UNDECIDED|KNOWN)" | cut -c1-300
done
git -C /repo checkout -- .
