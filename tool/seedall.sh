#!/bin/bash
# seedall.sh : re-run every recorded seeded change (/verif/seeded/<id>/patch.diff) against its property's check(s) with the
# CURRENT machinery and /repo HEAD; refresh meta.json check_results + detected_by. /repo is restored after each.
cd /verif
for D in /verif/seeded/${1:-*}/; do
  ID=$(basename $D)
  IDS=$(python3 -c "
import json;m=json.load(open('$D/meta.json'));ids=list(m.get('check_results',{}).keys()) or [m['property']]
if m['property'] not in ids: ids.insert(0,m['property'])
print(' '.join(ids))")
  git -C /repo apply --check $D/patch.diff 2>/dev/null || { echo "$ID: patch no longer applies to HEAD"; continue; }
  RES=$(tool/seedtest.sh $D $IDS 2>&1)
  echo "$RES" > $D/check_results.txt
  python3 - "$D" <<'PY'
import json,sys,re,subprocess
d=sys.argv[1]
meta=json.load(open(d+'/meta.json')); res=open(d+'/check_results.txt').read()
det={}; cur=None
for ln in res.splitlines():
    m=re.match(r'== \S+ vs (\S+): exit (\d+)',ln)
    if m: cur=m.group(1); det[cur]={'exit':int(m.group(2)),'lines':[]}; continue
    if cur: det[cur]['lines'].append(ln[:260])
how=set()
for pid,r in det.items():
    for ln in r['lines']:
        m=re.search(r'replay=(\S+)',ln)
        if ln.startswith('VIOLATION') and m:
            try:
                j=json.load(open(m.group(1))); fo=j['failed_obligation']
                if fo.get('unit')=='fallback-search': how.add('%s: witness on the real code (directed search `%s` after UNDECIDED)'%(pid,fo['function']))
                elif fo.get('unit')=='twin': how.add('%s: witness on the real code (%s)'%(pid,fo['function']))
                elif fo.get('unit')=='kani': how.add('%s: Kani harness %s'%(pid,fo['function']))
                else: how.add('%s: Verus obligation in %s%s'%(pid,fo['function'],'' if j.get('witness') else ' (no-failing-input-found)'))
            except Exception as e: how.add('%s: violation'%pid)
        if ln.startswith('UNDECIDED'): how.add('%s: Verus UNDECIDED (the patch uses a construct outside the extractor/verifier subset)'%pid)
    r['lines']=[re.sub(r'replay=\S+','replay=<path>',l) for l in r['lines']]
meta['check_results']=det; meta['detected_by']=sorted(how)
meta['repo_head_at_last_run']=subprocess.run(['git','-C','/repo','rev-parse','--short','HEAD'],capture_output=True,text=True).stdout.strip()
json.dump(meta,open(d+'/meta.json','w'),indent=1)
print(d,{k:v['exit'] for k,v in det.items()})
PY
done
git -C /repo status --short | head -3
