#!/usr/bin/env python3
"""check <ID> [--tier quick|thorough] [--replay FILE] [--repo DIR]

Driver: extract -> weave -> verus (per unit, with vacuity twin) -> kani harnesses -> twin validation
-> known-findings filter -> evidence.  Exit 0 = every obligation of the slice discharged,
1 = a slice obligation fails (VIOLATION line), 2 = undecided (lost anchor, unsupported construct,
resource limit, tool failure) - never an alarm.
"""
import argparse
import concurrent.futures as cf
import fnmatch
import hashlib
import json
import os
import re
import shutil
import subprocess
import sys
import time

HERE = os.path.dirname(os.path.abspath(__file__))
VERIF = os.path.dirname(HERE)
sys.path.insert(0, HERE)
import weave as wv  # noqa: E402
import registry  # noqa: E402

FAIL_KINDS = [
    ("postcondition not satisfied", "postcondition"),
    ("precondition not satisfied", "precondition"),
    ("assertion failed", "assertion"),
    ("invariant not satisfied", "loop invariant"),
    ("possible arithmetic underflow/overflow", "arithmetic overflow"),
    ("possible division by zero", "division by zero"),
    ("decreases not satisfied", "termination"),
    ("could not prove termination", "termination"),
    ("possible bit shift underflow/overflow", "shift overflow"),
    ("recommendation not met", None),
    ("loop must have a decreases clause", "termination"),
]
UNDECIDED_PAT = re.compile(r"(not supported|unsupported|does not yet support|does not support|Resource limit|rlimit|"
                           r"cannot find|mismatched types|unresolved|expected .* found|aborting due to)", re.I)


def run(cmd, cwd=None, timeout=None, env=None):
    t0 = time.time()
    try:
        p = subprocess.run(cmd, cwd=cwd, stdout=subprocess.PIPE, stderr=subprocess.PIPE, timeout=timeout,
                           env=env, text=True)
        return p.returncode, p.stdout, p.stderr, time.time() - t0
    except subprocess.TimeoutExpired as e:
        return 124, (e.stdout or b"").decode(errors="replace") if isinstance(e.stdout, bytes) else (e.stdout or ""), \
            "TIMEOUT", time.time() - t0


class VerusResult:
    def __init__(self):
        self.ok = False
        self.tool_error = None      # str when the run is unusable (compile error / unsupported / crash)
        self.functions = []         # breakdown entries: dict(function, mode, ms, rlimit, success)
        self.diags = []             # dict(level, message, line, text)
        self.verified = 0
        self.errors = 0
        self.wall = 0.0
        self.cmd = ""
        self.raw_err = ""


def run_verus(path, rlimit=None, seed=None, extra=None, timeout=900, multi=8):
    cmd = ["verus", os.path.basename(path), "--output-json", "--time-expanded", "--error-format=json",
           "--multiple-errors", str(multi)]
    if rlimit:
        cmd += ["--rlimit", str(rlimit)]
    if seed is not None:
        cmd += ["--smt-option", "smt.random_seed=%d" % seed, "--smt-option", "sat.random_seed=%d" % seed]
    if extra:
        cmd += extra
    rc, out, err, wall = run(cmd, cwd=os.path.dirname(path), timeout=timeout)
    r = VerusResult()
    r.cmd = " ".join(cmd)
    r.wall = wall
    r.raw_err = err
    for ln in err.splitlines():
        ln = ln.strip()
        if not ln.startswith("{"):
            continue
        try:
            d = json.loads(ln)
        except Exception:
            continue
        if d.get("$message_type") != "diagnostic":
            continue
        sp = [s for s in d.get("spans", []) if s.get("is_primary")] or d.get("spans", [])
        line = sp[0]["line_start"] if sp else None
        txt = sp[0]["text"][0]["text"].strip() if sp and sp[0].get("text") else ""
        labels = [(s.get("label"), s["line_start"], s["text"][0]["text"].strip() if s.get("text") else "")
                  for s in d.get("spans", []) if s.get("label")]
        r.diags.append(dict(level=d["level"], message=d["message"], code=(d.get("code") or {}).get("code") if d.get("code") else None,
                            line=line, text=txt, labels=labels, rendered=d.get("rendered", "")))
    try:
        j = json.loads(out)
    except Exception:
        r.tool_error = "verus produced no JSON (rc=%d): %s" % (rc, (err or out)[-800:])
        return r
    vr = j.get("verification-results", {})
    r.verified, r.errors = vr.get("verified", 0), vr.get("errors", 0)
    if vr.get("encountered-vir-error"):
        msgs = [d["message"] for d in r.diags if d["level"] == "error"]
        r.tool_error = "verus rejected the unit before verification: " + "; ".join(msgs[:3])
        return r
    hard = [d for d in r.diags if d["level"] == "error" and (d["code"] or not any(d["message"].startswith(k) for k, _ in FAIL_KINDS))
            and not d["message"].startswith("aborting due to")]
    try:
        for m in j["times-ms"]["smt"]["smt-run-module-times"]:
            for fb in m.get("function-breakdown", []):
                r.functions.append(dict(function=fb["function"], mode=fb.get("mode:", fb.get("mode", "")),
                                        ms=fb.get("time-micros", 0) / 1000.0, rlimit=fb.get("rlimit", 0),
                                        success=bool(fb["success"])))
    except KeyError:
        pass
    if hard and not r.functions:
        r.tool_error = "compile/unsupported: " + "; ".join(d["message"] for d in hard[:3])
        return r
    if hard:
        # e.g. rlimit exceeded is reported as a plain error
        rl = [d for d in hard if "limit" in d["message"].lower()]
        other = [d for d in hard if d not in rl]
        if other:
            r.tool_error = "unexpected verus error: " + "; ".join(d["message"] for d in other[:3])
            return r
    r.ok = (r.errors == 0 and vr.get("success", False))
    return r


import threading
REPLAY_LOCK = threading.Lock()
CLI_LOCK = threading.Lock()


def tag(repo):
    """one cargo target dir per tree under check: cargo's mtime fingerprints cannot see a symlink flip"""
    return "" if repo == "/repo" else "-" + hashlib.sha256(repo.encode()).hexdigest()[:8]


def short(fn):
    """strip the crate prefix from a verus function name"""
    return fn.split("::", 1)[1] if "::" in fn else fn


def in_slice(name, patterns):
    pos = [p for p in patterns if not p.startswith("!")]
    neg = [p[1:] for p in patterns if p.startswith("!")]
    return any(fnmatch.fnmatchcase(name, p) for p in pos) and not any(fnmatch.fnmatchcase(name, p) for p in neg)


# ---------------------------------------------------------------------------------------------

class Outcome:
    def __init__(self, pid, tier, seed):
        self.pid, self.tier, self.seed = pid, tier, seed
        self.obligations = []     # dict(unit, function, mode, backend, ms, success, clauses)
        self.violations = []      # dict(function, unit, messages[...], repo_locs[...])
        self.undecided = []       # strings
        self.notes = []
        self.assumptions = []
        self.trusted = []
        self.extraction = []
        self.functions_under_contract = []
        self.bounded = []
        self.validated = []
        self.cmds = []
        self.solver_s = 0.0


def verus_unit(pid, spec, repo, tier, out):
    tmpl = os.path.join(VERIF, spec["template"])
    name = os.path.splitext(os.path.basename(tmpl))[0]
    wd = os.path.join(VERIF, ".work", pid)
    os.makedirs(wd, exist_ok=True)
    patterns = spec.get("slice", ["*"])
    try:
        unit = wv.Weaver(repo).weave(tmpl)
        vac = wv.Weaver(repo, vacuity="entry").weave(tmpl)
    except wv.Lost as e:
        out.undecided.append("%s: lost anchor: %s" % (name, e))
        return
    path = os.path.join(wd, name + ".rs")
    vpath = os.path.join(wd, name + "__vacuity.rs")
    open(path, "w").write(unit.text)
    # second vacuity probe: all broadcast axioms / broadcast lemmas of the unit switched on together must not prove `false`
    vtext = vac.text
    axs = sorted(set(re.findall(r"pub broadcast (?:axiom|proof) fn (\w+)", vtext)))
    k = vtext.rfind("\n}\nfn main")
    if axs and k > 0:
        vtext = vtext[:k] + "\npub proof fn vacuity_all_axioms_together() { broadcast use %s; assert(false); }\n" % ", ".join(axs) + vtext[k:]
    open(vpath, "w").write(vtext)
    out.extraction += [dict(e, unit=name) for e in unit.log]
    for fn in unit.functions:
        out.functions_under_contract.append("%s:%d %s" % (fn["file"], fn["repo_line"], fn["name"]))
    # assumptions of the unit: every external_body / assume_specification / admit / assume( in the woven text
    out.trusted += scan_trusted(unit, name)
    rlimit = 30 if tier == "quick" else 60
    with cf.ThreadPoolExecutor(max_workers=2) as ex:
        f_main = ex.submit(run_verus, path, rlimit)
        f_vac = ex.submit(run_verus, vpath, 10, None, None, 900, 1)
        res, vres = f_main.result(), f_vac.result()
    out.cmds.append("(cd .work/%s && %s)" % (pid, res.cmd))
    if res.tool_error:
        out.undecided.append("%s: %s" % (name, res.tool_error))
        return
    failed = [f for f in res.functions if not f["success"]]
    runs = [res]
    if failed:
        # retry before alarm: larger rlimit, other seeds
        for (rl, sd) in ((rlimit * 8, 1), (rlimit * 8, 7)):
            r2 = run_verus(path, rl, sd, timeout=1800)
            runs.append(r2)
            if r2.tool_error:
                continue
            ok2 = {f["function"] for f in r2.functions if f["success"]}
            if all(f["function"] in ok2 for f in failed):
                out.notes.append("%s: %d function(s) needed the retry configuration (rlimit=%s seed=%d)" % (
                    name, len(failed), rl, sd))
                res = r2
                failed = []
                break
            failed = [f for f in failed if f["function"] not in ok2]
    out.solver_s += sum(f["ms"] for f in res.functions) / 1000.0
    failed_names = {f["function"] for f in failed}
    for f in res.functions:
        nm = short(f["function"])
        if not in_slice(nm, patterns):
            continue
        out.obligations.append(dict(unit=name, function=nm, mode=f["mode"], backend="verus/z3",
                                    ms=round(f["ms"], 1), success=f["function"] not in failed_names))
    if failed:
        # attribute diagnostics to functions via output line -> extracted function / or by name
        last = runs[-1] if not runs[-1].tool_error else runs[0]
        diags = [d for d in last.diags if d["level"] == "error" and not d["message"].startswith("aborting")]
        only_rlimit = diags and all("limit" in d["message"].lower() for d in diags)
        for f in failed:
            nm = short(f["function"])
            if not in_slice(nm, patterns):
                out.notes.append("%s: function %s fails but is outside this property's slice" % (name, nm))
                continue
            fdi = []
            for d in diags:
                fn = wv.function_at(unit, d["line"]) if d["line"] else None
                if fn is not None and nm.endswith(fn["name"]):
                    fdi.append(d)
            if not fdi:
                # lemma / spec function in the template: attribute by template text search is unreliable; take
                # diagnostics that are not inside any extracted function
                fdi = [d for d in diags if d["line"] and wv.function_at(unit, d["line"]) is None]
            # clause-level slicing: a failing clause that is not part of THIS property's statement is not its violation
            ign = [rx for k, v in spec.get("ignore_clauses", {}).items() if nm.endswith(k) for rx in v]
            if ign and fdi:
                kept = [d for d in fdi if not any(re.search(rx, d["text"] + " " + " ".join(t for (_, _, t) in d["labels"])) for rx in ign)]
                if not kept:
                    out.notes.append("%s: %s fails only on clauses outside this property's statement (%s)" % (name, nm, "; ".join(sorted({d["text"][:60] for d in fdi}))))
                    for o in out.obligations:
                        if o["unit"] == name and o["function"] == nm:
                            o["success"] = True
                            o["note"] = "failing clauses are outside this property's slice"
                    continue
                fdi = kept
            if fdi and all("limit" in d["message"].lower() for d in fdi) or (not fdi and only_rlimit):
                out.undecided.append("%s: %s: resource limit exceeded in every configuration" % (name, nm))
                continue
            fninfo0 = next((x for x in unit.functions if nm.endswith(x["name"])), None)
            if fninfo0 and fninfo0.get("unannotated_loops"):
                # the current repo text has a loop the contracts give no invariant for: the proof cannot even be attempted,
                # so its failure decides nothing (the fallback search on the real code still runs)
                out.undecided.append("%s: %s now contains %d loop(s) without an invariant in the contracts (loop #%s): proof not attempted past them" % (
                    name, nm, len(fninfo0["unannotated_loops"]), ",".join(map(str, fninfo0["unannotated_loops"]))))
                continue
            msgs, locs = [], []
            for d in fdi:
                o = wv.locate(unit, d["line"]) if d["line"] else None
                where = ""
                if o and o["kind"] in ("repo", "edit"):
                    where = "%s:%d" % (o["file"], o["line"])
                elif o:
                    where = "%s:%d" % (o["file"], o["line"])
                kind = next((k2 for k, k2 in FAIL_KINDS if d["message"].startswith(k)), d["message"])
                msgs.append(dict(kind=kind, message=d["message"], at=where, text=d["text"],
                                 labels=[dict(label=l, text=t) for (l, _, t) in d["labels"]]))
                if where:
                    locs.append(where)
            fninfo = next((x for x in unit.functions if nm.endswith(x["name"])), None)
            out.violations.append(dict(unit=name, function=nm,
                                       repo_fn=("%s:%d" % (fninfo["file"], fninfo["repo_line"])) if fninfo else None,
                                       messages=msgs, verifier_output="".join(d["rendered"] for d in fdi)[:6000]))
    # vacuity: every extracted function must FAIL `assert(false)` at entry
    if vres.tool_error:
        out.undecided.append("%s: vacuity twin unusable: %s" % (name, vres.tool_error))
    else:
        vok = {short(f["function"]) for f in vres.functions if f["success"] and f["mode"] == "exec"}
        for fn in unit.functions:
            hits = [v for v in vok if v.endswith(fn["name"])]
            if hits:
                out.undecided.append("%s: VACUOUS: `assert(false)` at the entry of %s verifies (contradictory requires/axioms)" % (name, fn["name"]))
        if any(short(f["function"]).endswith("vacuity_all_axioms_together") and f["success"] for f in vres.functions):
            out.undecided.append("%s: VACUOUS: the unit's broadcast axioms together prove `false`" % name)
        elif any(short(f["function"]).endswith("vacuity_all_axioms_together") for f in vres.functions):
            out.notes.append("%s: vacuity guard: all broadcast axioms of the unit together do not prove `false`" % name)
        out.notes.append("%s: vacuity guard: %d/%d contracted functions reject `assert(false)` at entry" % (
            name, len(unit.functions) - sum(1 for fn in unit.functions if any(v.endswith(fn["name"]) for v in vok)),
            len(unit.functions)))
    return unit


def scan_trusted(unit, name):
    out = []
    lines = unit.text.split("\n")
    for i, ln in enumerate(lines):
        s = ln.strip()
        if s.startswith("//"):
            continue
        m = None
        if "external_body" in s or "external_fn_specification" in s or "external_type_specification" in s \
                or "external_trait_specification" in s:
            # describe by the next fn/struct line
            for j in range(i, min(i + 6, len(lines))):
                m = re.search(r"(fn|struct|trait|type)\s+(\w+)", lines[j])
                if m:
                    break
            out.append("%s: %s %s" % (name, re.search(r"external_\w+", s).group(0), m.group(2) if m else "?"))
        elif s.startswith("pub assume_specification") or s.startswith("assume_specification"):
            mm = re.search(r"\[\s*(.+?)\s*\]", s)
            out.append("%s: assume_specification %s" % (name, mm.group(1) if mm else s[:80]))
        elif re.search(r"\b(assume|admit)\s*\(", s):
            out.append("%s: %s (output line %d)" % (name, s[:100], i + 1))
        elif s.startswith("global size_of"):
            out.append("%s: %s (64-bit target)" % (name, s.rstrip(";")))
        elif "uninterp spec fn" in s:
            mm = re.search(r"fn\s+(\w+)", s)
            out.append("%s: uninterpreted %s" % (name, mm.group(1) if mm else s))
        elif s.startswith("broadcast axiom") or s.startswith("pub broadcast axiom") or s.startswith("axiom fn") or " axiom fn " in s:
            mm = re.search(r"fn\s+(\w+)", s)
            out.append("%s: axiom %s" % (name, mm.group(1) if mm else s))
    return sorted(set(out))


# ---------------------------------------------------------------------------------------------
# Kani

KANI_EXTRACT_LOCK = threading.Lock()


def kani_harness(pid, spec, repo, tier, out):
    """spec: dict(harness=..., bounded=None|str, desc=...)"""
    crate = os.path.join(VERIF, "kani")
    env = dict(os.environ, CARGO_NET_OFFLINE="true", CARGO_TARGET_DIR=os.path.join(VERIF, ".cache", "kani-target" + tag(repo)),
               COPIA_REPO=repo)
    prepare_kani_crate(repo)
    cmd = ["cargo", "kani", "-Z", "function-contracts", "-Z", "stubbing", "--harness", spec["harness"]]
    cmd += spec.get("args", [])
    rc, so, se, wall = run(cmd, cwd=crate, env=env, timeout=spec.get("timeout", 1500))
    out.cmds.append("(cd kani && COPIA_REPO=%s %s)" % (repo, " ".join(cmd)))
    txt = so + se
    m = re.search(r"VERIFICATION:- (\w+)", txt)
    nchecks = re.search(r"\*\* (\d+) of (\d+) failed", txt)
    rt = re.search(r"Verification Time: ([0-9.]+)s", txt)
    total = int(nchecks.group(2)) if nchecks else 0
    nfailed = int(nchecks.group(1)) if nchecks else 0
    secs = float(rt.group(1)) if rt else wall
    out.solver_s += secs
    rec = dict(unit="kani", function=spec["harness"], mode="harness", backend="kani/cbmc", ms=round(secs * 1000, 1),
               success=bool(m and m.group(1) == "SUCCESSFUL"), checks=total, desc=spec.get("desc", ""))
    if not m:
        out.undecided.append("kani harness %s: no verdict (rc=%d): %s" % (spec["harness"], rc, txt[-600:]))
        return
    if spec.get("bounded"):
        rec["bounded"] = spec["bounded"]
        out.bounded.append(rec)
    else:
        out.obligations.append(rec)
    if total == 0:
        out.undecided.append("kani harness %s generated zero checks (vacuous)" % spec["harness"])
    cov = re.search(r"\*\* (\d+) of (\d+) cover properties satisfied", txt)
    if cov:
        rec["covers"] = "%s/%s" % (cov.group(1), cov.group(2))
        if cov.group(1) != cov.group(2):
            out.undecided.append("kani harness %s: only %s of %s reachability covers satisfied (vacuity guard)" % (spec["harness"], cov.group(1), cov.group(2)))
    if m.group(1) != "SUCCESSFUL":
        failed_checks = re.findall(r"Check \d+: (\S+)\s*\n\s*- Status: FAILURE\s*\n\s*- Description: \"(.*?)\"\s*\n\s*- Location: (\S+)", txt)
        # concrete playback for the witness
        cmd2 = cmd + ["-Z", "concrete-playback", "--concrete-playback=print"]
        rc2, so2, se2, _ = run(cmd2, cwd=crate, env=env, timeout=spec.get("timeout", 1500))
        pb = re.findall(r"```\n(.*?)```", so2 + se2, re.S)
        out.violations.append(dict(unit="kani", function=spec["harness"], repo_fn=spec.get("repo_fn"),
                                   messages=[dict(kind="kani check", message=d, at=loc, text=n, labels=[]) for (n, d, loc) in failed_checks[:8]],
                                   verifier_output=txt[-4000:], witness=dict(kind="kani-concrete-playback", test=pb[0] if pb else None) if pb else None))


def prepare_kani_crate(repo):
    crate = os.path.join(VERIF, "kani")
    # private functions cannot be reached through #[path]: their text is extracted mechanically (byte for byte, no rewrite
    # rule) into src/extracted.rs on every run, followed by the harness text of the template
    with KANI_EXTRACT_LOCK:
        dst = os.path.join(crate, "src", "extracted.rs")
        try:
            import weave as _w
            unit = _w.Weaver(repo).weave(os.path.join(crate, "extracted.tmpl.rs"))
            text = unit.text
        except Exception as e:      # lost anchor: no harness exists then, which the caller reports as undecided
            text = "// extraction failed on this tree: %s\n" % str(e).replace("\n", " ")[:300]
        old = open(dst).read() if os.path.exists(dst) else None
        if old != text:
            open(dst, "w").write(text)
    lock = os.path.join(repo, "Cargo.lock")
    if os.path.exists(lock):
        shutil.copyfile(lock, os.path.join(crate, "Cargo.lock"))
    # the crate refers to the repo through a symlink so that --repo works
    link = os.path.join(crate, "repo")
    if os.path.islink(link):
        if os.readlink(link) != repo:
            os.unlink(link)
            os.symlink(repo, link)
    elif not os.path.exists(link):
        os.symlink(repo, link)


# ---------------------------------------------------------------------------------------------
# replay / twin validation (native code against the real crate)

def replay_bin(repo):
    """build (incrementally) the native replay crate against repo; returns path or None"""
    crate = os.path.join(VERIF, "replay")
    if not os.path.isdir(crate):
        return None, "replay crate missing"
    link = os.path.join(crate, "repo")
    if os.path.islink(link) and os.readlink(link) != repo:
        os.unlink(link)
    if not os.path.lexists(link):
        os.symlink(repo, link)
    lock = os.path.join(repo, "Cargo.lock")
    if os.path.exists(lock) and not os.path.exists(os.path.join(crate, "Cargo.lock")):
        shutil.copyfile(lock, os.path.join(crate, "Cargo.lock"))
    td = os.path.join(VERIF, ".cache", "replay-target" + tag(repo))
    env = dict(os.environ, CARGO_NET_OFFLINE="true", CARGO_TARGET_DIR=td)
    with REPLAY_LOCK:
        rc, so, se, _ = run(["cargo", "build", "--release", "--offline", "-q"], cwd=crate, env=env, timeout=1800)
    if rc != 0:
        return None, se[-1500:]
    return os.path.join(td, "release", "copia-replay"), None


def cli_bin(repo):
    """build (incrementally) the real `copia` CLI of the tree under check; returns path or None"""
    td = os.path.join(VERIF, ".cache", "cli-target" + tag(repo))
    env = dict(os.environ, CARGO_NET_OFFLINE="true", CARGO_TARGET_DIR=td)
    with CLI_LOCK:
        rc, so, se, _ = run(["cargo", "build", "--offline", "--features", "cli", "--bin", "copia", "-q"], cwd=repo, env=env, timeout=1800)
    b = os.path.join(td, "debug", "copia")
    return b if rc == 0 and os.path.exists(b) else None


def parse_witness(line):
    """a WITNESS line is flat JSON written by the replay crate; file names in its text may carry backslashes or control
    characters that were not escaped - never let that break the check"""
    raw = line[len("WITNESS "):]
    try:
        return json.loads(raw)
    except Exception:
        pass
    fixed = re.sub(r'\\(?!["\\/bfnrtu])', r'\\\\', raw)
    fixed = "".join(ch if ch >= " " else "\\u%04x" % ord(ch) for ch in fixed)
    try:
        return json.loads(fixed)
    except Exception:
        kind = re.search(r'"kind":"([^"]*)"', raw)
        d = dict(kind=kind.group(1) if kind else "unknown", what=raw[:600], unparsed=True)
        for k in ("scenario", "dir", "k", "flags", "setup", "session", "rseed"):
            m = re.search(r'"%s":(\d+)' % k, raw)
            if m:
                d[k] = int(m.group(1))
        return d


def search_witness(repo, contract, seed, budget=20, all_witnesses=False):
    b, err = replay_bin(repo)
    if b is None:
        return dict(error="replay crate does not build against this tree: " + (err or ""))
    env = dict(os.environ)
    if contract.startswith("run_") or contract.startswith("cli") or contract.endswith("sync_files") or contract.endswith("split_target") or contract.endswith("FileLocation::parse") or contract in ("bisync", "bisync_crash", "serve_crash", "hub_sync", "second_run", "delivers_plan", "dry_run", "apply", "copy_atomic", "serve", "safe_join", "tmp_of", "read_frame", "write_frame", "read_magic", "oneway", "tmp_path", "create_local_dirs") or contract.startswith("Archive::") or contract.startswith("handle_") or contract.startswith("deliver_") or contract.startswith("transfer_file_"):
        cb = cli_bin(repo)
        if cb is None:
            return dict(error="the CLI of this tree does not build")
        env["COPIA_BIN"] = cb
    rc, so, se, _ = run([b, "search", contract, str(seed), str(budget)], timeout=budget + 120, env=env)
    ws = []
    for ln in so.splitlines():
        if ln.startswith("WITNESS "):
            ws.append(parse_witness(ln))
    if all_witnesses:
        return ws
    return ws[0] if ws else None


def twin_validate(pid, spec, repo, tier, seed, out):
    b, err = replay_bin(repo)
    if b is None:
        out.undecided.append("replay crate does not build against this tree (assumed contracts not validated): " + (err or "")[-300:])
        return
    budget = spec.get("quick", 3) if tier == "quick" else spec.get("thorough", 60)
    env = dict(os.environ)
    if spec.get("needs_cli"):
        cb = cli_bin(repo)
        if cb is None:
            out.undecided.append("twin %s: the CLI of this tree does not build" % spec["name"])
            return
        env["COPIA_BIN"] = cb
    rc, so, se, wall = run([b, "twin", spec["name"], str(seed), str(budget)], timeout=budget * 4 + 120, env=env)
    out.cmds.append("replay twin %s %d %d" % (spec["name"], seed, budget))
    cases = 0
    for ln in so.splitlines():
        if ln.startswith("CASES "):
            cases = int(ln.split()[1])
        if ln.startswith("WITNESS "):
            w = parse_witness(ln)
            if spec.get("only_re") and not re.search(spec["only_re"], w.get("what", "")):
                out.notes.append("twin %s: a witness for another property's clause was found and is not reported here: %s" % (spec["name"], w.get("what", "")[:160]))
                continue
            out.violations.append(dict(unit="twin", function=spec["name"], repo_fn=spec.get("repo_fn"),
                                       messages=[dict(kind="assumed contract refuted on the real code", message=w.get("what", ""), at=spec.get("repo_fn", ""), text="", labels=[])],
                                       verifier_output="twin validation of assumed contract `%s`: real code disagrees with the contract's executable twin" % spec["name"],
                                       witness=w))
    if rc not in (0, 1):
        out.undecided.append("twin %s crashed rc=%d: %s" % (spec["name"], rc, se[-400:]))
    out.validated.append(dict(function=spec["name"], cases=cases, tier=tier, contract=spec.get("contract", ""), wall_s=round(wall, 1)))
    if spec.get("bounded"):
        # this run on the real code also STANDS IN for a part no contract can reach: bounded, never counted as proved
        out.bounded.append(dict(function=spec.get("repo_fn", spec["name"]), backend="real binary under a ptrace supervisor", bounded=spec["bounded"], cases=cases,
                                success=not any(v["unit"] == "twin" and v["function"] == spec["name"] for v in out.violations)))


# ---------------------------------------------------------------------------------------------

def load_known():
    p = os.path.join(VERIF, "known_findings.json")
    if not os.path.exists(p):
        return dict(findings=[], fixed=[])
    return json.load(open(p))


def finding_matches_clause(f, pid, v, m):
    """does known finding f cover the failing clause m of violation v?"""
    if f.get("property") != pid:
        return False
    if f.get("function") and not v["function"].endswith(f["function"]):
        return False
    blob = " ".join([m.get("message", ""), m.get("text", ""), m.get("at", ""), m.get("kind", "")] + [l.get("text", "") for l in m.get("labels", [])])
    if f.get("clause_re") and not re.search(f["clause_re"], blob):
        return False
    return True


def split_known(known, pid, v):
    """-> (list of matched findings, list of unmatched clause messages)"""
    hits, rest = [], []
    msgs = v["messages"] or [dict(kind="(no clause detail)", message="", at="", text="", labels=[])]
    for m in msgs:
        kf = next((f for f in known.get("findings", []) if finding_matches_clause(f, pid, v, m)), None)
        if kf:
            if kf not in hits:
                hits.append(kf)
        else:
            rest.append(m)
    return hits, rest


def main():
    ap = argparse.ArgumentParser()
    ap.add_argument("pid")
    ap.add_argument("--tier", default=os.environ.get("VERIF_TIER", "quick"))
    ap.add_argument("--repo", default=os.environ.get("COPIA_REPO", "/repo"))
    ap.add_argument("--replay")
    ap.add_argument("--no-evidence", action="store_true")
    a = ap.parse_args()
    tier = a.tier if a.tier in ("quick", "thorough") else "quick"
    seed = int(os.environ.get("VERIF_SEED", "0") or 0)
    repo = os.path.abspath(a.repo)
    pid = a.pid
    if a.replay:
        return do_replay(a.replay, repo)
    if pid not in registry.PROPS:
        print("unknown or not-applicable property %s" % pid)
        return 2
    P = registry.PROPS[pid]
    t0 = time.time()
    out = Outcome(pid, tier, seed)
    jobs = []
    with cf.ThreadPoolExecutor(max_workers=8) as ex:
        for u in P.get("units", []):
            jobs.append(ex.submit(verus_unit, pid, u, repo, tier, out))
        for k in P.get("kani", []):
            if k.get("tier") == "thorough" and tier != "thorough":
                continue
            jobs.append(ex.submit(kani_harness, pid, k, repo, tier, out))
        for tw in P.get("twins", []):
            jobs.append(ex.submit(twin_validate, pid, tw, repo, tier, seed, out))
        for j in jobs:
            j.result()
    if tier == "thorough":
        for u in P.get("units", []):
            thorough_extra(pid, u, repo, out)
    # ---- fallback (DESIGN §2.6): the overlay could not be applied (lost anchor / unsupported construct /
    # resource limit), so the verifier decides nothing. A directed search on the real code may still find a
    # concrete failing input for the same contracts; that is a real counterexample (never a false alarm).
    # Finding none leaves the property UNDECIDED.
    if out.undecided and not out.violations and P.get("fallback_searches"):
        known0 = load_known()
        for c in P["fallback_searches"]:
            ws = search_witness(repo, c, seed, 8 if tier == "quick" else 40, all_witnesses=True)
            if isinstance(ws, dict):
                ws = [ws]
            only = P.get("fallback_only_re")
            w = None
            for cand in ws or []:
                if cand.get("error"):
                    continue
                if only and not re.search(only, cand.get("what", "")):
                    continue
                fake = dict(function=c, messages=[dict(kind="", message=cand.get("what", ""), at="", text="", labels=[])])
                if any(finding_matches_clause(f, pid, fake, fake["messages"][0]) for f in known0.get("findings", [])
                       if f.get("function") in (c, "bisync_histories", None)):
                    continue
                w = cand
                break
            if w and not w.get("error"):
                out.violations.append(dict(unit="fallback-search", function=c, repo_fn=None,
                                           messages=[dict(kind="contract refuted by a concrete input (the proof overlay no longer applies to this function: %s)" % "; ".join(out.undecided)[:300],
                                                          message=w.get("what", ""), at="", text="", labels=[])],
                                           verifier_output="UNDECIDED by the verifier: " + "; ".join(out.undecided) + "\nfallback directed search on the real code found a failing input for contract `%s`" % c,
                                           witness=w))
                break
    # ---- verdict
    known = load_known()
    real = []
    printed_kf = set()
    for v in out.violations:
        hits, rest = split_known(known, pid, v)
        for kf in hits:
            if kf["what"] not in printed_kf:
                printed_kf.add(kf["what"])
                print("KNOWN-FINDING: property=%s %s" % (pid, kf["what"]))
        if hits:
            v["known_finding"] = "; ".join(k["what"] for k in hits)
        if rest and v["messages"]:
            if hits:
                v = dict(v, messages=rest)     # report only the clauses no finding covers
            real.append(v)
        elif not hits:
            real.append(v)
    os.makedirs(os.path.join(VERIF, "replays"), exist_ok=True)
    for v in real:
        if v.get("witness") is None and v["unit"] not in ("kani", "twin"):
            w = search_witness(repo, v["function"], seed)
            if w:
                v["witness"] = w
    rc = 0
    lines = []
    for v in real:
        h = hashlib.sha256(json.dumps([pid, v["function"], v["messages"]], sort_keys=True).encode()).hexdigest()[:10]
        rp = os.path.join(VERIF, "replays", "%s-%s-%s.json" % (pid, re.sub(r"\W+", "_", v["function"]), h))
        has_w = bool(v.get("witness")) and not (isinstance(v.get("witness"), dict) and v["witness"].get("error"))
        json.dump(dict(property=pid, failed_obligation=dict(function=v["function"], unit=v["unit"], repo_function=v.get("repo_fn"),
                                                            clauses=v["messages"]),
                       verifier_output=v.get("verifier_output", ""), witness=v.get("witness"),
                       note=None if has_w else "no-failing-input-found: the verifier gives no model for this obligation and the directed search found no concrete input",
                       repo=repo, tier=tier), open(rp, "w"), indent=1)
        lines.append("VIOLATION property=%s replay=%s%s" % (pid, rp, "" if has_w else " no-failing-input-found"))
        rc = 1
    if rc == 0 and out.undecided:
        rc = 2
    wall = time.time() - t0
    if not a.no_evidence:
        write_evidence(P, out, wall, len(real))
    for n in out.notes:
        print("note: " + n)
    for u in out.undecided:
        print("UNDECIDED property=%s reason=%s" % (pid, u))
    nd = sum(1 for o in out.obligations if o["success"])
    print("%s: %d/%d obligations discharged (%s), %d bounded stand-ins, %d assumed contracts validated, solver %.1fs, wall %.1fs" % (
        pid, nd, len(out.obligations), ", ".join(sorted({o["backend"] for o in out.obligations})), len(out.bounded),
        len(out.validated), out.solver_s, wall))
    for ln in lines:
        print(ln)
    return rc


def thorough_extra(pid, spec, repo, out):
    """thorough tier: re-run each unit with two more solver seeds (stability) and the per-function
    `ensures false` must-fail probe."""
    tmpl = os.path.join(VERIF, spec["template"])
    name = os.path.splitext(os.path.basename(tmpl))[0]
    wd = os.path.join(VERIF, ".work", pid)
    path = os.path.join(wd, name + ".rs")
    if not os.path.exists(path):
        return
    for sd in (11, 23):
        r = run_verus(path, 60, sd)
        if r.tool_error:
            continue
        bad = [short(f["function"]) for f in r.functions if not f["success"]]
        out.notes.append("%s: stability run seed=%d: %d verified, failing=%s" % (name, sd, r.verified, bad))
        out.solver_s += sum(f["ms"] for f in r.functions) / 1000.0


def write_evidence(P, out, wall, nviol):
    os.makedirs(os.path.join(VERIF, "evidence"), exist_ok=True)
    kf_fns = {(v["unit"], v["function"]) for v in out.violations if v.get("known_finding")}
    claimed = [o for o in out.obligations if not (not o["success"] and (o["unit"], o["function"]) in kf_fns)]
    kf_obl = [o for o in out.obligations if o not in claimed]
    nd = sum(1 for o in claimed if o["success"])
    samples = []
    for o in sorted(claimed, key=lambda o: (o["unit"], o["function"])):
        samples.append(o)
    cov = dict(
        obligations=len(claimed), discharged=nd,
        known_finding_obligations=[dict(o, finding=next((v["known_finding"] for v in out.violations if (v["unit"], v["function"]) == (o["unit"], o["function"]) and v.get("known_finding")), "")) for o in kf_obl],
        checker_cmd="; ".join(out.cmds) if out.cmds else "./check %s" % out.pid,
        trusted_base=sorted(set(out.trusted)) + P.get("trusted", []),
        samples=samples[:400],
        backends=sorted({o["backend"] for o in out.obligations}),
        solver_seconds=round(out.solver_s, 2),
        functions_under_contract=sorted(set(out.functions_under_contract)),
        extraction_log=out.extraction,
        bounded=out.bounded,
        assumed_validated=out.validated,
        undecided=out.undecided,
        not_decided=P.get("not_decided", []),
        clauses=P.get("clauses", {}),
        notes=out.notes,
        violations_detail=[dict(function=v["function"], unit=v["unit"], messages=v["messages"], known_finding=v.get("known_finding")) for v in out.violations],
        explanation=P.get("explanation", ""),
    )
    ev = dict(property_id=out.pid, tier=out.tier, seed=out.seed, level=P.get("level", "proof"), coverage=cov,
              assumptions=P.get("assumptions", []) + sorted(set(out.trusted)), wall_s=round(wall, 2), violations=nviol)
    json.dump(ev, open(os.path.join(VERIF, "evidence", out.pid + ".json"), "w"), indent=1)


def do_replay(path, repo):
    d = json.load(open(path))
    print("replay of %s: failed obligation %s" % (d["property"], json.dumps(d["failed_obligation"])[:600]))
    w = d.get("witness")
    if not w or (isinstance(w, dict) and w.get("error")):
        print("no concrete input recorded (no-failing-input-found); verifier output follows")
        print(d.get("verifier_output", ""))
        return 1
    if w.get("kind") == "kani-concrete-playback":
        print("Kani concrete playback test:\n" + (w.get("test") or ""))
        return 1
    b, err = replay_bin(repo)
    if b is None:
        print("replay crate does not build: " + str(err))
        return 2
    env = dict(os.environ)
    if str(w.get("kind", "")).startswith("cli") or str(w.get("kind", "")).startswith("bisync") or str(w.get("kind", "")) in ("serve", "serve-crash", "oneway", "oneway-noop", "oneway-plan", "hub"):
        env["COPIA_BIN"] = cli_bin(repo) or ""
    rc, so, se, _ = run([b, "run", json.dumps(w)], timeout=120, env=env)
    sys.stdout.write(so)
    sys.stderr.write(se)
    return rc


if __name__ == "__main__":
    sys.exit(main())
