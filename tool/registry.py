"""Property registry: which units / harnesses / twin validations decide each property (DESIGN §3)."""

WORLD_NOTE = "ghost file-system world model (DESIGN §2.4): atomic rename, non-atomic copy/write, durability only after sync_all"
COMMON_TRUST = [
    "Verus 0.2026.09.13 + Z3 (soundness of the verifier and of ghost erasure)",
    "the extractor tool/weave.py and its logged syntactic rules R0-R11 (every edit is listed in coverage.extraction_log)",
    "machine integers are checked exactly (Verus proves absence of overflow); usize is 64-bit",
]

PROPS = {}

PROPS["C17"] = dict(
    level="proof",
    units=[dict(template="units/checksum.rs", slice=["*"])],
    clauses={
        "RollingChecksum::new / FastRollingChecksum::new": "ensures r.wf(data@): a == (sum x_i) mod 65521, b == (sum (n-i) x_i) mod 65521, count == n, for exact (unbounded) sums",
        "roll": "forall windows w with old.wf(w), w[0]==old_byte: final.wf(w[1..] ++ [new_byte])",
        "push": "forall w: old.wf(w) ==> final.wf(w ++ [byte])",
        "digest": "forall w: wf(w) ==> result == ((sb(w) % 65521) << 16) | (sa(w) % 65521)  (both types, hence equal to each other and to direct construction)",
        "sum_a/sum_b/len": "components < 65521; len == |w|",
        "no overflow / no panic": "every +, *, cast and debug_assert (rule R2) in the eight functions discharged",
    },
    trusted=COMMON_TRUST,
    assumptions=[
        "FastRollingChecksum windows are at most 2^24 bytes (the property needs 65536); RollingChecksum: any length",
        "'any sequence of operations' is the induction over the per-operation contracts (representation invariant wf); the induction itself is the standard data-structure argument, each step machine-checked",
    ],
    not_decided=[],
)
